#!/venv/bin/python
"""Ad-hoc mutation probe: tools/mut.py <PID> <relfile> <old> <new>  -> runs the check on a scratch copy."""
import sys, os
sys.path.insert(0, os.path.dirname(os.path.dirname(os.path.abspath(__file__))))
from braxlint.selftest import scratch
from braxlint import check
pid, rel, old, new = sys.argv[1:5]
with scratch.scratch_repo() as d:
  scratch.apply_edit(d, rel, old, new)
  code = check.main([pid, '--repo', d, '--evidence-dir', os.path.join(d, 'ev'), '--no-selftest'])
print('exit', code)
