#!/bin/bash
# usage: tools/confirm_seed.sh <worktree> <seed-id> <property> "<test files>" 
# Confirms a seeded change independently: demo fails with / passes without, listed tests pass with it,
# then applies it to /repo, runs our check, and restores /repo.
WT=$1; ID=$2; PID=$3; TESTS=$4
OUT=/verif/seeded/$ID
mkdir -p $OUT
cp $WT/SEED/patch.diff $OUT/patch.diff; cp $WT/SEED/demo.py $OUT/demo.py; cp $WT/SEED/notes.md $OUT/notes.md 2>/dev/null
cd $WT
git checkout -q -- brax 2>/dev/null; git apply SEED/patch.diff || { echo "PATCH DOES NOT APPLY"; exit 3; }
JAX_PLATFORMS=cpu PYTHONPATH=$WT timeout 1500 /venv/bin/python SEED/demo.py > /tmp/demo_with.log 2>&1; WITH=$?
if [ -n "$TESTS" ]; then JAX_PLATFORMS=cpu PYTHONPATH=$WT timeout 3000 /venv/bin/python -m pytest -q -p no:cacheprovider $TESTS > /tmp/seed_tests.log 2>&1; TEST_RC=$?; else TEST_RC=-1; fi
git checkout -q -- brax
JAX_PLATFORMS=cpu PYTHONPATH=$WT timeout 1500 /venv/bin/python SEED/demo.py > /tmp/demo_without.log 2>&1; WITHOUT=$?
git apply SEED/patch.diff
cd /verif
git -C /repo apply $OUT/patch.diff || { echo "PATCH DOES NOT APPLY TO /repo"; exit 3; }
/venv/bin/python -m braxlint.check $PID --evidence-dir /tmp/ev-seed --no-selftest > /tmp/seed_check.log 2>&1; CHECK=$?
git -C /repo checkout -- .
echo "demo with=$WITH without=$WITHOUT tests_rc=$TEST_RC check_exit=$CHECK"
tail -3 /tmp/seed_tests.log 2>/dev/null | cut -c1-200
grep -E "^brax|ANALYSIS" /tmp/seed_check.log | head -3 | cut -c1-300
