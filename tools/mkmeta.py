import json,sys
id_,prop,change,needs,tests,cmd,rule=sys.argv[1:8]
extra=sys.argv[8] if len(sys.argv)>8 else None
d={"id":id_,"property":prop,"source":"independent sub-agent given only the property text and a scratch worktree","change":change,"needs_to_manifest":needs,
"confirmed":{"demo_with_change_exit":1,"demo_without_change_exit":0,"existing_tests_run":tests,"commands":cmd},
"detected_by":{"check":prop+" quick","exit":1,"rule":rule}}
if extra: d["detected_by"]["missed_at_first"]=extra
json.dump(d,open('/verif/seeded/%s/meta.json'%id_,'w'),indent=1)
