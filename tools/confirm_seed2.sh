#!/bin/bash
# usage: tools/confirm_seed2.sh <worktree> <seed-id> <property> "<test files>"
# Like confirm_seed.sh but never patches /repo (the check runs on a scratch copy through tools/probe_patch.py)
# and keeps its logs per seed, so several seeds can be confirmed in parallel.
WT=$1; ID=$2; PID=$3; TESTS=$4
OUT=/verif/seeded/$ID
L=/tmp/confirm-$ID; mkdir -p $OUT $L
cp $WT/SEED/patch.diff $OUT/patch.diff; cp $WT/SEED/demo.py $OUT/demo.py; cp $WT/SEED/notes.md $OUT/notes.md 2>/dev/null
cd $WT
git checkout -q -- brax 2>/dev/null; git apply SEED/patch.diff || { echo "PATCH DOES NOT APPLY"; exit 3; }
JAX_PLATFORMS=cpu PYTHONPATH=$WT timeout 1500 /venv/bin/python SEED/demo.py > $L/demo_with.log 2>&1; WITH=$?
if [ -n "$TESTS" ]; then JAX_PLATFORMS=cpu PYTHONPATH=$WT timeout 3000 /venv/bin/python -m pytest -q -p no:cacheprovider $TESTS > $L/tests.log 2>&1; TEST_RC=$?; else TEST_RC=-1; fi
git checkout -q -- brax
JAX_PLATFORMS=cpu PYTHONPATH=$WT timeout 1500 /venv/bin/python SEED/demo.py > $L/demo_without.log 2>&1; WITHOUT=$?
git apply SEED/patch.diff
cd /verif
BRAXLINT_SCRATCH_FROM_HEAD=1 /venv/bin/python tools/probe_patch.py $OUT/patch.diff $PID > $L/check.log 2>&1
echo "[$ID] demo with=$WITH without=$WITHOUT tests_rc=$TEST_RC"
tail -1 $L/tests.log 2>/dev/null | cut -c1-200
cat $L/check.log | cut -c1-600
