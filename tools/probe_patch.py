#!/venv/bin/python
"""tools/probe_patch.py <patch.diff> [PID ...]: apply a patch to a scratch copy of /repo/brax (never to /repo)
and run the quick checks of all (or the given) properties against it; prints the checks that do not exit 0.
Used to probe behaviour-preserving refactorings for false alarms and breaking changes for detection."""
import concurrent.futures
import os
import subprocess
import sys

HERE = os.path.dirname(os.path.dirname(os.path.abspath(__file__)))
sys.path.insert(0, HERE)
from braxlint.selftest import scratch  # noqa: E402

ALL = ['C%02d' % i for i in range(1, 21)]


def main():
  patch = os.path.abspath(sys.argv[1])
  pids = sys.argv[2:] or ALL
  with scratch.scratch_repo() as d:
    r = subprocess.run(['patch', '-p1', '-s', '-d', d, '-i', patch], capture_output=True, text=True)
    if r.returncode != 0:
      print('PATCH DOES NOT APPLY', r.stdout[-300:], r.stderr[-300:])
      return 3

    def one(pid):
      env = dict(os.environ, PYTHONPATH=HERE, JAX_PLATFORMS='cpu')
      env.pop('BRAXLINT_REPO', None)
      p = subprocess.run([sys.executable, '-m', 'braxlint.check', pid, '--repo', d, '--evidence-dir', os.path.join(d, 'ev'),
                          '--no-selftest', '--tier', 'quick'], capture_output=True, text=True, cwd=HERE, env=env, timeout=900)
      lines = [l for l in p.stdout.splitlines() if l.startswith(('brax', 'ANALYSIS'))]
      return pid, p.returncode, lines[:2]

    with concurrent.futures.ThreadPoolExecutor(max_workers=10) as ex:
      res = list(ex.map(one, pids))
  bad = [(p, c, l) for p, c, l in res if c != 0]
  print('%s: %d checks, %d non-zero' % (os.path.basename(patch), len(res), len(bad)))
  for p, c, l in bad:
    print('  %s exit %d %s' % (p, c, ' | '.join(x[:260] for x in l)))
  return 1 if bad else 0


if __name__ == '__main__':
  sys.exit(main())
