#!/venv/bin/python
"""tools/gen_seed_table.py: regenerates the table of DESIGN.md section 4.3 from seeded/*/meta.json (in place)."""
import glob
import json
import os

HERE = os.path.dirname(os.path.dirname(os.path.abspath(__file__)))
p = os.path.join(HERE, 'DESIGN.md')
s = open(p).read()
a = s.index('| seed | change | caught by | first attempt |')
b = s.index('`seeded/*/meta.json` is authoritative')
rows = ['| seed | change | caught by | first attempt |', '|---|---|---|---|']
n = missed = 0
cell = lambda t, k: str(t).replace('|', '/').replace('\n', ' ')[:k]
for d in sorted(glob.glob(os.path.join(HERE, 'seeded', '*', 'meta.json'))):
  m = json.load(open(d))
  n += 1
  if not m['detected_by']:
    missed += 1
    rows.append('| %s | %s | %s -- | **NOT caught** → %s |' % (m['id'], cell(m['change'], 110), m['property'], cell(m.get('not_detected', ''), 190)))
    continue
  first = m['detected_by'].get('missed_at_first')
  missed += bool(first)
  rows.append('| %s | %s | %s %s | %s |' % (m['id'], cell(m['change'], 110), m['property'], cell(m['detected_by']['rule'], 60),
                                         ('**missed / crashed** → ' + cell(first, 190)) if first else 'caught'))
s = s[:a] + '\n'.join(rows) + '\n\n' + s[b:]
open(p, 'w').write(s)
print(n, 'seeds,', missed, 'missed or crashing at first')
