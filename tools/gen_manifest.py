#!/venv/bin/python
"""Regenerates /verif/MANIFEST.json from the per-property metadata below and validates it."""
import importlib
import json
import os
import sys

HERE = os.path.dirname(os.path.dirname(os.path.abspath(__file__)))
sys.path.insert(0, HERE)

ALL = ['C%02d' % i for i in range(1, 21)]

# property -> (category, level text, level note, technique, design ref)
CLAIMS = {}
NOT_APPLICABLE = {
}


def claim(pid, category, text, note, technique, ref):
  CLAIMS[pid] = (category, text, note, technique, ref)


def build():
  # claims are registered by braxlint/manifest_data.py
  md = importlib.import_module('braxlint.manifest_data')
  md.register(claim)
  checks = []
  for pid in ALL:
    if pid not in CLAIMS:
      continue
    cat, text, note, tech, ref = CLAIMS[pid]
    checks.append({
        'property_id': pid,
        'quick_cmd': '/venv/bin/python -m braxlint.check %s --tier quick' % pid,
        'thorough_cmd': '/venv/bin/python -m braxlint.check %s --tier thorough' % pid,
        'evidence_file': '/verif/evidence/%s.json' % pid,
        'replay_cmd_template': '/venv/bin/python -m braxlint.check %s --explain {path}' % pid,
        'engine': 'braxlint',
        'level_claimed': {'category': cat, 'text': text, 'design_ref': ref},
        'level_note': note,
        'technique': tech,
    })
  na = []
  for pid in ALL:
    if pid in CLAIMS:
      continue
    reason = NOT_APPLICABLE.get(pid) or md.PENDING.get(pid) or 'check not built yet in this session'
    na.append({'property_id': pid, 'reason': reason})
  man = {
      'version': 1,
      'setup_cmd': 'true',
      'hooks': {
          'guard': 'GOOGLE_BRAX_VERIF',
          'enable': 'unused: static analysis needs no instrumentation; checks parse /repo as is',
          'baseline_off_cmd': 'cd /repo && /venv/bin/python -m pytest -ra -q -p no:cacheprovider '
                              '--timeout=900 --continue-on-collection-errors',
          'source_commits': [],
          'add_only': True,
      },
      'engines': [{
          'name': 'braxlint',
          'path': '/verif/braxlint',
          'serves_properties': [c['property_id'] for c in checks],
          'kind_free_text': 'repository-specific static analyser over Python ast: resolver and call '
                            'graph, path enumeration, def-use provenance, finite-domain predicate '
                            'normaliser, must-factor (gate) analysis, unit-quaternion typestate, and '
                            'algebraic value numbering (polynomial normal forms) of straight-line '
                            'formulas; never imports or runs brax/jax',
      }],
      'checks': checks,
      'not_applicable': na,
      'notes': 'All checks run under /venv/bin/python with cwd=/verif and read /repo (override: '
               'BRAXLINT_REPO or --repo).  exit 0 pass / 1 VIOLATION / 2 ANALYSIS-ERROR.',
  }
  return man


def main():
  man = build()
  path = os.path.join(HERE, 'MANIFEST.json')
  with open(path, 'w') as f:
    json.dump(man, f, indent=1)
    f.write('\n')
  import subprocess
  subprocess.call(['python3-vt', os.path.join(HERE, 'tools', 'validate.py')])


if __name__ == '__main__':
  main()
