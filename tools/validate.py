#!/usr/bin/env python3-vt
"""Validate MANIFEST.json and every evidence file against the harness schemas (run with python3-vt)."""
import glob, json, sys
import jsonschema
ok = True
man = json.load(open('/verif/MANIFEST.json'))
jsonschema.validate(man, json.load(open('/root/.vp/MANIFEST.schema.json')))
es = json.load(open('/root/.vp/EVIDENCE.schema.json'))
claimed = {c['property_id']: c for c in man['checks']}
for pid, c in claimed.items():
  try:
    ev = json.load(open(c['evidence_file']))
    jsonschema.validate(ev, es)
    assert ev['level'] == c['level_claimed']['category'], 'level mismatch'
  except Exception as e:
    ok = False
    print('EVIDENCE INVALID', pid, str(e)[:200])
print('manifest ok; %d checks; evidence %s' % (len(claimed), 'ok' if ok else 'BROKEN'))
sys.exit(0 if ok else 1)
