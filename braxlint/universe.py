"""Source universe: parse /repo's current working tree, index functions, resolve names.

Nothing here imports brax or jax.  A missing anchor raises AnalysisError
(exit 2, never a verdict).
"""
import ast
import collections
import os


class AnalysisError(Exception):
  """The checker could not analyse the code (vanished anchor, unmodelled construct)."""


EXCLUDE_DIRS = ('/v1', '/experimental', '/test_data')


def default_repo():
  return os.environ.get('BRAXLINT_REPO', '/repo')


class Mod:

  def __init__(self, name, path, src):
    self.name, self.path, self.src = name, path, src
    try:
      self.tree = ast.parse(src)
    except SyntaxError as e:
      raise AnalysisError('unparsable file %s: %s' % (path, e))
    self.alias = {}
    self.defs = {}
    self.classes = {}
    self.consts = {}
    self.dispatch = {}  # (generic name, class name) -> FunctionDef
    for n in self.tree.body:
      if isinstance(n, (ast.FunctionDef, ast.AsyncFunctionDef)):
        reg = None
        for d in n.decorator_list:
          if (isinstance(d, ast.Call) and isinstance(d.func, ast.Attribute)
              and d.func.attr == 'register' and isinstance(d.func.value, ast.Name)
              and d.args and isinstance(d.args[0], ast.Name)):
            reg = (d.func.value.id, d.args[0].id)
        if reg:
          self.dispatch[reg] = n
          continue
        self.defs[n.name] = n
      elif isinstance(n, ast.ClassDef):
        self.classes[n.name] = n
      elif isinstance(n, ast.Import):
        for a in n.names:
          self.alias[a.asname or a.name.split('.')[0]] = (
              a.name if a.asname else a.name.split('.')[0])
      elif isinstance(n, ast.ImportFrom) and n.module and n.level == 0:
        for a in n.names:
          self.alias[a.asname or a.name] = n.module + '.' + a.name
      elif isinstance(n, ast.Assign) and len(n.targets) == 1 and isinstance(
          n.targets[0], ast.Name):
        self.consts[n.targets[0].id] = n.value
      elif isinstance(n, ast.AnnAssign) and isinstance(n.target, ast.Name) and n.value is not None:
        self.consts[n.target.id] = n.value


class Func:

  def __init__(self, qname, mod, node, cls=None, parent=None):
    self.qname, self.mod, self.node, self.cls, self.parent = qname, mod, node, cls, parent

  @property
  def file(self):
    return self.mod.path

  @property
  def line(self):
    return self.node.lineno

  def where(self, node=None):
    return (self.mod.path, getattr(node, 'lineno', self.node.lineno), self.qname)


class Universe:
  """All analysed modules of one repository root."""

  def __init__(self, repo=None):
    self.repo = repo or default_repo()
    self.root = os.path.join(self.repo, 'brax')
    if not os.path.isdir(self.root):
      raise AnalysisError('no brax package under %s' % self.repo)
    self.mods = {}
    self.funcs = {}
    for d, _, fs in sorted(os.walk(self.root)):
      rel = d[len(self.root):]
      if any(rel == e or rel.startswith(e + '/') for e in EXCLUDE_DIRS):
        continue
      for f in sorted(fs):
        if not f.endswith('.py') or f.endswith('_test.py') or f == 'test_utils.py':
          continue
        p = os.path.join(d, f)
        m = 'brax' + p[len(self.root):-3].replace('/', '.')
        if m.endswith('.__init__'):
          m = m[:-9]
        with open(p) as fh:
          self.mods[m] = Mod(m, p, fh.read())
    for m in self.mods.values():
      self._collect(m, m.tree, m.name + '.', None, None)
    self._edges = None

  def _collect(self, mod, node, prefix, cls, parent):
    for n in ast.iter_child_nodes(node):
      if isinstance(n, (ast.FunctionDef, ast.AsyncFunctionDef)):
        q = prefix + n.name
        if q in self.funcs:
          k = 2
          while '%s#%d' % (q, k) in self.funcs:
            k += 1
          q = '%s#%d' % (q, k)
        f = Func(q, mod, n, cls, parent)
        self.funcs[q] = f
        self._collect(mod, n, q + '.', None, f)
      elif isinstance(n, ast.ClassDef):
        self._collect(mod, n, prefix + n.name + '.', n.name, parent)
      elif isinstance(n, (ast.If, ast.For, ast.With, ast.Try, ast.While)):
        self._collect(mod, n, prefix, cls, parent)

  # ------------------------------------------------------------------ anchors
  def mod(self, name):
    if name not in self.mods:
      raise AnalysisError('anchor module %s not found' % name)
    return self.mods[name]

  def func(self, qname):
    if qname not in self.funcs:
      raise AnalysisError('anchor function %s not found' % qname)
    return self.funcs[qname]

  def has_func(self, qname):
    return qname in self.funcs

  def cls(self, modname, cname):
    m = self.mod(modname)
    if cname not in m.classes:
      raise AnalysisError('anchor class %s.%s not found' % (modname, cname))
    return m.classes[cname]

  def nested(self, qname):
    """Functions nested (directly or not) in qname."""
    return [f for q, f in self.funcs.items() if q.startswith(qname + '.')]

  def funcs_in_module(self, modname):
    return [f for q, f in self.funcs.items() if f.mod.name == modname]

  def dispatch_impls(self, modname, generic):
    m = self.mod(modname)
    return {c: n for (g, c), n in m.dispatch.items() if g == generic}

  def rel(self, path):
    return os.path.relpath(path, self.repo)

  # --------------------------------------------------------------- call graph
  def edges(self):
    """Over-approximate name-based call graph: qname -> set(qname)."""
    if self._edges is not None:
      return self._edges
    edges = collections.defaultdict(set)
    methods = collections.defaultdict(set)
    for q in self.funcs:
      methods[q.rsplit('.', 1)[-1].split('#')[0]].add(q)
    base_methods = ('do', 'inv_do', 'to_local', 'cross', 'dot', 'mul', 'create', 'zero', 'vmap',
                    'take', 'concatenate', 'index_sum', 'index_set', 'select', 'slice', 'reshape',
                    'matrix', 'dof_link', 'dof_ranges', 'q_idx', 'qd_idx', 'num_links',
                    'q_size', 'qd_size', 'act_size', 'tree_replace')
    for q, f in self.funcs.items():
      m = f.mod
      for n in ast.walk(f.node):
        if n is f.node:
          continue
        if not isinstance(n, (ast.Attribute, ast.Name)):
          continue
        d = dotted(n)
        if not d:
          continue
        head = d[0]
        if head in m.alias:
          full = m.alias[head].split('.') + d[1:]
          for k in range(len(full), 0, -1):
            qq = '.'.join(full[:k])
            if qq in self.funcs:
              edges[q].add(qq)
              break
        if len(d) == 1:
          # enclosing scopes, then module level
          scope = q
          while True:
            if scope + '.' + d[0] in self.funcs:
              edges[q].add(scope + '.' + d[0])
              break
            if '.' not in scope or scope == m.name:
              break
            scope = scope.rsplit('.', 1)[0]
        if isinstance(n, ast.Attribute) and n.attr in base_methods:
          for c in methods.get(n.attr, ()):
            if c.startswith('brax.base.'):
              edges[q].add(c)
    # singledispatch implementations
    for m in self.mods.values():
      for (g, c), node in m.dispatch.items():
        for q, f in self.funcs.items():
          if f.node is node and (m.name + '.' + g) in self.funcs:
            edges[m.name + '.' + g].add(q)
    # custom_jvp: primal -> jvp rule
    for q, f in self.funcs.items():
      for d in f.node.decorator_list:
        if isinstance(d, ast.Attribute) and d.attr == 'defjvp' and isinstance(d.value, ast.Name):
          p = f.mod.name + '.' + d.value.id
          if p in self.funcs:
            edges[p].add(q)
    self._edges = edges
    return edges

  def reach(self, roots):
    edges = self.edges()
    seen, st = set(), [r for r in roots]
    for r in roots:
      if r not in self.funcs:
        raise AnalysisError('reachability root %s not found' % r)
    while st:
      x = st.pop()
      if x in seen:
        continue
      seen.add(x)
      st.extend(edges.get(x, ()))
      st.extend(k for k in self.funcs if k.startswith(x + '.'))
    return seen

  def pipeline_reach(self, backends=('generalized', 'spring', 'positional')):
    out = set()
    for b in backends:
      out |= self.reach(['brax.%s.pipeline.init' % b, 'brax.%s.pipeline.step' % b])
    return out


# -------------------------------------------------------------------- AST utils
def dotted(e):
  c = []
  while isinstance(e, ast.Attribute):
    c.append(e.attr)
    e = e.value
  if isinstance(e, ast.Name):
    return [e.id] + c[::-1]
  return None


def dotted_str(e):
  d = dotted(e)
  return '.'.join(d) if d else None


def own_nodes(fn):
  """All nodes of a function body excluding nested defs/classes (lambdas included)."""
  st = list(ast.iter_child_nodes(fn))
  while st:
    n = st.pop()
    if isinstance(n, (ast.FunctionDef, ast.AsyncFunctionDef, ast.ClassDef)):
      continue
    yield n
    st.extend(ast.iter_child_nodes(n))


def own_stmts(body):
  """Statements in a body, recursing into compound statements but not nested defs."""
  for s in body:
    yield s
    if isinstance(s, (ast.FunctionDef, ast.AsyncFunctionDef, ast.ClassDef)):
      continue
    for fld in ('body', 'orelse', 'finalbody'):
      sub = getattr(s, fld, None)
      if isinstance(sub, list):
        yield from own_stmts(sub)
    if isinstance(s, ast.Try):
      for h in s.handlers:
        yield from own_stmts(h.body)


def unparse(n):
  return ast.unparse(n) if n is not None else ''


def norm(n):
  """Whitespace/format independent text of a node."""
  return ast.unparse(n)


def call_name(call, mod=None):
  """Dotted callee of a Call with import aliases expanded, or None."""
  d = dotted(call.func)
  if not d:
    return None
  if mod is not None and d[0] in mod.alias:
    return '.'.join(mod.alias[d[0]].split('.') + d[1:])
  return '.'.join(d)


def is_num(n, val=None):
  if isinstance(n, ast.UnaryOp) and isinstance(n.op, ast.USub) and is_num(n.operand):
    return val is None or -n.operand.value == val
  if isinstance(n, ast.Constant) and isinstance(n.value, (int, float)) and not isinstance(n.value, bool):
    return val is None or n.value == val
  return False


def num_val(n):
  if isinstance(n, ast.UnaryOp) and isinstance(n.op, ast.USub):
    v = num_val(n.operand)
    return None if v is None else -v
  if isinstance(n, ast.UnaryOp) and isinstance(n.op, ast.UAdd):
    return num_val(n.operand)
  if isinstance(n, ast.Constant) and isinstance(n.value, (int, float)) and not isinstance(n.value, bool):
    return n.value
  return None


def kwarg(call, name, pos=None):
  for k in call.keywords:
    if k.arg == name:
      return k.value
  if pos is not None and len(call.args) > pos and not any(
      isinstance(a, ast.Starred) for a in call.args[:pos + 1]):
    return call.args[pos]
  return None
