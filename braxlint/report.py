"""Obligation bookkeeping, known findings, evidence files and exit codes."""
import json
import os
import sys
import time

VERIF = os.path.dirname(os.path.dirname(os.path.abspath(__file__)))
KNOWN = os.path.join(VERIF, 'known_findings.json')


def load_known():
  if not os.path.exists(KNOWN):
    return []
  with open(KNOWN) as f:
    return json.load(f).get('findings', [])


class Report:
  """Collects obligations for one property run."""

  def __init__(self, pid, tier, level, explanation, trusted_base, assumptions, repo,
               evidence_dir=None, quiet=False):
    self.pid, self.tier, self.level = pid, tier, level
    self.explanation, self.trusted_base, self.assumptions = explanation, trusted_base, assumptions
    self.repo = repo
    self.t0 = time.time()
    self.obls = []       # dict(rule,key,ok,where,construct,detail,nontrivial)
    self.notes = []
    self.stats = {}
    self.seed = int(os.environ.get('VERIF_SEED', '0') or 0)
    self.evidence_dir = evidence_dir or os.path.join(VERIF, 'evidence')
    self.quiet = quiet
    self.exhaustive = None

  # ------------------------------------------------------------- obligations
  def ok(self, rule, key, construct='', where=None, nontrivial=True, detail=''):
    self.obls.append(dict(rule=rule, key=key, ok=True, where=where, construct=construct,
                          detail=detail, nontrivial=nontrivial))

  def fail(self, rule, key, message, where=None, construct='', expected=None, found=None):
    self.obls.append(dict(rule=rule, key=key, ok=False, where=where, construct=construct,
                          detail=message, expected=expected, found=found, nontrivial=True))

  def check(self, cond, rule, key, message, where=None, construct='', **kw):
    if cond:
      self.ok(rule, key, construct=construct, where=where)
    else:
      if callable(message):
        message = message()
      self.fail(rule, key, message, where=where, construct=construct, **kw)
    return cond

  def note(self, msg):
    self.notes.append(msg)

  def stat(self, k, v):
    self.stats[k] = v

  # ------------------------------------------------------------------ finish
  def _fmt_where(self, w):
    if not w:
      return ''
    f, l, fn = (list(w) + [None, None, None])[:3]
    if f and self.repo and f.startswith(self.repo):
      f = os.path.relpath(f, self.repo)
    return '%s:%s%s' % (f, l, (' in ' + fn) if fn else '')

  def finish(self):
    known = [k for k in load_known() if k.get('property') == self.pid]
    known_keys = {k['key']: k for k in known if k.get('status') == 'known'}
    violations, listed = [], []
    for o in self.obls:
      if o['ok']:
        continue
      fk = '%s|%s' % (o['rule'], o['key'])
      if fk in known_keys:
        listed.append((fk, o))
      else:
        violations.append((fk, o))
    out_dir = os.path.join(VERIF, 'out', 'replay')
    lines = []
    for fk, o in listed:
      lines.append('KNOWN-FINDING: property=%s %s %s -- %s' % (
          self.pid, fk, self._fmt_where(o['where']), known_keys[fk].get('what', o['detail'])))
    for i, (fk, o) in enumerate(violations):
      os.makedirs(out_dir, exist_ok=True)
      path = os.path.join(out_dir, '%s-%d.json' % (self.pid, i))
      with open(path, 'w') as f:
        json.dump(dict(property=self.pid, finding_key=fk, rule=o['rule'], instance=o['key'],
                       where=self._fmt_where(o['where']), construct=o['construct'],
                       message=o['detail'], expected=_s(o.get('expected')), found=_s(o.get('found')),
                       repo=self.repo, tier=self.tier), f, indent=1)
      lines.append('%s: %s [%s] %s' % (self._fmt_where(o['where']), o['rule'], o['key'], o['detail']))
      lines.append('VIOLATION property=%s replay=%s' % (self.pid, path))
    self._write_evidence(len(violations), len(listed))
    if not self.quiet:
      for n in self.notes:
        print('NOTE: ' + n)
      for l in lines:
        print(l)
      nob = len(self.obls)
      print('%s %s: %d obligations, %d discharged, %d known findings, %d violations (%.2fs)' % (
          self.pid, self.tier, nob, sum(1 for o in self.obls if o['ok']), len(listed),
          len(violations), time.time() - self.t0))
    return 1 if violations else 0

  def _write_evidence(self, nviol, nknown):
    obls = self.obls
    per_rule = {}
    for o in obls:
      per_rule[o['rule']] = per_rule.get(o['rule'], 0) + 1
    distinct = {(o['rule'], o['key']) for o in obls if o['nontrivial']}
    samples = []
    seen_rules = {}
    for o in obls:
      if seen_rules.get(o['rule'], 0) >= 3:
        continue
      seen_rules[o['rule']] = seen_rules.get(o['rule'], 0) + 1
      samples.append(dict(rule=o['rule'], instance=o['key'], where=self._fmt_where(o['where']),
                          construct=(o['construct'] or '')[:300],
                          verdict='discharged' if o['ok'] else 'FAILED: ' + str(o['detail'])[:300]))
    cov = dict(
        obligations=len(obls),
        discharged=sum(1 for o in obls if o['ok']),
        evaluations=len(obls),
        distinct_nontrivial=len(distinct),
        rule=('one evaluation = one static obligation (rule instance) decided on the AST of '
              '/repo; distinct = distinct (rule, instance key); non-trivial = the verdict depends '
              'on at least one non-literal construct of the analysed code'),
        samples=samples[:60],
        per_rule=per_rule,
        explanation=self.explanation,
        checker_cmd='/venv/bin/python -m braxlint.check %s --tier %s' % (self.pid, self.tier),
        trusted_base=self.trusted_base,
        known_findings=nknown,
        notes=self.notes[:50],
    )
    cov.update(self.stats)
    if self.exhaustive is not None:
      cov['exhaustive'] = self.exhaustive
    ev = dict(property_id=self.pid, tier=self.tier, seed=self.seed, level=self.level,
              coverage=cov, assumptions=self.assumptions,
              wall_s=round(time.time() - self.t0, 3), violations=nviol)
    os.makedirs(self.evidence_dir, exist_ok=True)
    with open(os.path.join(self.evidence_dir, '%s.json' % self.pid), 'w') as f:
      json.dump(ev, f, indent=1, sort_keys=True)
      f.write('\n')


def _s(x):
  if x is None:
    return None
  s = x if isinstance(x, str) else repr(x)
  return s[:2000]
