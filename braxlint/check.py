"""CLI: python -m braxlint.check <property id> --tier quick|thorough [--repo DIR].

exit 0: every obligation discharged (known findings printed);
exit 1: VIOLATION line(s) for unlisted violations;
exit 2: ANALYSIS-ERROR (the checker could not analyse the code) -- never a verdict.
"""
import argparse
import importlib
import json
import os
import sys
import traceback

from braxlint import report
from braxlint import universe


def run_property(pid, tier, repo, evidence_dir=None, quiet=False, selftest=True):
  mod = importlib.import_module('braxlint.props.%s' % pid.lower())
  rep = report.Report(pid, tier, mod.LEVEL, mod.EXPLANATION, mod.TRUSTED, mod.ASSUMPTIONS, repo,
                      evidence_dir=evidence_dir, quiet=quiet)
  U = universe.Universe(repo)
  rep.stat('modules_parsed', len(U.mods))
  rep.stat('functions_indexed', len(U.funcs))
  mod.run(U, rep, tier)
  if tier == 'thorough' and selftest and repo == universe.default_repo():
    from braxlint.selftest import runner
    runner.run_for_property(pid, rep)
  return rep


def main(argv=None):
  ap = argparse.ArgumentParser()
  ap.add_argument('pid')
  ap.add_argument('--tier', default=os.environ.get('VERIF_TIER') or 'quick',
                  choices=['quick', 'thorough'])
  ap.add_argument('--repo', default=None)
  ap.add_argument('--evidence-dir', default=None)
  ap.add_argument('--explain', default=None, help='replay JSON written by a failing run')
  ap.add_argument('--no-selftest', action='store_true')
  ap.add_argument('--quiet', action='store_true')
  a = ap.parse_args(argv)
  repo = a.repo or universe.default_repo()
  if a.explain:
    with open(a.explain) as f:
      r = json.load(f)
    print('replaying %s: rule %s instance %s' % (a.explain, r.get('rule'), r.get('instance')))
    print(json.dumps(r, indent=1))
  try:
    rep = run_property(a.pid.upper(), a.tier, repo, a.evidence_dir, a.quiet,
                       selftest=not a.no_selftest)
    code = rep.finish()
  except universe.AnalysisError as e:
    print('ANALYSIS-ERROR property=%s %s' % (a.pid.upper(), e))
    return 2
  except Exception as e:  # pylint: disable=broad-except
    tb = traceback.format_exc()
    print('ANALYSIS-ERROR property=%s internal %s: %s' % (a.pid.upper(), type(e).__name__, e))
    sys.stderr.write(tb)
    return 2
  return code


if __name__ == '__main__':
  sys.exit(main())
