"""C13 -- fusing jointless bodies on load preserves the model's geometry.

R13.1 guard completeness: the call composing the removed body's pose into a child may be
      skipped only when *every* pose argument is the identity (guard mentions all pose
      arguments disjunctively with the right identity constants, or none).
R13.2 _offset writes both pos and quat from _transform_do(parent_pos, parent_quat, pos, quat)
      and transforms both fromto end points with the same parent pose;
      _transform_do == Transform o Transform (AVN law).
R13.3 offset tags include body/geom/site; only jointless bodies are fused; every grandchild is
      re-parented, the fused body removed, nested levels recursed; fusion runs before
      serialisation / MjModel compilation on every load path.
"""
import ast

from braxlint import avn, paths, pred
from braxlint.avn import fn, same
from braxlint.avnlib import B, T, diff_report, new_interp
from braxlint.universe import AnalysisError, call_name, dotted, own_nodes

LEVEL = 'other'
EXPLANATION = (
    'Static rule check on brax/io/mjcf.py: the path condition under which the fused body\'s pose '
    'is composed into each child is normalised (finite-domain predicate normaliser with the pose '
    'arguments kept opaque) and must be false only when both pos and quat are the identity; the '
    'composition helper is proven equal to Transform composition by algebraic value numbering; '
    'def-use provenance of the attributes _offset writes; path rules for re-parenting, removal, '
    'recursion and fuse-before-compile on all load paths.  Holds for every MJCF document, not a '
    'sampled one.')
TRUSTED = ['python ast', 'predicate normaliser', 'AVN normal form', 'xml.etree semantics of append/remove/attrib']
ASSUMPTIONS = ['masses/inertias are recomputed by MuJoCo\'s compiler and not decided here',
               'orientation attributes other than quat (euler, axisangle, ...) are outside the property']

MJ = 'brax.io.mjcf'
IDENT_Q = ('tup', (pred.C(1.0), pred.C(0.0), pred.C(0.0), pred.C(0.0)))


def _find_offset_call(f):
  for n in own_nodes(f.node):
    if isinstance(n, ast.Call) and dotted(n.func) and dotted(n.func)[-1] == '_offset':
      return n
  return None


def r13_1_3(U, rep):
  f = U.func(MJ + '._fuse_bodies')
  call = _find_offset_call(f)
  if call is None:
    # the fusing function may have been renamed: locate by role (called by loads before tostring)
    raise AnalysisError('anchor: no call to _offset in _fuse_bodies')
  if len(call.args) != 3 or not all(isinstance(a, ast.Name) for a in call.args[1:]):
    raise AnalysisError('_offset call is not _offset(elem, <pos name>, <quat name>)')
  pos_n, quat_n = call.args[1].id, call.args[2].id
  rows = {}

  def on_stmt(s, pc, env, N):
    if isinstance(s, ast.Expr) and isinstance(s.value, ast.Call):
      d = dotted(s.value.func)
      if s.value is call:
        rows['offset'] = (list(pc), s)
        rows['offset_subj'] = N.term(call.args[0], env)
      elif d and d[-1] == 'append' and len(d) == 2:
        rows['append'] = (list(pc), s, d[0], pred.show(N.term(s.value.args[0], env)) if s.value.args else '')
      elif d and d[-1] == 'remove' and len(d) == 2:
        rows['remove'] = (list(pc), s, d[0], pred.show(N.term(s.value.args[0], env)) if s.value.args else '')
      elif d and d[-1] == f.node.name:
        rows['recurse'] = (list(pc), s)

  a = f.node.args
  params = [x.arg for x in a.args]
  env = pred.Env(params, f.mod, opaque=(pos_n, quat_n))
  pred.sym_walk(f.node, f.mod, params, env=env, on_stmt=on_stmt, drop_raise_negations=False)
  if 'offset' not in rows:
    raise AnalysisError('_offset call is not a statement of _fuse_bodies')
  pc, stmt = rows['offset']
  cond = pred.mk_and(pc)
  atoms = list(cond[1]) if cond[0] == 'and' else [cond]

  def mentions(t, name):
    if t == ('f', name):
      return True
    if isinstance(t, (tuple, frozenset)):
      return any(mentions(x, name) for x in t)
    return False

  pose_atoms = [x for x in atoms if mentions(x, pos_n) or mentions(x, quat_n)]
  want_pos = ('any', ('notin', ('f', pos_n), frozenset([0])))
  want_quat = ('any', ('ne', frozenset([('f', quat_n), IDENT_Q])))
  ok, why = True, ''
  if pose_atoms:
    if len(pose_atoms) != 1:
      ok, why = False, 'the pose arguments are tested in separate conjuncts (the offset is skipped when only one of them is the identity)'
    else:
      at = pose_atoms[0]
      dis = set(at[1]) if at[0] == 'or' else {at}
      if not (mentions(at, pos_n) and mentions(at, quat_n)):
        missing = quat_n if not mentions(at, quat_n) else pos_n
        ok, why = False, 'the guard ignores `%s`: a fused body whose only non-identity pose component is `%s` is not composed into its children' % (missing, missing)
      elif dis != {want_pos, want_quat}:
        ok, why = False, 'the guard is not `pos != 0 anywhere OR quat != (1,0,0,0) anywhere`'
  rep.check(ok, 'R13.1', '%s|offset guard covers pos and quat' % f.qname, why, where=f.where(stmt),
            construct=' ∧ '.join(sorted(pred.show(x) for x in atoms)),
            expected='(∃[%s ∉ {0}] ∨ ∃[%s != (1,0,0,0)]) or no pose guard' % (pos_n, quat_n),
            found=' ∧ '.join(sorted(pred.show(x) for x in pose_atoms)))
  # R13.3 tags
  subj = rows['offset_subj']
  tag_atoms = [x for x in atoms if x[0] == 'in' and x[1] == ('attr', subj, 'tag')]
  tags = set()
  for x in tag_atoms:
    tags |= set(x[2])
  # the remaining atoms are the "jointless body" conditions shared with the removal
  rep.check(not tag_atoms or {'body', 'geom', 'site'} <= tags, 'R13.3', 'offset tags include body/geom/site',
            'children with tags %s are no longer offset when their parent body is fused' % sorted(
                {'body', 'geom', 'site'} - tags), where=f.where(stmt), construct=str(sorted(tags)))
  # only jointless bodies are fused
  if 'remove' not in rows or 'append' not in rows:
    rep.fail('R13.3', 're-parent and remove', 'the fused body is not removed / its children are not re-parented',
             where=f.where())
    return
  rpc, rstmt, robj, rarg = rows['remove']
  ratoms = pred.atoms_of(rpc)
  child = rarg
  want = {"%s.tag ∈ {'body'}" % child, "%s.find('joint') ∈ {\"('c', None)\"}" % child,
          "%s.find('freejoint') ∈ {\"('c', None)\"}" % child}
  rep.check(set(ratoms) == want, 'R13.3', 'only jointless bodies are fused',
            'a body is fused under the condition {%s}; expected exactly: tag is body, no joint, no freejoint' % '; '.join(sorted(ratoms)),
            where=f.where(rstmt), construct='; '.join(sorted(ratoms)))
  apc, astmt, aobj, aarg = rows['append']
  # append happens for every grandchild of the fused body: its pc equals the removal pc
  rep.check(set(pred.atoms_of(apc)) == set(ratoms) and aobj == robj, 'R13.3', 'every grandchild is re-parented',
            'children of a fused body are re-parented only under {%s}' % '; '.join(sorted(pred.atoms_of(apc))),
            where=f.where(astmt))
  rep.check('recurse' in rows and not pred.atoms_of(rows['recurse'][0]), 'R13.3', 'nested levels are fused recursively',
            '_fuse_bodies no longer recurses unconditionally into every child', where=f.where())


def r13_2(U, rep):
  f = U.func(MJ + '._offset')
  params = [x.arg for x in f.node.args.args]
  if len(params) != 3:
    raise AnalysisError('_offset signature changed')
  stores = {}

  def on_assign(s, pc, env, N):
    tg = s.targets[0] if isinstance(s, ast.Assign) else None
    if isinstance(tg, ast.Subscript) and dotted(tg.value) == [params[0], 'attrib'] and isinstance(tg.slice, ast.Constant):
      stores[tg.slice.value] = (N.term(s.value, env), pred.atoms_of(pc), s)

  pred.sym_walk(f.node, f.mod, params, on_assign=on_assign, drop_raise_negations=False)

  def find_td(t, out):
    if isinstance(t, tuple):
      if t and t[0] == 'sub' and isinstance(t[1], tuple) and t[1] and t[1][0] == 'call' and t[1][1].endswith('_transform_do'):
        out.append((t[1], t[2]))
      for x in t:
        if isinstance(x, (tuple, frozenset)):
          find_td(tuple(x) if isinstance(x, frozenset) else x, out)
    return out

  def attr_src(t, name):
    return "'%s'" % name in pred.show(t)

  for key, comp in (('pos', 0), ('quat', 1)):
    if key not in stores:
      rep.fail('R13.2', '_offset writes ' + key, '_offset no longer writes the `%s` attribute' % key, where=f.where())
      continue
    term, pc, s = stores[key]
    tds = find_td(term, [])
    ok = False
    for c, idx in tds:
      a = c[2]
      if len(a) == 4 and a[0] == ('f', params[1]) and a[1] == ('f', params[2]) and idx == pred.C(comp) \
          and attr_src(a[2], 'pos') and attr_src(a[3], 'quat'):
        ok = True
    # a write may be skipped only when the composed value provably equals the original one
    q_ne = '∃[(1,0,0,0) != %s]' % params[2]
    p_ne = '∃[%s ∉ {0}]' % params[1]
    harmless = {q_ne} if key == 'quat' else {'(%s ∨ %s)' % tuple(sorted([q_ne, p_ne]))}
    extra = [a for a in pc if 'fromto' not in a and a not in harmless]
    rep.check(not extra, 'R13.2', '_offset writes %s on every non-fromto path' % key,
              'the composed `%s` is written back only under the extra condition {%s}: a parent pose changes both the '
              'position and the orientation of its children, so both must always be written' % (key, '; '.join(sorted(extra))),
              where=f.where(s), construct='pc = {%s}' % '; '.join(sorted(pc)))
    rep.check(ok, 'R13.2', '_offset.%s = _transform_do(parent_pos, parent_quat, pos, quat)[%d]' % (key, comp),
              'the `%s` written by _offset is not component %d of _transform_do(parent_pos, parent_quat, elem pos, elem quat)' % (key, comp),
              where=f.where(s), construct=pred.show(term)[:200])
  if 'fromto' not in stores:
    rep.fail('R13.2', '_offset handles fromto', '_offset no longer rewrites `fromto` end points', where=f.where())
  else:
    term, pc, s = stores['fromto']
    tds = [c for c, idx in find_td(term, []) if idx == pred.C(0)]
    srcs = []
    ok = len(tds) >= 2
    for c in tds:
      a = c[2]
      ok = ok and len(a) == 4 and a[0] == ('f', params[1]) and a[1] == ('f', params[2]) and attr_src(a[2], 'fromto')
      srcs.append(pred.show(a[2]))
    ok = ok and len(set(srcs)) >= 2 and any('0:3' in x for x in srcs) and any('3:6' in x for x in srcs)
    rep.check(ok, 'R13.2', '_offset.fromto: both end points through the same parent pose',
              'fromto end points are not both transformed by _transform_do(parent_pos, parent_quat, .)',
              where=f.where(s), construct=pred.show(term)[:200])
    # the fromto variant returns before pos/quat are written
    for key in ('pos', 'quat'):
      if key in stores:
        pcs = stores[key][1]
        rep.check(any('fromto' in x for x in pcs), 'R13.2', 'pos/quat not written on fromto elements (%s)' % key,
                  'pos/quat are also written on fromto elements (MuJoCo rejects fromto with pos/quat)', where=f.where(stores[key][2]))
  # AVN: _transform_do == Transform.do(Transform)
  I = new_interp(U.repo, contracts=False)
  a, b = T('a'), T('b')
  got = list(I.apply(fn(MJ, '_transform_do'), [a.f['pos'], a.f['rot'], b.f['pos'], b.f['rot']], {}))
  comp = I.apply(fn(B, 'Transform.do'), [a, b], {})
  want = [comp.f['pos'], comp.f['rot']]
  rep.check(same(got, want), 'R13.2', '_transform_do == Transform o Transform',
            'mjcf._transform_do is not rigid-transform composition: ' + diff_report(got, want),
            where=U.func(MJ + '._transform_do').where())


def r13_3_paths(U, rep):
  for qn in ('loads', 'load_mjmodel', 'fuse_bodies', '_find_assets'):
    f = U.func(MJ + '.' + qn)
    bad = None
    nsinks = 0
    for p in paths.enumerate_paths(f.node):
      fused = set()
      for c in p.calls():
        d = dotted(c.func) or []
        if d and d[-1] == '_fuse_bodies' and c.args:
          fused.add(ast.unparse(c.args[0]))
        if d and d[-1] in ('tostring',) and c.args:
          nsinks += 1
          if ast.unparse(c.args[0]) not in fused:
            bad = c
    rep.check(bad is None and nsinks > 0, 'R13.3', 'fuse before serialisation in mjcf.%s' % qn,
              'mjcf.%s serialises / compiles an element tree that was not passed through _fuse_bodies' % qn,
              where=f.where(bad) if bad is not None else f.where())


def run(U, rep, tier):
  r13_1_3(U, rep)
  r13_2(U, rep)
  r13_3_paths(U, rep)
