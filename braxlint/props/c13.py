"""C13 -- fusing jointless bodies on load preserves the model's geometry.

R13.4 [RI, abstract execution] mjcf._fuse_bodies is abstractly executed on mock MJCF body trees (braxlint/xmlmock.py: the
      ElementTree API subset the loader uses; numeric attributes are avn.NumStr values that carry the numbers they spell
      through '%f' % x, ' '.join, .split and np.fromstring) with symbolic poses: jointless bodies under the world, under
      a jointed body and nested, each with pos only / quat only / both / neither, holding geoms given by pos+quat, pos or
      fromto, a site and a jointed child body.  Afterwards every geom / site / jointed body hangs directly under its
      nearest jointed ancestor (or the world) with exactly the pose MuJoCo gives it in the original document (from-to
      geoms: both end points), and no jointless body is left.  Unit quaternions by construction: must hold; general
      (non-unit) quaternions: one separate obligation (known finding D8).
R13.2 [RI, law] mjcf._transform_do composes rigid transforms (unit parent quaternion).
R13.3 [paths] every load path (loads, load_mjmodel, fuse_bodies, nested XML assets) fuses before it serialises / compiles.
The older source-shape rules (guard completeness, write-back paths, tag list) are kept as localisation hints only.
"""
import ast

from braxlint import avn, paths, pred
from braxlint.avn import asarr, fn, same
from braxlint.avnlib import B, T, diff_report, new_interp
from braxlint.universe import AnalysisError, call_name, dotted, own_nodes

LEVEL = 'other'
EXPLANATION = (
    'Static rule check on brax/io/mjcf.py: the path condition under which the fused body\'s pose '
    'is composed into each child is normalised (finite-domain predicate normaliser with the pose '
    'arguments kept opaque) and must be false only when both pos and quat are the identity; the '
    'composition helper is proven equal to Transform composition by algebraic value numbering; '
    'def-use provenance of the attributes _offset writes; path rules for re-parenting, removal, '
    'recursion and fuse-before-compile on all load paths.  Holds for every MJCF document, not a '
    'sampled one.')
TRUSTED = ['python ast', 'predicate normaliser', 'AVN normal form', 'xml.etree semantics of append/remove/attrib']
ASSUMPTIONS = ['masses/inertias are recomputed by MuJoCo\'s compiler and not decided here',
               'orientation attributes other than quat (euler, axisangle, ...) are outside the property']

MJ = 'brax.io.mjcf'
IDENT_Q = ('tup', (pred.C(1.0), pred.C(0.0), pred.C(0.0), pred.C(0.0)))


def _find_offset_call(f):
  for n in own_nodes(f.node):
    if isinstance(n, ast.Call) and dotted(n.func) and dotted(n.func)[-1] == '_offset':
      return n
  return None


def r13_1_3(U, rep):
  f = U.func(MJ + '._fuse_bodies')
  call = _find_offset_call(f)
  if call is None:
    # the fusing function may have been renamed: locate by role (called by loads before tostring)
    raise AnalysisError('anchor: no call to _offset in _fuse_bodies')
  if len(call.args) != 3 or not all(isinstance(a, ast.Name) for a in call.args[1:]):
    raise AnalysisError('_offset call is not _offset(elem, <pos name>, <quat name>)')
  pos_n, quat_n = call.args[1].id, call.args[2].id
  rows = {}

  def on_stmt(s, pc, env, N):
    if isinstance(s, ast.Expr) and isinstance(s.value, ast.Call):
      d = dotted(s.value.func)
      if s.value is call:
        rows['offset'] = (list(pc), s)
        rows['offset_subj'] = N.term(call.args[0], env)
      elif d and d[-1] == 'append' and len(d) == 2:
        rows['append'] = (list(pc), s, d[0], pred.show(N.term(s.value.args[0], env)) if s.value.args else '')
      elif d and d[-1] == 'remove' and len(d) == 2:
        rows['remove'] = (list(pc), s, d[0], pred.show(N.term(s.value.args[0], env)) if s.value.args else '')
      elif d and d[-1] == f.node.name:
        rows['recurse'] = (list(pc), s)

  a = f.node.args
  params = [x.arg for x in a.args]
  env = pred.Env(params, f.mod, opaque=(pos_n, quat_n))
  pred.sym_walk(f.node, f.mod, params, env=env, on_stmt=on_stmt, drop_raise_negations=False)
  if 'offset' not in rows:
    raise AnalysisError('_offset call is not a statement of _fuse_bodies')
  pc, stmt = rows['offset']
  cond = pred.mk_and(pc)
  atoms = list(cond[1]) if cond[0] == 'and' else [cond]

  def mentions(t, name):
    if t == ('f', name):
      return True
    if isinstance(t, (tuple, frozenset)):
      return any(mentions(x, name) for x in t)
    return False

  pose_atoms = [x for x in atoms if mentions(x, pos_n) or mentions(x, quat_n)]
  want_pos = ('any', ('notin', ('f', pos_n), frozenset([0])))
  want_quat = ('any', ('ne', frozenset([('f', quat_n), IDENT_Q])))
  ok, why = True, ''
  if pose_atoms:
    if len(pose_atoms) != 1:
      ok, why = False, 'the pose arguments are tested in separate conjuncts (the offset is skipped when only one of them is the identity)'
    else:
      at = pose_atoms[0]
      dis = set(at[1]) if at[0] == 'or' else {at}
      if not (mentions(at, pos_n) and mentions(at, quat_n)):
        missing = quat_n if not mentions(at, quat_n) else pos_n
        ok, why = False, 'the guard ignores `%s`: a fused body whose only non-identity pose component is `%s` is not composed into its children' % (missing, missing)
      elif dis != {want_pos, want_quat}:
        ok, why = False, 'the guard is not `pos != 0 anywhere OR quat != (1,0,0,0) anywhere`'
  rep.check(ok, 'R13.1', '%s|offset guard covers pos and quat' % f.qname, why, where=f.where(stmt),
            construct=' ∧ '.join(sorted(pred.show(x) for x in atoms)),
            expected='(∃[%s ∉ {0}] ∨ ∃[%s != (1,0,0,0)]) or no pose guard' % (pos_n, quat_n),
            found=' ∧ '.join(sorted(pred.show(x) for x in pose_atoms)))
  # R13.3 tags
  subj = rows['offset_subj']
  tag_atoms = [x for x in atoms if x[0] == 'in' and x[1] == ('attr', subj, 'tag')]
  tags = set()
  for x in tag_atoms:
    tags |= set(x[2])
  # the remaining atoms are the "jointless body" conditions shared with the removal
  rep.check(not tag_atoms or {'body', 'geom', 'site'} <= tags, 'R13.3', 'offset tags include body/geom/site',
            'children with tags %s are no longer offset when their parent body is fused' % sorted(
                {'body', 'geom', 'site'} - tags), where=f.where(stmt), construct=str(sorted(tags)))
  # only jointless bodies are fused
  if 'remove' not in rows or 'append' not in rows:
    rep.fail('R13.3', 're-parent and remove', 'the fused body is not removed / its children are not re-parented',
             where=f.where())
    return
  rpc, rstmt, robj, rarg = rows['remove']
  ratoms = pred.atoms_of(rpc)
  child = rarg
  want = {"%s.tag ∈ {'body'}" % child, "%s.find('joint') ∈ {\"('c', None)\"}" % child,
          "%s.find('freejoint') ∈ {\"('c', None)\"}" % child}
  rep.check(set(ratoms) == want, 'R13.3', 'only jointless bodies are fused',
            'a body is fused under the condition {%s}; expected exactly: tag is body, no joint, no freejoint' % '; '.join(sorted(ratoms)),
            where=f.where(rstmt), construct='; '.join(sorted(ratoms)))
  apc, astmt, aobj, aarg = rows['append']
  # append happens for every grandchild of the fused body: its pc equals the removal pc
  rep.check(set(pred.atoms_of(apc)) == set(ratoms) and aobj == robj, 'R13.3', 'every grandchild is re-parented',
            'children of a fused body are re-parented only under {%s}' % '; '.join(sorted(pred.atoms_of(apc))),
            where=f.where(astmt))
  rep.check('recurse' in rows and not pred.atoms_of(rows['recurse'][0]), 'R13.3', 'nested levels are fused recursively',
            '_fuse_bodies no longer recurses unconditionally into every child', where=f.where())


def r13_2(U, rep):
  f = U.func(MJ + '._offset')
  params = [x.arg for x in f.node.args.args]
  if len(params) != 3:
    raise AnalysisError('_offset signature changed')
  stores = {}

  def on_assign(s, pc, env, N):
    tg = s.targets[0] if isinstance(s, ast.Assign) else None
    if isinstance(tg, ast.Subscript) and dotted(tg.value) == [params[0], 'attrib'] and isinstance(tg.slice, ast.Constant):
      stores[tg.slice.value] = (N.term(s.value, env), pred.atoms_of(pc), s)

  pred.sym_walk(f.node, f.mod, params, on_assign=on_assign, drop_raise_negations=False)

  def find_td(t, out):
    if isinstance(t, tuple):
      if t and t[0] == 'sub' and isinstance(t[1], tuple) and t[1] and t[1][0] == 'call' and t[1][1].endswith('_transform_do'):
        out.append((t[1], t[2]))
      for x in t:
        if isinstance(x, (tuple, frozenset)):
          find_td(tuple(x) if isinstance(x, frozenset) else x, out)
    return out

  def attr_src(t, name):
    return "'%s'" % name in pred.show(t)

  for key, comp in (('pos', 0), ('quat', 1)):
    if key not in stores:
      rep.fail('R13.2', '_offset writes ' + key, '_offset no longer writes the `%s` attribute' % key, where=f.where())
      continue
    term, pc, s = stores[key]
    tds = find_td(term, [])
    ok = False
    for c, idx in tds:
      a = c[2]
      if len(a) == 4 and a[0] == ('f', params[1]) and a[1] == ('f', params[2]) and idx == pred.C(comp) \
          and attr_src(a[2], 'pos') and attr_src(a[3], 'quat'):
        ok = True
    # a write may be skipped only when the composed value provably equals the original one
    q_ne = '∃[(1,0,0,0) != %s]' % params[2]
    p_ne = '∃[%s ∉ {0}]' % params[1]
    harmless = {q_ne} if key == 'quat' else {'(%s ∨ %s)' % tuple(sorted([q_ne, p_ne]))}
    extra = [a for a in pc if 'fromto' not in a and a not in harmless]
    rep.check(not extra, 'R13.2', '_offset writes %s on every non-fromto path' % key,
              'the composed `%s` is written back only under the extra condition {%s}: a parent pose changes both the '
              'position and the orientation of its children, so both must always be written' % (key, '; '.join(sorted(extra))),
              where=f.where(s), construct='pc = {%s}' % '; '.join(sorted(pc)))
    rep.check(ok, 'R13.2', '_offset.%s = _transform_do(parent_pos, parent_quat, pos, quat)[%d]' % (key, comp),
              'the `%s` written by _offset is not component %d of _transform_do(parent_pos, parent_quat, elem pos, elem quat)' % (key, comp),
              where=f.where(s), construct=pred.show(term)[:200])
  if 'fromto' not in stores:
    rep.fail('R13.2', '_offset handles fromto', '_offset no longer rewrites `fromto` end points', where=f.where())
  else:
    term, pc, s = stores['fromto']
    tds = [c for c, idx in find_td(term, []) if idx == pred.C(0)]
    srcs = []
    ok = len(tds) >= 2
    for c in tds:
      a = c[2]
      ok = ok and len(a) == 4 and a[0] == ('f', params[1]) and a[1] == ('f', params[2]) and attr_src(a[2], 'fromto')
      srcs.append(pred.show(a[2]))
    ok = ok and len(set(srcs)) >= 2 and any('0:3' in x for x in srcs) and any('3:6' in x for x in srcs)
    rep.check(ok, 'R13.2', '_offset.fromto: both end points through the same parent pose',
              'fromto end points are not both transformed by _transform_do(parent_pos, parent_quat, .)',
              where=f.where(s), construct=pred.show(term)[:200])
    # the fromto variant returns before pos/quat are written
    for key in ('pos', 'quat'):
      if key in stores:
        pcs = stores[key][1]
        rep.check(any('fromto' in x for x in pcs), 'R13.2', 'pos/quat not written on fromto elements (%s)' % key,
                  'pos/quat are also written on fromto elements (MuJoCo rejects fromto with pos/quat)', where=f.where(stores[key][2]))
  # law: mjcf._transform_do composes rigid transforms under MuJoCo's reading of a quat attribute (normalised)
  ok, why = transform_do_law(U)
  rep.check(ok, 'R13.2', '_transform_do == Transform o Transform',
            'mjcf._transform_do is not rigid-transform composition: ' + why,
            where=U.func(MJ + '._transform_do').where())


def transform_do_law(U):
  """mjcf._transform_do(pp, pq, p, q) == (pp + R(pq) p,  a multiple of pq (x) q)  for a UNIT parent quaternion pq (by
  construction) and a general q -- whether or not the implementation normalises pq first.  (What happens for a
  non-unit `quat` attribute is the separate obligation R13.4 / known finding D8.)"""
  from braxlint import avn, refkin
  from braxlint.avn import symarr
  for t in range(60):
    avn.field_mode(770 + t)
    avn.FIELD['sqrt_axiom'] = True
    try:
      I = new_interp(U.repo, contracts=False)
      pp, pq, p, q = symarr('pp', (3,)), refkin.unit_quat('pq'), symarr('cp', (3,)), symarr('cq', (4,))
      got = list(I.apply(fn(MJ, '_transform_do'), [pp, pq, p, q], {}))
      wp, wq = _mj_compose([(pp, pq), (p, q)])
      if not same(got[0], wp):
        return False, 'the composed position is not parent_pos + R(parent_quat / |parent_quat|) pos'
      if not _parallel(list(asarr(got[1])), list(wq)):
        return False, 'the composed orientation is not (a multiple of) parent_quat (x) quat'
      return True, ''
    except avn.NonResidue:
      continue
    finally:
      avn.exact_mode()
  raise AnalysisError('transform_do_law: no random point with all square-root arguments quadratic residues')


def r13_3_paths(U, rep):
  for qn in ('loads', 'load_mjmodel', 'fuse_bodies', '_find_assets'):
    f = U.func(MJ + '.' + qn)
    bad = None
    nsinks = 0
    for p in paths.enumerate_paths(f.node):
      fused = set()
      for c in p.calls():
        d = dotted(c.func) or []
        if d and d[-1] == '_fuse_bodies' and c.args:
          fused.add(ast.unparse(c.args[0]))
        if d and d[-1] in ('tostring',) and c.args:
          nsinks += 1
          if ast.unparse(c.args[0]) not in fused:
            bad = c
    rep.check(bad is None and nsinks > 0, 'R13.3', 'fuse before serialisation in mjcf.%s' % qn,
              'mjcf.%s serialises / compiles an element tree that was not passed through _fuse_bodies' % qn,
              where=f.where(bad) if bad is not None else f.where())


class _Hints:
  """The source-shape rules R13.1 / R13.2 (guard completeness, write-back paths) predate the semantic rule R13.4,
  which decides the same clauses on values by abstractly executing _fuse_bodies.  They are kept as LOCALISATION HINTS
  only: a disagreement of a shape rule is recorded as a note, never as a violation (a refactoring may legitimately
  change the shape of the code)."""

  def __init__(self, rep):
    self.rep = rep

  def ok(self, *a, **k):
    pass

  def fail(self, rule, key, message, where=None, **k):
    self.rep.note('hint %s [%s]: %s' % (rule, key, message() if callable(message) else message))

  def check(self, cond, rule, key, message, where=None, **k):
    if not cond:
      self.fail(rule, key, message, where=where)

  def note(self, m):
    self.rep.note(m)

  def stat(self, k, v):
    self.rep.stat(k, v)


def run(U, rep, tier):
  # R13.5: the fusing helpers are functions of the document at hand: nothing in brax.io.* is memoised (a cached parse whose
  # array is then transformed in place hands the already-offset end points to the next element with the same text)
  n_ = 0
  for q_, f_ in sorted(U.funcs.items()):
    if not f_.mod.name.startswith('brax.io.'):
      continue
    n_ += 1
    for d_ in getattr(f_.node, 'decorator_list', []):
      tgt_ = d_.func if isinstance(d_, ast.Call) else d_
      nm_ = ast.unparse(tgt_)
      if nm_.split('.')[-1] in ('lru_cache', 'cache', 'cached_property', 'memoize'):
        rep.fail('R13.5', 'memo|' + q_, '%s is memoised (`@%s`): fusing would depend on what was parsed / transformed before' % (q_, nm_),
                 where=f_.where(d_), construct=ast.unparse(d_)[:80])
  rep.check(n_ >= 10, 'R13.5', 'the fusing / loading helpers are not memoised', 'only %d functions of brax.io.* seen' % n_,
            construct='%d functions scanned for lru_cache / cache decorators' % n_)
  geometry_preserved(U, rep, tier)
  ok, why = transform_do_law(U)
  rep.check(ok, 'R13.2', '_transform_do == Transform o Transform (unit parent quaternion)',
            'mjcf._transform_do is not rigid-transform composition: ' + why, where=U.func(MJ + '._transform_do').where())
  r13_3_paths(U, rep)
  hints = _Hints(rep)
  try:
    r13_1_3(U, hints)
    r13_2(U, hints)
  except AnalysisError as e:
    rep.note('shape hints unavailable: %s' % e)


# ------------------------------------------------------------------------------------------------ R13.4
def _doc(variant, unit=True, concrete_quats=None, concrete_pos=None):
  """A mock MJCF body tree.  Every numeric attribute is symbolic; quaternions are unit by construction (unit=True) or
  GENERAL (MuJoCo normalises a `quat` attribute, so a legal document may spell any non-zero quaternion)."""
  from braxlint import refkin
  from braxlint.avn import NumStr, symarr
  from braxlint.xmlmock import Elem
  cnt = [0]

  def num(n, tag):
    cnt[0] += 1
    return NumStr(list(symarr('%s%d_' % (tag, cnt[0]), (n,))))

  def pose(kind):
    a = {}
    if kind in ('pos', 'both'):
      if concrete_pos is not None:
        # exact special offsets (components cancelling to 0, a zero component, axis-aligned): shortcuts that test a
        # SUM or a single component instead of the whole vector show here
        from braxlint.avn import Rat
        cnt[0] += 1
        a['pos'] = NumStr([Rat.lift(x) for x in concrete_pos[cnt[0] % len(concrete_pos)]])
      else:
        a['pos'] = num(3, 'p')
    if kind in ('quat', 'both'):
      cnt[0] += 1
      if concrete_quats is not None:
        # exact special orientations (half turns, 3-4-5 rotations): compositions land exactly on w == 0
        from braxlint.avn import Rat
        a['quat'] = NumStr([Rat.lift(x) for x in concrete_quats[cnt[0] % len(concrete_quats)]])
      else:
        a['quat'] = NumStr(list(refkin.unit_quat('uq%d_' % cnt[0]))) if unit else num(4, 'q')
    return a

  def leaves(prefix):
    return [Elem('geom', dict(pose('both'), size=NumStr([1])), name=prefix + 'g_posquat'),
            Elem('geom', dict(pose('pos')), name=prefix + 'g_pos'),
            Elem('geom', {'fromto': num(6, 'ft')}, name=prefix + 'g_fromto'),
            Elem('site', pose('quat'), name=prefix + 's_quat'),
            # children that spell out NO pose at all sit at the jointless body's origin: they move with it like any other
            Elem('geom', {'size': NumStr([1])}, name=prefix + 'g_none'), Elem('site', {}, name=prefix + 's_none'),
            Elem('body', {}, [Elem('joint', {}), Elem('geom', pose('pos'), name=prefix + 'cg0')], name=prefix + 'jointed_none'),
            Elem('body', pose('both'), [Elem('joint', {}), Elem('geom', pose('pos'), name=prefix + 'cg')], name=prefix + 'jointed')]

  k1, k2 = variant
  inner = Elem('body', pose(k2), leaves('in_'), name='J2')
  outer = Elem('body', pose(k1), leaves('out_') + [inner], name='J1')
  # jointless SIBLINGS after `outer`, each omitting what an earlier sibling spelled out (an omitted pos / quat is the
  # identity, never the previous sibling's)
  def small(prefix):
    return [Elem('geom', pose('pos'), name=prefix + 'g_pos'), Elem('geom', {'fromto': num(6, 'ft')}, name=prefix + 'g_fromto'),
            Elem('body', pose('both'), [Elem('joint', {}), Elem('geom', pose('pos'), name=prefix + 'cg')], name=prefix + 'jointed')]
  sibs = [Elem('body', pose('quat'), small('sq_'), name='S1'), Elem('body', pose('pos'), small('sp_'), name='S2'),
          Elem('body', pose('none'), small('sn_'), name='S3')]
  # a <frame> (legal MJCF since MuJoCo 3.1: pure syntax for a local pose) holding a jointless body
  framed = Elem('frame', pose('both'), [Elem('body', pose(k1), small('fr_'), name='F1'), Elem('geom', pose('pos'), name='fr_direct')])
  anchor = Elem('body', pose('both'), [Elem('joint', {}), Elem('geom', pose('pos'), name='anchor_geom'), outer] + sibs + [framed], name='B')
  top = Elem('body', pose(k1), leaves('top_'), name='J0')           # a jointless body directly under the world
  world = Elem('worldbody', {}, [anchor, top])
  return Elem('mujoco', {}, [world])


def _vals(e, key, default):
  from braxlint.avn import NumStr, Rat, asarr, exact
  v = e.attrib.get(key)
  if v is None:
    return asarr([Rat.lift(x) for x in default])
  if isinstance(v, NumStr):
    return asarr(list(v.vals))
  return asarr([Rat.lift(exact(float(t))) for t in str(v).split()])


def _mj_compose(chain):
  """MuJoCo semantics of a chain of (pos, quat) frames: every quat is normalised before use.  Returns
  (pos, quat direction) with R(q/|q|) v = rotate_raw(v, q) / (q.q) -- rational, no square root."""
  from braxlint import refkin
  from braxlint.avn import Rat, asarr
  pos, quat = asarr([Rat.lift(0)] * 3), asarr([Rat.lift(1), Rat.lift(0), Rat.lift(0), Rat.lift(0)])
  for p, q in chain:
    n2 = (quat * quat).sum()
    u = quat[1:]
    rot = 2 * (u * p).sum() * u + (quat[0] * quat[0] - (u * u).sum()) * p + 2 * quat[0] * refkin.cross(u, p)
    pos = pos + rot / n2
    quat = refkin.qmul(quat, q)
  return pos, quat


def _parallel(a, b):
  from braxlint.avn import Rat
  if all(Rat.lift(x).is_zero() for x in a):
    return False              # the zero quaternion is no orientation (MuJoCo rejects it)
  return all(Rat.lift(a[i] * b[j] - a[j] * b[i]).is_zero() for i in range(len(a)) for j in range(i + 1, len(a)))


def geometry_preserved(U, rep, tier, rule='R13.4', nonunit=True):
  """R13.4 [RI]: mjcf._fuse_bodies is abstractly executed on mock documents (symbolic poses, general quaternions)
  and every geom / site / jointed body keeps, relative to its nearest jointed ancestor, exactly the pose MuJoCo gives
  it in the original document (from-to geoms: both end points); the fused jointless bodies are gone."""
  from braxlint import avn
  from braxlint.avn import Rat, asarr, fn
  from braxlint.avnlib import new_interp
  f = U.func('brax.io.mjcf._fuse_bodies')
  kinds = [('both', 'both'), ('quat', 'pos'), ('pos', 'quat'), ('none', 'both')] if tier == 'quick' else [
      (a, b) for a in ('both', 'pos', 'quat', 'none') for b in ('both', 'pos', 'quat', 'none')]
  from fractions import Fraction as _F
  special = [(0, 1, 0, 0), (0, 0, 1, 0), (0, _F(3, 5), _F(4, 5), 0), (1, 0, 0, 0), (0, 0, 0, 1), (_F(3, 5), _F(4, 5), 0, 0), (0, 1, 0, 0)]
  special_pos = [(_F(1, 4), _F(-1, 2), _F(1, 4)), (_F(1, 10), _F(-1, 10), 0), (0, 2, -2), (1, 0, 0), (0, 0, _F(3, 10)), (_F(-1, 5), 0, _F(1, 5))]
  # round numbers, translations only: the composed offsets are exact multiples of 10 / 100 (what a write-back that tidies
  # the spelled numbers -- strips "insignificant" characters, changes the format -- has to survive)
  round_pos = [(10, 0, -20), (0, 0, 0), (5, 5, 10), (5, -5, 10), (100, 0, 0), (-10, 20, 0), (90, -20, 30)]
  runs = [(v, True, None) for v in kinds] + ([(('both', 'both'), False, None)] if nonunit else []) + [(('both', 'both'), True, 'pos')] + [
      (('pos', 'pos'), True, 'pos10')] + [(('quat', 'both'), True, special), (('both', 'quat'), True, special[1:])]
  for variant, unit, cq in runs:
    bad = None
    for t in range(40):
      # symbolic attribute values are generic: a spelled-out pos / quat differs from the default it overrides
      def generic(nm):
        if nm.kind == 'any':
          return 1
        if nm.kind in ('all', 'allclose'):
          return 0
        if nm.kind == 'bool' and len(nm.key) > 1 and nm.key[1] == '==':
          return 0
        return None
      avn.field_mode(1300 + t, decide=generic)
      avn.FIELD['sqrt_axiom'] = True
      try:
        I = new_interp(U.repo)
        root = _doc(variant, unit, None if cq in ('pos', 'pos10') else cq, special_pos if cq == 'pos' else round_pos if cq == 'pos10' else None)
        # reference world-relative poses BEFORE fusing: {leaf name: (anchor name, chain of frames)}
        want = {}

        def walk(e, anchor, chain):
          for c in list(e):
            if c.tag in ('worldbody',):
              walk(c, 'world', [])
            elif c.tag == 'body':
              fr = (_vals(c, 'pos', (0, 0, 0)), _vals(c, 'quat', (1, 0, 0, 0)))
              if c.find('joint') is not None or c.find('freejoint') is not None:
                want[c.attrib['name']] = (anchor, chain + [fr], None)
                walk(c, c.attrib['name'], [])
              else:
                walk(c, anchor, chain + [fr])
            elif c.tag == 'frame':
              # <frame>: pure syntax for a local pose, may hold bodies and geoms
              walk(c, anchor, chain + [(_vals(c, 'pos', (0, 0, 0)), _vals(c, 'quat', (1, 0, 0, 0)))])
            elif c.tag in ('geom', 'site') and 'name' in c.attrib:
              if 'fromto' in c.attrib:
                ft = _vals(c, 'fromto', ())
                want[c.attrib['name']] = (anchor, chain, (ft[0:3], ft[3:6]))
              else:
                want[c.attrib['name']] = (anchor, chain + [(_vals(c, 'pos', (0, 0, 0)), _vals(c, 'quat', (1, 0, 0, 0)))], None)
        walk(root, 'world', [])
        I.apply(fn('brax.io.mjcf', '_fuse_bodies'), [root], {})
        # after fusing: every leaf hangs directly under its anchor with the composed pose
        got = {}

        def walk2(e, anchor, frames=()):
          for c in list(e):
            if c.tag == 'worldbody':
              walk2(c, 'world')
            elif c.tag == 'body':
              jointed = c.find('joint') is not None or c.find('freejoint') is not None
              if jointed:
                got[c.attrib['name']] = (anchor, c, list(frames))
                walk2(c, c.attrib['name'])
              else:
                got['<jointless %s>' % c.attrib.get('name')] = (anchor, c, list(frames))
                walk2(c, anchor, frames)
            elif c.tag == 'frame':
              walk2(c, anchor, tuple(frames) + ((_vals(c, 'pos', (0, 0, 0)), _vals(c, 'quat', (1, 0, 0, 0))),))
            elif c.tag in ('geom', 'site') and 'name' in c.attrib:
              got[c.attrib['name']] = (anchor, c, list(frames))
        walk2(root, 'world')
        left = [k for k in got if k.startswith('<jointless')]
        if left:
          bad = 'jointless bodies remain after fusing: %s' % ', '.join(left)
          break
        for name, (anchor, chain, fromto) in sorted(want.items()):
          if name not in got or got[name][0] != anchor:
            bad = '`%s` is no longer attached to `%s`' % (name, anchor)
            break
          e, frs = got[name][1], got[name][2]
          ident = asarr([Rat.lift(1), Rat.lift(0), Rat.lift(0), Rat.lift(0)])
          if fromto is not None:
            ft = _vals(e, 'fromto', ())
            for k_, pt in enumerate(fromto):
              wp, _ = _mj_compose(chain + [(pt, ident)])
              gp_, _ = _mj_compose(frs + [(ft[3 * k_:3 * k_ + 3], ident)])
              if not avn.same(gp_, wp):
                bad = 'from-to geom `%s`: end point %d moves' % (name, k_)
            if 'pos' in e.attrib or (bad is None and False):
              pass
          else:
            wp, wq = _mj_compose(chain)
            gp, gq = _mj_compose(frs + [(_vals(e, 'pos', (0, 0, 0)), _vals(e, 'quat', (1, 0, 0, 0)))])
            if not avn.same(gp, wp):
              bad = '`%s` (%s) moves: its position relative to `%s` changes' % (name, e.tag, anchor)
            elif not _parallel(gq, wq):
              bad = '`%s` (%s) turns: its orientation relative to `%s` changes' % (name, e.tag, anchor)
          if bad:
            break
        break
      except avn.NonResidue:
        continue
      finally:
        avn.exact_mode()
    else:
      raise AnalysisError(rule + ': no random point with all square-root arguments quadratic residues')
    if not unit:
      rep.check(bad is None, rule, 'non-unit quat attributes are read as MuJoCo reads them (normalised) when poses are composed',
                'a `quat` attribute that is not normalised (legal MJCF: MuJoCo normalises it) scales the offsets of the fused '
                'body\'s children by |q|^2: after mjcf._fuse_bodies %s' % bad, where=f.where(),
                construct='the same mock documents with GENERAL (non-unit) quaternions')
      continue
    if cq == 'pos':
      rep.check(bad is None, rule, 'fusing preserves geometry [exact special offsets: components cancelling to 0, zero components]',
                'after mjcf._fuse_bodies %s (exact special positions such as "0.25 -0.5 0.25", "0.1 -0.1 0")' % bad, where=f.where(),
                construct='pos attributes whose components sum to 0 or vanish singly; quaternions symbolic unit')
      continue
    if cq == 'pos10':
      rep.check(bad is None, rule, 'fusing preserves geometry [round-number offsets: composed positions are exact multiples of 10]',
                'after mjcf._fuse_bodies %s (translations such as "10 0 -20", "100 0 0": the written-back numbers must spell the '
                'composed values)' % bad, where=f.where(), construct='pos-only jointless bodies with round-number offsets')
      continue
    if cq is not None:
      rep.check(bad is None, rule, 'fusing preserves geometry [exact half-turn / 3-4-5 orientations, bodies with %s / nested %s]' % variant,
                'after mjcf._fuse_bodies %s (exact special orientations: compositions with scalar part exactly 0)' % bad, where=f.where(),
                construct='quat attributes such as "0 1 0 0", "0 0.6 0.8 0": products land exactly on w == 0')
      continue
    rep.check(bad is None, rule, 'fusing preserves geometry [jointless bodies with %s / nested %s]' % variant,
              'after mjcf._fuse_bodies %s (poses symbolic, quaternions unit by construction)' % bad,
              where=f.where(), construct='mock document: jointless bodies under the world, under a jointed body and nested; '
              'geoms by pos/quat, pos, fromto; a site; a jointed child body')
