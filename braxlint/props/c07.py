"""C07 -- batching is transparent; batch members are independent (the wrapper layer).

Inside jax.vmap a member cannot see other members, so isolation can only break where vmap is
applied, in code that handles already-batched values (the training wrappers), or through
Python-side state.
R7.1 [AVN, relational] batched == solo: training.wrap(env) (Vmap / DomainRandomization -> Episode ->
     AutoReset) on a batch of three members with independent termination flags gives, member by
     member and over several steps, exactly the normal forms obtained by running the SAME code
     on that member alone (batch of one) -- including per-member randomised systems.
R7.4 [AVN, re-entrancy law] on the un-vmapped stack (Episode -> AutoReset over a bare env whose step shares
     info with its input) stepping twice from the same state object gives the same result: the
     necessary and sufficient condition for eager evaluation to agree with jit on a re-used state.
R7.5 [dataflow] no environment constructor keeps a value computed from the ARRAY fields of its system (the domain
     randomisation wrapper replaces env.unwrapped.sys per member inside the vmap); static metadata may be cached.
R7.2 [AVN] lifting: VmapWrapper.reset / step give member b exactly inner reset(rng[b]) / step(state[b],
     action[b]) -- a semantic statement, indifferent to how the vmap is spelled; the domain randomisation
     wrapper's lifting (per-member system, state, action) is decided by R7.1.
R7.3 [STRUCT] no cross-member channel in mapped code: no collectives / axis names, no `axis=` passed
     to safe_norm / normalize (the parameter is ignored), no global or attribute writes in env
     reset / step (shared with C16 R16.4).
"""
import ast

import numpy as np

from braxlint import avn
from braxlint.avn import ClsRef, P_zeros, Rat, Struct, asarr, fn, load, same, symarr, uf
from braxlint.avnlib import diff_report, new_interp, sym
from braxlint.props import c15, c16
from braxlint.universe import AnalysisError, call_name, dotted, kwarg, own_nodes

LEVEL = 'other'
EXPLANATION = (
    'Static relational check by algebraic value numbering: the wrapper stack built by training.wrap '
    '(with and without domain randomisation) is abstractly interpreted over a scripted symbolic '
    'environment for a batch of three members with independent symbolic termination flags, and '
    'for each member alone; every member\'s reward, done, truncation, counters, observation and '
    'state after reset and after each of several steps are identical normal forms in both runs -- '
    'for every termination schedule at once.  Structural rules fix the vmap lifting sites and '
    'exclude collectives, ignored axis arguments and Python-side state in mapped code.')
TRUSTED = ['python ast', 'AVN normal form', 'jax.vmap = independent elementwise application (XLA semantics)']
ASSUMPTIONS = ['jit-vs-eager agreement: decided as purity (R7.4); round-off differences of XLA fusion are not decided', 'inside jax.vmap members cannot observe each other (JAX semantics)']

TW = 'brax.envs.wrappers.training'


class SysScript(c15.Script):
  """Scripted env whose dynamics depend on a per-member system parameter."""

  def __init__(self, I, sysv):
    c15.Script.__init__(self, I)
    self.e = None
    self.sysv = sysv

  def env(self):
    e = Struct('ScriptEnv', {'sys': self.sysv}, home=None)
    def reset(rng):
      st = c15.Script.reset(self, rng)
      st.f['obs'] = st.f['obs'] + asarr(e.f['sys'].f['mass'])
      return st
    def step(state, action):
      st = c15.Script.step(self, state, action)
      st.f['reward'] = st.f['reward'] + uf('sysdep', asarr(e.f['sys'].f['mass']), asarr(e.f['sys'].f['gravity']))
      return st
    e.f['reset'] = ('prim', 'reset', reset)
    e.f['step'] = ('prim', 'step', step)
    e.f['unwrapped'] = e
    self.e = e
    return e


def run_wrapped(I, S, env, rngs, actions, L, ar, randomization=None, evalw=False):
  kw = {'episode_length': L, 'action_repeat': ar}
  if randomization is not None:
    kw['randomization_fn'] = randomization
  w = I.apply(fn(TW, 'wrap'), [env], kw)
  if evalw:
    # the stack the Evaluator runs: EvalWrapper on top of the training wrappers (round 11: a batch-wide early exit there)
    w = c15.mk(I, 'EvalWrapper', w)
  st = I.apply(I.attr(w, 'reset'), [rngs], {})
  outs = [st]
  for a in actions:
    st = I.apply(I.attr(w, 'step'), [c15.clone(st), a], {})
    outs.append(st)
  return outs


def member_view(st, b):
  return dict(reward=asarr(st.f['reward'])[b], done=asarr(st.f['done'])[b], obs=asarr(st.f['obs'])[b],
              ps=asarr(st.f['pipeline_state'].f['q'])[b], steps=asarr(st.f['info']['steps'])[b],
              trunc=asarr(st.f['info']['truncation'])[b], first_obs=asarr(st.f['info']['first_obs'])[b])


def batched_equals_solo(U, rep, tier):
  f = U.func(TW + '.wrap')
  B = 3
  nsteps = 2 if tier == 'quick' else 4
  for ar, dr, evalw in [(a, d, False) for a in ((1, 2) if tier == 'quick' else (1, 2, 3)) for d in (False, True)] + [(1, False, True)]:
    if True:
      I = new_interp(U.repo)
      L = sym('L')
      rngs = symarr('key', (B, 2))
      actions = [symarr('a%d_' % t, (B, 2)) for t in range(nsteps)]
      masses = symarr('mass', (B,))

      def build(idx):
        """(env, randomization_fn) for the members in idx (batch order)."""
        if not dr:
          return c15.Script(I).env(), None
        sysv = Struct('System', {'mass': masses[idx], 'gravity': sym('g')}, home=None)
        base = Struct('System', {'mass': sym('m0'), 'gravity': sym('g0')}, home=None)      # overridden uniformly by the randomisation
        S = SysScript(I, base)
        env = S.env()
        in_axes = Struct('System', {'mass': 0, 'gravity': None}, home=None)
        rand = ('prim', 'randomize', lambda s: (sysv, in_axes))
        return env, rand

      env, rand = build(np.arange(B))
      batched = run_wrapped(I, None, env, rngs, actions, L, ar, rand, evalw)
      bad = None
      for b in range(B):
        env1, rand1 = build(np.array([b]))
        solo = run_wrapped(I, None, env1, rngs[b:b + 1], [a[b:b + 1] for a in actions], L, ar, rand1, evalw)
        for t, (sb, ss) in enumerate(zip(batched, solo)):
          vb, vs = member_view(sb, b), member_view(ss, 0)
          diff = [k for k in vb if not same(vb[k], vs[k])]
          if diff and bad is None:
            bad = (b, t, diff, diff_report(vb[diff[0]], vs[diff[0]]))
      rep.check(bad is None, 'R7.1', 'wrap(%s, action_repeat=%d): batch of %d == each member alone' % (
          'EvalWrapper over VmapWrapper' if evalw else 'domain randomisation' if dr else 'VmapWrapper', ar, B),
                lambda: 'member %d differs from its solo run after %s in %s: %s' % (
                    bad[0], 'reset' if bad[1] == 0 else 'step %d' % bad[1], bad[2], bad[3]),
                where=f.where(), construct='reset + %d steps, independent symbolic termination flags per member' % nsteps)


SCRIPT_MOD = 'braxlint_script_env'
SCRIPT_SRC = """
class ScriptEnv:
  def __init__(self, sys):
    self.sys = sys

  @property
  def unwrapped(self):
    return self

  def reset(self, rng):
    return script_reset(self.sys, rng)

  def step(self, state, action):
    return script_step(self.sys, state, action)


def script_reset(sys, rng):
  pass


def script_step(sys, state, action):
  pass
"""


def randomised_inner_stack(U, rep, tier):
  """R7.1 for an env that is ALREADY wrapped when it is handed to training.wrap(..., randomization_fn=...): member b of the
  randomised batch equals the SAME wrapper stack over a bare env that carries member b's system, run without
  randomisation.  The bare env is a class instance interpreted like repository code (methods bound to their receiver), so
  copying, re-binding or bypassing wrappers between the randomisation wrapper and the bare env shows."""
  f = U.func(TW + '.DomainRandomizationVmapWrapper.step')
  B = 2
  nsteps = 3 if tier == 'quick' else 5
  I = new_interp(U.repo)
  avn.register_source(SCRIPT_MOD, SCRIPT_SRC)
  S = c15.Script(I)

  def s_reset(sysv, rng):
    st = S.reset(rng)
    st.f['obs'] = st.f['obs'] + asarr(sysv.f['mass'])
    return st

  def s_step(sysv, state, action):
    st = S.step(state, action)
    st.f['reward'] = st.f['reward'] + uf('sysdep', asarr(sysv.f['mass']), asarr(sysv.f['gravity']))
    return st
  I.contracts[(SCRIPT_MOD, 'script_reset')] = s_reset
  I.contracts[(SCRIPT_MOD, 'script_step')] = s_step
  Env = ClsRef(SCRIPT_MOD, load(SCRIPT_MOD)['classes']['ScriptEnv'])
  L, Li = sym('L'), sym('Linner')
  rngs = symarr('key', (B, 2))
  actions = [symarr('a%d_' % t, (B, 2)) for t in range(nsteps)]
  masses = symarr('mass', (B,))
  g = sym('g')

  def stack(sysv):
    bare = I.apply(Env, [sysv], {})
    return c15.mk(I, 'EpisodeWrapper', bare, Li, 2)       # an inner wrapper that changes behaviour (action repeat 2)
  # the randomisation function batches `mass` AND overrides `gravity` uniformly (in_axes None): the base env's own value
  # (g0) must not survive
  base = Struct('System', {'mass': sym('m0'), 'gravity': sym('g0')}, home=None)
  sysv = Struct('System', {'mass': masses, 'gravity': g}, home=None)
  in_axes = Struct('System', {'mass': 0, 'gravity': None}, home=None)
  rand = ('prim', 'randomize', lambda s_: (sysv, in_axes))
  batched = run_wrapped(I, None, stack(base), rngs, actions, L, 1, rand)
  bad = None
  for b in range(B):
    sys_b = Struct('System', {'mass': masses[b], 'gravity': g}, home=None)
    solo = run_wrapped(I, None, stack(sys_b), rngs[b:b + 1], [a[b:b + 1] for a in actions], L, 1, None)
    for t, (sb, ss) in enumerate(zip(batched, solo)):
      vb, vs = member_view(sb, b), member_view(ss, 0)
      diff = [k for k in vb if not same(vb[k], vs[k])]
      if diff and bad is None:
        bad = (b, t, diff, diff_report(vb[diff[0]], vs[diff[0]]))
  rep.check(bad is None, 'R7.1', 'wrap(already wrapped env, domain randomisation): member == the same stack over a bare env with its system',
            lambda: 'member %d of the randomised batch differs, after %s, from the same wrapper stack built on its own system in %s: %s' % (
                bad[0], 'reset' if bad[1] == 0 else 'step %d' % bad[1], bad[2], bad[3]),
            where=f.where(), construct='EpisodeWrapper(bare, L_inner, action_repeat=2) handed to training.wrap(randomization_fn=...); '
            'reference: no randomisation, bare env constructed with the member system')


def reentrant(U, rep, tier):
  """R7.4: jit == eager on a re-used state.  Under jit every call re-traces from the caller's values; eagerly,
  an in-place write to a dict shared with the caller's state survives the call.  The two agree iff stepping
  TWICE from the same state object gives the same result -- decided on the un-vmapped stack
  (envs.create without batch_size: Episode -> AutoReset over the bare env, whose step returns
  state.replace(...) and therefore shares `info` / `metrics` with its input, as every bundled env does)."""
  f = U.func(TW + '.EpisodeWrapper.step')
  for ar in (1, 2, 3) if tier == 'thorough' else (1, 2):
    for stack in ('Episode', 'Episode -> AutoReset'):
      I = new_interp(U.repo)
      S = c15.Script(I)
      w = c15.mk(I, 'EpisodeWrapper', S.env(), sym('L'), ar)
      if 'AutoReset' in stack:
        w = c15.mk(I, 'AutoResetWrapper', w)
      s = I.apply(I.attr(w, 'reset'), [symarr('key', (2,))], {})
      s.f['info']['steps'] = sym('steps0')
      s.f['done'] = c15.batom('done0')
      a = symarr('a', (2,))
      views = []
      for _ in range(2):
        r = I.apply(I.attr(w, 'step'), [s, a], {})
        views.append(dict(steps=r.f['info']['steps'], truncation=r.f['info']['truncation'], done=r.f['done'], obs=r.f['obs'],
                          reward=r.f['reward'], ps=r.f['pipeline_state'].f['q']))
      bad = [k for k in views[0] if not same(views[0][k], views[1][k])]
      rep.check(not bad, 'R7.4', '%s (action_repeat=%d): stepping twice from the same state object gives the same result' % (stack, ar),
                lambda: 'the second step from the same (un-vmapped) state differs in %s: the first call wrote into a dict shared with '
                'its input state, so eager evaluation disagrees with jit on a re-used state' % ', '.join(bad),
                where=f.where(), construct='step(s, a) evaluated twice on one state object; inner env step = state.replace(...) sharing info')


STATIC_SYS_METHODS = ('num_links', 'act_size', 'q_size', 'qd_size', 'dof_link', 'dof_ranges', 'q_idx', 'qd_idx')


def no_cached_system_values(U, rep):
  """R7.5 [dataflow]: the domain-randomisation wrapper gives each batch member its own system by assigning
  env.unwrapped.sys inside the vmap, so an environment may not keep, from construction time, a value computed from
  the ARRAY fields of the system it was built with (timestep, masses, gears, ...): a member would see the base
  system's value.  Static metadata (link names / types / parents, sizes) is the same for every member and may be
  cached.  Decided on the constructors of PipelineEnv and of every registered environment."""
  static = set(avn.static_fields('brax.base', 'System')) | set(STATIC_SYS_METHODS)
  envs = c16.physics_envs(U)
  classes = [('brax.envs.base', 'PipelineEnv')] + sorted(set(envs.values()))
  n = 0
  for modname, cname in classes:
    f = U.funcs.get('%s.%s.__init__' % (modname, cname))
    if f is None:
      continue
    n += 1
    tainted = {}          # local name -> description of the array field it was computed from

    def dep(e):
      """A non-static system field the expression depends on, or None."""
      for x in ast.walk(e):
        if isinstance(x, ast.Attribute):
          d = dotted(x)
          if d and (d[0] == 'sys' and len(d) > 1 and d[1] not in static):
            return '.'.join(d[:3])
          if d and d[:2] == ['self', 'sys'] and len(d) > 2 and d[2] not in static:
            return '.'.join(d[1:4])
        if isinstance(x, ast.Name) and x.id in tainted:
          return tainted[x.id]
      return None

    bad = None
    for st in ast.walk(f.node):
      if not isinstance(st, (ast.Assign, ast.AnnAssign, ast.AugAssign)) or getattr(st, 'value', None) is None:
        continue
      tgts = st.targets if isinstance(st, ast.Assign) else [st.target]
      why = dep(st.value)
      for t in tgts:
        if isinstance(t, ast.Name):
          if why and t.id != 'sys':
            tainted[t.id] = why
        elif isinstance(t, ast.Attribute) and dotted(t) and dotted(t)[0] == 'self' and dotted(t)[1:] != ['sys']:
          if why and bad is None:
            bad = (st, '.'.join(dotted(t)), why)
    rep.check(bad is None, 'R7.5', '%s.__init__ keeps no value computed from the array fields of its system' % cname,
              lambda: '%s caches `%s`, computed from `%s` of the system the environment was built with; under domain randomisation each '
              'member steps with its own system (env.unwrapped.sys is replaced inside the vmap) but would keep this value' % (
                  cname, bad[1], bad[2]), where=f.where(bad[0]) if bad else f.where(),
              construct='constructor dataflow: self.<attr> <- sys.<array field>')
  if n < 8:
    raise AnalysisError('R7.5 found only %d environment constructors' % n)


def lifting_sites(U, rep):
  """R7.2 (semantic, not syntactic): VmapWrapper.reset / step applied to a batch give each member exactly what the
  inner env's reset / step give that member -- however the lifting is spelled (vmap of the bound method, of a
  lambda, in_axes given or defaulted).  The domain-randomisation wrapper's lifting is decided by R7.1."""
  B = 3
  I = new_interp(U.repo)
  S = c15.Script(I)
  env = S.env()
  w = c15.mk(I, 'VmapWrapper', env)
  rngs = symarr('key', (B, 2))
  acts = symarr('a', (B, 2))
  f = U.func(TW + '.VmapWrapper.reset')
  sb = I.apply(I.attr(w, 'reset'), [rngs], {})
  bad = None
  solos = []
  for b in range(B):
    ss = S.reset(rngs[b])
    solos.append(ss)
    if not (same(asarr(sb.f['obs'])[b], ss.f['obs']) and same(asarr(sb.f['pipeline_state'].f['q'])[b], ss.f['pipeline_state'].f['q'])):
      bad = b
  rep.check(bad is None, 'R7.2', 'VmapWrapper.reset: member b of the batch == inner reset(rng[b])',
            'VmapWrapper.reset does not give member %s the inner reset of its own key' % bad, where=f.where(),
            construct='batch of %d symbolic keys' % B)
  f = U.func(TW + '.VmapWrapper.step')
  nb = I.apply(I.attr(w, 'step'), [c15.clone(sb), acts], {})
  bad = None
  for b in range(B):
    ns = S.step(solos[b], acts[b])
    ok = same(asarr(nb.f['obs'])[b], ns.f['obs']) and same(asarr(nb.f['reward'])[b], ns.f['reward']) and \
        same(asarr(nb.f['done'])[b], ns.f['done']) and same(asarr(nb.f['pipeline_state'].f['q'])[b], ns.f['pipeline_state'].f['q'])
    if not ok:
      bad = b
  rep.check(bad is None, 'R7.2', 'VmapWrapper.step: member b of the batch == inner step(state[b], action[b])',
            'VmapWrapper.step does not give member %s the inner step of its own state and action' % bad, where=f.where(),
            construct='batch of %d symbolic states / actions' % B)


TRACE_INTROSPECTION = ('is_concrete', 'concrete_or_error', 'ensure_compile_time_eval', 'get_aval', 'find_top_trace', 'trace_state_clean',
                       'cur_sublevel', 'concrete_aval', 'is_constant_dim', 'eval_context')
COLLECTIVES = ('psum', 'pmean', 'pmax', 'pmin', 'all_gather', 'axis_index', 'ppermute', 'all_to_all')


def no_channels(U, rep):
  envs = c16.physics_envs(U)
  scope = set(U.pipeline_reach())
  for _, (modname, cname) in envs.items():
    scope |= {q for q, f in U.funcs.items() if f.mod.name == modname}
  scope |= {q for q, f in U.funcs.items() if f.mod.name in ('brax.envs.base',)}
  ncoll = naxis = nprng = ntrace = 0
  for q in sorted(scope):
    f = U.funcs[q]
    for n in own_nodes(f.node):
      # the code does not ask HOW it is being evaluated: a value is a tracer under vmap / jit and concrete when the member
      # is evaluated alone, so whatever is decided on that question is decided differently for the batch and for the member
      if isinstance(n, (ast.Attribute, ast.Name)) and not isinstance(getattr(n, 'ctx', None), ast.Store):
        d = dotted(n)
        full = '.'.join(f.mod.alias[d[0]].split('.') + d[1:]) if d and d[0] in f.mod.alias else '.'.join(d or [])
        last = (d or [''])[-1]
        if last.endswith('Tracer') or last in TRACE_INTROSPECTION and (full or '').startswith('jax'):
          ntrace += 1
          rep.fail('R7.3', 'trace|%s|%s' % (q, last), 'mapped code inspects its evaluation mode (`%s`): a member evaluated alone '
                   '(concrete values) and the same member inside vmap / jit (tracers) take different paths' % '.'.join(d),
                   where=f.where(n), construct=ast.unparse(n)[:120])
      if isinstance(n, ast.Call):
        name = call_name(n, f.mod) or ''
        short = name.rsplit('.', 1)[-1]
        if name.startswith('jax.lax.') and short in COLLECTIVES or any(k.arg == 'axis_name' for k in n.keywords):
          ncoll += 1
          rep.fail('R7.3', 'collective|%s|%s' % (q, short), 'cross-member collective `%s` in code that runs under vmap' % name,
                   where=f.where(n), construct=ast.unparse(n)[:120])
        # a PRNG key is consumed with the implementation it came with: only the default (threefry) generator is
        # vmap-invariant -- under `rbg` / `unsafe_rbg` the bits of a batch are generated from member 0's key, so every other
        # member's draw depends on member 0's seed, its own index and the batch size (JAX documents this caveat)
        if name in ('jax.random.wrap_key_data', 'jax.random.key_impl') or (
            name in ('jax.random.key', 'jax.random.PRNGKey') and any(k.arg == 'impl' for k in n.keywords)) or (
                name == 'jax.config.update' and n.args and isinstance(n.args[0], ast.Constant) and 'prng' in str(n.args[0].value)):
          nprng += 1
          rep.fail('R7.3', 'prng|%s|%s' % (q, short), 'the PRNG key is re-wrapped / re-implemented (`%s`) in code that runs under vmap: '
                   'generators other than the default are not vmap-invariant (a member\'s draw would depend on the other members)' % name,
                   where=f.where(n), construct=ast.unparse(n)[:120])
        if short in ('safe_norm', 'normalize') and (name.startswith('brax.math.') or f.mod.name == 'brax.math') and q not in (
            'brax.math.normalize',):
          if any(k.arg == 'axis' for k in n.keywords) or len(n.args) > 1:
            naxis += 1
            rep.fail('R7.3', 'axis|%s|%s' % (q, short), '`axis` is passed to math.%s, which ignores it and reduces over the whole '
                     'argument (all batch members)' % short, where=f.where(n), construct=ast.unparse(n)[:120])
  rep.check(ncoll == 0, 'R7.3', 'no collectives / axis names in mapped code', 'collectives found', construct='%d functions scanned' % len(scope))
  rep.check(naxis == 0, 'R7.3', 'no caller relies on the ignored axis parameter of safe_norm / normalize', 'axis callers found')
  rep.check(nprng == 0, 'R7.3', 'PRNG keys are consumed with the implementation they came with', 'key re-wrapping found')
  rep.check(ntrace == 0, 'R7.3', 'mapped code never asks whether its values are tracers or concrete', 'trace introspection found')
  # the positive example: normalize's own pass-through must still be visible to the scanner
  f = U.func('brax.math.normalize')
  seen = any(isinstance(n, ast.Call) and any(k.arg == 'axis' for k in n.keywords) and (dotted(n.func) or [''])[-1] == 'safe_norm'
             for n in own_nodes(f.node))
  if not seen:
    rep.note('math.normalize no longer forwards axis= to safe_norm (positive example of R7.3 gone)')


def fresh_reset_state(U, rep):
  """R7.6 [dataflow]: the metrics / info dicts a reset hands out are built in reset (= C16 R16.12).  `step` logs with the
  in-place `state.metrics.update(...)`: under jit / vmap that hits a private copy, evaluated eagerly and alone it writes
  into whatever object reset handed out -- if that is an attribute of the env, the member evaluated alone (and every
  later reset) sees the writes of earlier steps while the batched evaluation does not."""
  envs = c16.physics_envs(U)
  R = c16._Relabel(rep, 'R7.6', only=('R16.12',))
  c16.r16_2_3(U, R, envs)
  rep.check(R.failed == 0, 'R7.6', 'reset of every environment builds the metrics / info dicts it hands out',
            '%d environment(s) hand out an attribute of the env' % R.failed, where=U.func('brax.envs.base.PipelineEnv.__init__').where(),
            construct='%d environments' % len(envs))


def run(U, rep, tier):
  fresh_reset_state(U, rep)
  randomised_inner_stack(U, rep, tier)
  no_cached_system_values(U, rep)
  batched_equals_solo(U, rep, tier)
  reentrant(U, rep, tier)
  lifting_sites(U, rep)
  no_channels(U, rep)
