"""C15 -- episode, auto-reset and evaluation wrappers keep exact episode accounting.

[AVN, definition match of the per-step transition] each wrapper's reset/step is abstractly
interpreted from its AST over a scripted symbolic inner environment (observations, rewards,
pipeline states and termination flags are uninterpreted atoms of the previous observation and
the action, so the k-th sub-step provably consumes the (k-1)-th state and the same action) and
compared with the reference transition B.4; termination / time-limit conditions are boolean
atoms, so the comparison covers every termination pattern at once.  That the reference
transition yields the history behaviour is a short induction (specs/c15.md).
[AVN] the composite training.wrap(...) for a batch of two members; [STRUCT] wrapper order;
[AVN/provenance] acting.actor_step / generate_unroll / Evaluator.
"""
import ast

import numpy as np

from braxlint import avn
from braxlint.avn import ClsRef, P_zeros, Poly, Rat, Struct, asarr, atom_key, elemwise, fn, load, same, symarr, uf
from braxlint.avnlib import diff_report, new_interp, sym
from braxlint.universe import AnalysisError, dotted, own_nodes

LEVEL = 'other'
EXPLANATION = (
    'Static equivalence with the stated reference transition: EpisodeWrapper, AutoResetWrapper, '
    'EvalWrapper, VmapWrapper and training.wrap are interpreted from their AST over a scripted '
    'symbolic environment; the normal forms of reward, done, truncation, steps, observation, '
    'pipeline state and evaluation metrics after reset / step equal the reference transition for '
    'symbolic termination flags, symbolic episode_length and action_repeat 1-3 -- i.e. for every '
    'termination pattern -- and acting\'s transitions chain observation to next observation with '
    'linear PRNG-key use.')
TRUSTED = ['python ast', 'AVN normal form', 'lax.scan / where / tree_map primitive semantics',
           'reference transition B.4 (specs/c15.md) transcribed from the property statement']
ASSUMPTIONS = ['the history property follows from the per-step transition by induction (specs/c15.md)',
               'host-side metric aggregation (np.mean / np.std) is reporting only']

TW = 'brax.envs.wrappers.training'
EB = 'brax.envs.base'
AC = 'brax.training.acting'


def batom(tag, *args):
  return Rat(Poly.sym(atom_key('bool', (tag,) + tuple(args), (tag,) + tuple(avn.keyof(a) for a in args))))


PS_FIELDS = ('q', 'qd', 'x', 'xd', 'mass_mx')


def mkps(q):
  """The scripted pipeline state: coordinates (q, qd, x, xd) and one field a backend DERIVES from them (mass_mx), all
  determined by q -- a wrapper that restores only some fields of the first state leaves the others stale."""
  q = asarr(q)
  f = {'q': q}
  for k in PS_FIELDS[1:]:
    f[k] = np.array([uf('ps_' + k, v) for v in q.ravel()], dtype=object).reshape(q.shape)
  f['contact'] = None
  return Struct('PS', f)


def same_ps(got, want_of):
  """got.<field> == want_of(field) for every field of the scripted pipeline state."""
  return all(k in got.f and same(got.f[k], want_of(k)) for k in PS_FIELDS)


class Script:
  """Scripted symbolic environment: everything the inner env returns is an uninterpreted function
  of (previous observation, action)."""

  def __init__(self, I, batch=None):
    self.I = I
    self.batch = batch
    self.State = ClsRef(EB, load(EB)['classes']['State'])

  def reset(self, rng):
    rng = asarr(rng)
    obs = np.array([uf('obs0', rng, i) for i in range(2)], dtype=object)
    ps = mkps(np.array([uf('ps0', rng, i) for i in range(3)], dtype=object))
    # the Env interface does not promise a zero reward or zero metrics at reset (an env may report its initial height, ...)
    return self.I.apply(self.State, [], dict(pipeline_state=ps, obs=obs, reward=uf('rew0', rng), done=Rat.lift(0),
                                             metrics={'m': uf('metric0', rng)}, info={}))

  def step(self, state, action):
    o, a = state.f['obs'], asarr(action)
    obs = np.array([uf('obs', o, a, i) for i in range(2)], dtype=object)
    ps = mkps(np.array([uf('ps', state.f['pipeline_state'].f['q'], a, i) for i in range(3)], dtype=object))
    m = dict(state.f['metrics'])
    m['m'] = uf('metric', o, a)
    return Struct(state.cls, dict(state.f, pipeline_state=ps, obs=obs, reward=uf('rew', o, a), done=batom('term', o, a),
                                  metrics=m), home=state.home)

  def env(self):
    e = Struct('ScriptEnv', {'reset': ('prim', 'reset', self.reset), 'step': ('prim', 'step', self.step)})
    e.f['unwrapped'] = e
    return e


def mk(I, cls, *args):
  return I.apply(ClsRef(TW, load(TW)['classes'][cls]), list(args), {})


def clone(st):
  """A State whose dict fields are copied (wrappers mutate info/metrics in place)."""
  return Struct(st.cls, dict(st.f, info=dict(st.f['info']), metrics=dict(st.f['metrics'])), home=st.home)


def ge(a, b):
  return Rat.lift(a)._cmp('>=', b)


def where(c, x, y):
  return avn.P_where(c, x, y)


def episode_wrapper(U, rep, tier):
  f = U.func(TW + '.EpisodeWrapper.step')
  for ar in (1, 2, 3):
    I = new_interp(U.repo)
    S = Script(I)
    L = sym('L')
    w = mk(I, 'EpisodeWrapper', S.env(), L, ar)
    rng = symarr('key', (2,))
    s0 = I.apply(I.attr(w, 'reset'), [rng], {})
    ok0 = same(s0.f['info']['steps'], 0) and same(s0.f['info']['truncation'], 0) and same(s0.f['done'], 0)
    rep.check(ok0, 'R15.1', 'EpisodeWrapper.reset: steps = truncation = 0 (action_repeat=%d)' % ar,
              'reset does not start the episode with steps = 0 and truncation = 0', where=U.func(TW + '.EpisodeWrapper.reset').where())
    # arbitrary symbolic counter value
    s0.f['info']['steps'] = sym('steps')
    a = symarr('act', (2,))
    ref = clone(s0)
    rew = Rat.lift(0)
    for _ in range(ar):
      ref = S.step(ref, a)
      rew = rew + ref.f['reward']
    steps = sym('steps') + ar
    g = ge(steps, L)
    d = ref.f['done']
    want = dict(reward=rew, done=where(g, 1, d), trunc=where(g, 1 - d, 0), steps=steps, obs=ref.f['obs'],
                ps=ref.f['pipeline_state'].f['q'])
    out = I.apply(I.attr(w, 'step'), [clone(s0), a], {})
    got = dict(reward=out.f['reward'], done=out.f['done'], trunc=out.f['info']['truncation'], steps=out.f['info']['steps'],
               obs=out.f['obs'], ps=out.f['pipeline_state'].f['q'])
    for k in want:
      rep.check(same(got[k], want[k]), 'R15.1', 'EpisodeWrapper.step %s (action_repeat=%d)' % (k, ar),
                lambda k=k: 'EpisodeWrapper.step: `%s` differs from the reference transition: %s' % (k, diff_report(got[k], want[k])),
                where=f.where(), construct={'reward': "sum of the action_repeat sub-step rewards (same action, chained states)",
                                            'done': 'steps+ar >= L ? 1 : done_inner', 'trunc': 'steps+ar >= L ? 1-done_inner : 0',
                                            'steps': 'steps + action_repeat', 'obs': 'last sub-step obs', 'ps': 'last sub-step state'}[k])


def autoreset_wrapper(U, rep, tier):
  f = U.func(TW + '.AutoResetWrapper.step')
  for with_steps in (True, False):
    I = new_interp(U.repo)
    S = Script(I)
    w = mk(I, 'AutoResetWrapper', S.env())
    rng = symarr('key', (2,))
    s0 = I.apply(I.attr(w, 'reset'), [rng], {})
    rep.check(same(s0.f['info']['first_obs'], s0.f['obs']) and same(s0.f['info']['first_pipeline_state'].f['q'], s0.f['pipeline_state'].f['q']),
              'R15.2', 'AutoResetWrapper.reset snapshots the state it returns (steps in info: %s)' % with_steps,
              'reset does not snapshot first_obs / first_pipeline_state from the returned state',
              where=U.func(TW + '.AutoResetWrapper.reset').where())
    # a later state of the episode, previous step flagged done = dprev
    dprev = batom('prevdone')
    cur = clone(s0)
    cur.f['obs'] = symarr('o', (2,))
    cur.f['pipeline_state'] = mkps(symarr('p', (3,)))
    cur.f['done'] = dprev
    if with_steps:
      cur.f['info']['steps'] = sym('steps')
    a = symarr('act', (2,))
    seen = {}
    inner_step = S.step
    def spy(state, action):
      seen['done'] = state.f['done']
      seen['steps'] = state.f['info'].get('steps')
      return inner_step(state, action)
    w.f['env'].f['step'] = ('prim', 'step', spy)
    out = I.apply(I.attr(w, 'step'), [clone(cur), a], {})
    nxt = S.step(cur, a)
    d = nxt.f['done']
    ok = same(seen['done'], 0)
    if with_steps:
      ok = ok and same(seen['steps'], where(dprev, 0, sym('steps')))
    rep.check(ok, 'R15.2', 'AutoResetWrapper.step clears done and restarts the step counter before the inner step (steps in info: %s)' % with_steps,
              'the inner step does not see done = 0 and steps = (done ? 0 : steps)', where=f.where(),
              construct='steps := done ? 0 : steps; done := 0')
    want_obs = where(d, s0.f['obs'], nxt.f['obs'])
    # every field of the pipeline state, the derived ones included (round 11: only the coordinates were restored)
    want_ps = lambda k: where(d, s0.f['pipeline_state'].f[k], nxt.f['pipeline_state'].f[k])
    rep.check(same(out.f['obs'], want_obs) and same_ps(out.f['pipeline_state'], want_ps) and same(out.f['done'], d)
              and same(out.f['reward'], nxt.f['reward']), 'R15.2',
              'AutoResetWrapper.step restores the reset snapshot exactly when done (steps in info: %s)' % with_steps,
              lambda: 'after an episode end the next obs / pipeline state are not the ones from reset: ' + diff_report(out.f['obs'], want_obs),
              where=f.where(), construct='obs, pipeline_state := done\' ? first_* : stepped; reward, done unchanged')


class DictScript(Script):
  """The scripted environment with a DICT observation ({'state': ..., 'aux': ...}): wrappers must treat the observation
  as a pytree (restore / select every leaf)."""

  def _split(self, obs):
    return {'state': obs, 'aux': np.array([uf('aux', obs, i) for i in range(2)], dtype=object)}

  def reset(self, rng):
    st = Script.reset(self, rng)
    st.f['obs'] = self._split(st.f['obs'])
    return st

  def step(self, state, action):
    flat = Struct(state.cls, dict(state.f, obs=state.f['obs']['state']), home=state.home)
    st = Script.step(self, flat, action)
    st.f['obs'] = self._split(st.f['obs'])
    return st


def autoreset_nonfinite(U, rep):
  """R15.2 with a NON-FINITE payload: the restore is a SELECTION.  The member's episode ends (done' = 1, a constant) on a
  step whose observation / pipeline state hold +inf (a range sensor's "no hit", a diverged state that terminated the
  episode): the returned observation and state must be exactly the reset snapshot.  An arithmetic blend done * first +
  (1 - done) * stepped is the same polynomial for finite values but gives 0 * inf = NaN here (IEEE, modelled for literal
  infinities in exact mode)."""
  f = U.func(TW + '.AutoResetWrapper.step')
  I = new_interp(U.repo)
  S = Script(I)
  w = mk(I, 'AutoResetWrapper', S.env())
  s0 = I.apply(I.attr(w, 'reset'), [symarr('key', (2,))], {})
  cur = clone(s0)
  cur.f['obs'] = symarr('o', (2,))
  cur.f['pipeline_state'] = mkps(symarr('p', (3,)))
  cur.f['done'] = Rat.lift(0)
  inf = Rat.lift(float('inf'))

  def ending_step(state, action):
    st = S.step(state, action)
    return Struct(st.cls, dict(st.f, done=Rat.lift(1), obs=np.array([inf, st.f['obs'][1]], dtype=object),
                               pipeline_state=mkps(np.array([st.f['pipeline_state'].f['q'][0], inf, inf], dtype=object))), home=st.home)
  w.f['env'].f['step'] = ('prim', 'step', ending_step)
  out = I.apply(I.attr(w, 'step'), [clone(cur), symarr('act', (2,))], {})
  ok = same(out.f['obs'], s0.f['obs']) and same(out.f['pipeline_state'].f['q'], s0.f['pipeline_state'].f['q'])
  rep.check(ok, 'R15.2', 'AutoResetWrapper.step restores the snapshot by selection (episode ends on a step with +inf in obs / state)',
            lambda: 'after an episode that ended on a non-finite observation / state the next observation is not the one from reset: '
            + diff_report(out.f['obs'], s0.f['obs']), where=f.where(),
            construct="done' = 1 (constant), stepped obs[0] = +inf: where(done', first, stepped) == first; a blend gives 0 * inf = NaN")


def autoreset_dict_obs(U, rep):
  """R15.2 with a dict observation: after an episode end EVERY observation leaf is the one from reset."""
  f = U.func(TW + '.AutoResetWrapper.step')
  I = new_interp(U.repo)
  S = DictScript(I)
  w = mk(I, 'AutoResetWrapper', S.env())
  s0 = I.apply(I.attr(w, 'reset'), [symarr('key', (2,))], {})
  cur = clone(s0)
  cur.f['obs'] = {'state': symarr('o', (2,)), 'aux': symarr('x', (2,))}
  cur.f['pipeline_state'] = mkps(symarr('p', (3,)))
  # the `aux` leaf is an INTEGER array (a tick counter, a discrete observation): restored like any other leaf
  for arr in (s0.f['obs']['aux'], cur.f['obs']['aux'], s0.f['info']['first_obs']['aux']):
    I.dtypes[id(arr)] = ('int', arr)
  cur.f['done'] = batom('prevdone')
  a = symarr('act', (2,))
  out = I.apply(I.attr(w, 'step'), [clone(cur), a], {})
  nxt = S.step(cur, a)
  d = nxt.f['done']
  ok = isinstance(out.f['obs'], dict) and set(out.f['obs']) == {'state', 'aux'} and all(
      same(out.f['obs'][k], where(d, s0.f['obs'][k], nxt.f['obs'][k])) for k in ('state', 'aux'))
  rep.check(ok, 'R15.2', 'AutoResetWrapper.step restores every leaf of a dict observation (one of them integer-typed) exactly when done',
            'with a dict observation, after an episode end some observation leaf is not the one from reset', where=f.where(),
            construct="obs = {'state': ..., 'aux': ...}: obs[k] := done' ? first_obs[k] : stepped[k]")


def eval_wrapper(U, rep, tier):
  f = U.func(TW + '.EvalWrapper.step')
  I = new_interp(U.repo)
  S = Script(I)
  ep = mk(I, 'EpisodeWrapper', S.env(), sym('L'), 1)
  w = mk(I, 'EvalWrapper', ep)
  rng = symarr('key', (2,))
  s0 = I.apply(I.attr(w, 'reset'), [rng], {})
  em = s0.f['info']['eval_metrics']
  ok = same(em.f['active_episodes'], 1) and same(em.f['episode_steps'], 0) and all(same(v, 0) for v in em.f['episode_metrics'].values()) \
      and set(em.f['episode_metrics']) == {'m', 'reward'}
  rep.check(ok, 'R15.3', 'EvalWrapper.reset: metrics 0, active 1, steps 0',
            'evaluation metrics do not start at zero with every episode active', where=U.func(TW + '.EvalWrapper.reset').where())
  cur = clone(s0)
  act_ = batom('active')
  acc = {'m': sym('Mm'), 'reward': sym('Mr')}
  cur.f['info']['eval_metrics'] = Struct('EvalMetrics', {'episode_metrics': dict(acc), 'active_episodes': act_,
                                                         'episode_steps': sym('esteps')}, home=TW)
  cur.f['info']['steps'] = sym('steps')
  a = symarr('act', (2,))
  out = I.apply(I.attr(w, 'step'), [clone(cur), a], {})
  nxt = S.step(cur, a)
  steps1 = sym('steps') + 1
  g = ge(steps1, sym('L'))
  done1 = where(g, 1, nxt.f['done'])
  em1 = out.f['info']['eval_metrics']
  want = {'episode_steps': where(act_, steps1, sym('esteps')), 'active_episodes': act_ * (1 - done1),
          'm': acc['m'] + nxt.f['metrics']['m'] * act_, 'reward': acc['reward'] + nxt.f['reward'] * act_}
  got = {'episode_steps': em1.f['episode_steps'], 'active_episodes': em1.f['active_episodes'],
         'm': em1.f['episode_metrics']['m'], 'reward': em1.f['episode_metrics']['reward']}
  for k in want:
    rep.check(same(got[k], want[k]), 'R15.3', 'EvalWrapper.step ' + k,
              lambda k=k: 'EvalWrapper.step: `%s` differs from the reference (first episode only): %s' % (k, diff_report(got[k], want[k])),
              where=f.where(), construct={'episode_steps': 'active ? steps\' : episode_steps', 'active_episodes': 'active * (1 - done\')',
                                          'm': 'metrics += metrics\' * active', 'reward': "metrics['reward'] = reward; accumulated while active"}[k])


def composite(U, rep, tier):
  """training.wrap: Vmap -> Episode -> AutoReset, batch of two members with independent flags."""
  f = U.func(TW + '.wrap')
  I = new_interp(U.repo)
  S = Script(I)
  L = sym('L')
  for ar in ((1,) if tier == 'quick' else (1, 2, 3)):
    w = I.apply(fn(TW, 'wrap'), [S.env()], {'episode_length': L, 'action_repeat': ar})
    chain = []
    x = w
    while isinstance(x, Struct) and 'env' in x.f:
      chain.append(x.cls)
      x = x.f['env']
    rep.check(chain == ['AutoResetWrapper', 'EpisodeWrapper', 'VmapWrapper'], 'R15.4', 'wrap() order (action_repeat=%d)' % ar,
              'training.wrap builds %s, expected AutoReset(Episode(Vmap(env)))' % chain, where=f.where())
    B = 2
    rng = symarr('key', (B, 2))
    s0 = I.apply(I.attr(w, 'reset'), [rng], {})
    a0 = symarr('a0_', (B, 2))
    s1 = I.apply(I.attr(w, 'step'), [clone(s0), a0], {})
    a1 = symarr('a1_', (B, 2))
    s2 = I.apply(I.attr(w, 'step'), [clone(s1), a1], {})
    # reference, member by member
    for b in range(B):
      r0 = S.reset(rng[b])
      first = r0
      steps, done_prev, cur = Rat.lift(0), Rat.lift(0), r0
      outs = []
      for a in (a0[b], a1[b]):
        steps = where(done_prev, 0, steps)
        ref, rew = cur, Rat.lift(0)
        for _ in range(ar):
          ref = S.step(ref, a)
          rew = rew + ref.f['reward']
        steps = steps + ar
        g = ge(steps, L)
        d = where(g, 1, ref.f['done'])
        tr = where(g, 1 - ref.f['done'], 0)
        obs = where(d, first.f['obs'], ref.f['obs'])
        ps = where(d, first.f['pipeline_state'].f['q'], ref.f['pipeline_state'].f['q'])
        cur = Struct(ref.cls, dict(ref.f, obs=obs, pipeline_state=mkps(ps)), home=ref.home)
        outs.append(dict(reward=rew, done=d, trunc=tr, steps=steps, obs=obs, ps=ps))
        done_prev = d
      for t, (got, want) in enumerate(zip((s1, s2), outs)):
        g_ = dict(reward=got.f['reward'][b], done=got.f['done'][b], trunc=got.f['info']['truncation'][b],
                  steps=got.f['info']['steps'][b], obs=got.f['obs'][b], ps=got.f['pipeline_state'].f['q'][b])
        bad = [k for k in want if not same(g_[k], want[k])]
        rep.check(not bad, 'R15.4', 'wrap(...).step #%d member %d == reference (action_repeat=%d)' % (t + 1, b, ar),
                  lambda bad=bad, g_=g_, want=want: 'wrapped step differs from the reference transition in %s: %s' % (
                      bad, diff_report(g_[bad[0]], want[bad[0]])),
                  where=f.where(), construct='member-wise: reset snapshot, counter restart after done, time limit, reward sum')


def create_order(U, rep):
  """envs.create builds AutoReset(Vmap(Episode(env))) -- read off the OBJECT it returns when create() is interpreted with a
  scripted environment in the registry (not off the shape of its source), for every combination of its switches."""
  f = U.func('brax.envs.create')
  I = new_interp(U.repo)
  S = Script(I)
  base_lookup = I.lookup

  def lookup(name, env, mod):
    # the registry / factory the function consults: any way of obtaining the environment yields the scripted one
    if mod == 'brax.envs' and name == '_envs':
      class Reg(dict):
        def __missing__(self, k):
          return ('prim', 'ctor', lambda **kw: S.env())
      return Reg()
    if mod == 'brax.envs' and name == 'get_environment':
      return ('prim', 'get_environment', lambda *a, **kw: S.env())
    return base_lookup(name, env, mod)
  I.lookup = lookup
  L = sym('L')
  for kw, want in (({'episode_length': L, 'action_repeat': 2, 'auto_reset': True, 'batch_size': 3}, ['AutoResetWrapper', 'VmapWrapper', 'EpisodeWrapper']),
                   ({'episode_length': L, 'action_repeat': 1, 'auto_reset': True, 'batch_size': None}, ['AutoResetWrapper', 'EpisodeWrapper']),
                   ({'episode_length': L, 'action_repeat': 1, 'auto_reset': False, 'batch_size': 3}, ['VmapWrapper', 'EpisodeWrapper']),
                   ({'episode_length': None, 'action_repeat': 1, 'auto_reset': True, 'batch_size': None}, ['AutoResetWrapper'])):
    w = I.apply(fn('brax.envs', 'create'), ['scripted'], kw)
    chain = []
    x = w
    while isinstance(x, Struct) and 'env' in x.f:
      chain.append(x.cls)
      x = x.f['env']
    tag = ', '.join('%s=%s' % (k, 'L' if k == 'episode_length' and v is not None else v) for k, v in sorted(kw.items()))
    rep.check(chain == want, 'R15.4', 'envs.create wrapper order (%s)' % tag,
              'envs.create(%s) builds %s around the environment, expected %s (outermost first)' % (tag, chain, want), where=f.where(),
              construct='the object returned by create() with a scripted environment in the registry')


def acting(U, rep, tier):
  I = new_interp(U.repo)
  S = Script(I)
  f = U.func(AC + '.actor_step')
  ctor = ClsRef('brax.training.types', load('brax.training.types')['classes']['Transition'])
  I.contracts[('brax.training.types', 'Transition')] = None
  def policy(obs, key):
    o, k = asarr(obs), asarr(key)
    return np.array([uf('pi', o, k, i) for i in range(2)], dtype=object), {'k': k}
  env = S.env()
  s0 = S.reset(symarr('key', (2,)))
  s0.f['info']['x'] = sym('extra')
  key = symarr('k', (2,))
  nstate, tr = I.apply(fn(AC, 'actor_step'), [env, clone(s0), ('prim', 'policy', policy), key], {'extra_fields': ('x',)})
  act, _ = policy(s0.f['obs'], key)
  nxt = S.step(s0, act)
  want = dict(observation=s0.f['obs'], action=act, reward=nxt.f['reward'], discount=1 - nxt.f['done'], next_observation=nxt.f['obs'])
  for k, v in want.items():
    rep.check(same(tr.f[k], v), 'R15.5', 'actor_step Transition.%s' % k,
              lambda k=k, v=v: 'Transition.%s is not built from the right value: %s' % (k, diff_report(tr.f[k], v)), where=f.where())
  rep.check(same(nstate.f['obs'], nxt.f['obs']) and tr.f['extras']['state_extras'].keys() == {'x'}, 'R15.5',
            'actor_step returns the stepped state and the requested extras', 'actor_step state/extras wrong', where=f.where())
  # generate_unroll: chained states, linear key use
  fg = U.func(AC + '.generate_unroll')
  T_ = 2 if tier == 'quick' else 4
  final, data = I.apply(fn(AC, 'generate_unroll'), [env, clone(s0), ('prim', 'policy', policy), key, T_], {})
  cur, k = s0, key
  ok = True
  for t in range(T_):
    ks = I.extern('jax.random.split', [k], {})
    a, _ = policy(cur.f['obs'], ks[0])
    nxt = S.step(cur, a)
    ok = ok and same(data.f['observation'][t], cur.f['obs']) and same(data.f['next_observation'][t], nxt.f['obs']) \
        and same(data.f['action'][t], a)
    cur, k = nxt, ks[1]
  rep.check(ok and same(final.f['obs'], cur.f['obs']), 'R15.5', 'generate_unroll chains observation -> next observation with split keys',
            'recorded transitions do not chain (state or PRNG key threading is wrong)', where=fg.where(),
            construct='carry = (nstate, next_key); actor_step consumes current_key')
  # the same chaining THROUGH the training wrappers (Episode + AutoReset, symbolic termination flags and time limit): what
  # is recorded as the successor of step t is what step t+1 observes -- also across an episode end, whether the episode
  # terminated or was cut by the time limit (for every schedule at once: the flags are atoms)
  for ar in ((1,) if tier == 'quick' else (1, 2)):
    I2 = new_interp(U.repo)
    S2 = Script(I2)
    w = mk(I2, 'AutoResetWrapper', mk(I2, 'EpisodeWrapper', S2.env(), sym('L'), ar))
    ws0 = I2.apply(I2.attr(w, 'reset'), [symarr('key', (2,))], {})
    T2 = 3
    final2, data2 = I2.apply(fn(AC, 'generate_unroll'), [w, clone(ws0), ('prim', 'policy', policy), key, T2], {})
    okc = all(same(data2.f['next_observation'][t], data2.f['observation'][t + 1]) for t in range(T2 - 1)) and same(
        data2.f['next_observation'][T2 - 1], final2.f['obs']) and same(data2.f['observation'][0], ws0.f['obs'])
    rep.check(okc, 'R15.5', 'generate_unroll over wrap(Episode, AutoReset), action_repeat=%d: next_observation[t] is observation[t+1]' % ar,
              'through the training wrappers the recorded transitions do not chain: the successor recorded for a step is not the '
              'observation the next step starts from (across an episode end or a time-limit cut)', where=fg.where(),
              construct='symbolic done flags and episode_length: every termination / truncation schedule at once')
  # Evaluator: EvalWrapper, unroll_length = episode_length // action_repeat
  fe = U.func(AC + '.Evaluator.__init__')
  src = fe.node
  has_eval = any(isinstance(n, ast.Call) and dotted(n.func) and dotted(n.func)[-1] == 'EvalWrapper' for n in ast.walk(src))
  ul = None
  for n in ast.walk(src):
    if isinstance(n, ast.Call) and dotted(n.func) and dotted(n.func)[-1] == 'generate_unroll':
      for k_ in n.keywords:
        if k_.arg == 'unroll_length':
          ul = ast.unparse(k_.value)
  rep.check(has_eval and ul == 'episode_length // action_repeat', 'R15.5', 'Evaluator: EvalWrapper + unroll_length = episode_length // action_repeat',
            'Evaluator no longer evaluates exactly one episode_length of steps through EvalWrapper (unroll_length=%s)' % ul, where=fe.where())
  fr = U.func(AC + '.Evaluator.run_evaluation')
  uses = any(isinstance(n, ast.Subscript) and isinstance(n.slice, ast.Constant) and n.slice.value == 'eval_metrics' for n in ast.walk(fr.node))
  rep.check(uses, 'R15.5', 'run_evaluation reads info[eval_metrics] of the final state', 'evaluation metrics are not taken from eval_metrics',
            where=fr.where())


def run(U, rep, tier):
  episode_wrapper(U, rep, tier)
  autoreset_wrapper(U, rep, tier)
  autoreset_dict_obs(U, rep)
  autoreset_nonfinite(U, rep)
  eval_wrapper(U, rep, tier)
  composite(U, rep, tier)
  create_order(U, rep)
  acting(U, rep, tier)
