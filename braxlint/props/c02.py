"""C02 -- generalized-pipeline dynamics terms equal the reference engine.

[AVN, definition match by random interpretation] for symbolic models (rotated bodies, offset
anchors and centres of mass, principal inertias, armature; hinge / slide / free joints, chains,
branches, forests) the generalized pipeline's terms, computed by abstractly interpreting
kinematics.forward -> State.init -> dynamics.transform_com -> mass.matrix / dynamics.inverse /
dynamics.forward / integrator.integrate / pipeline.step from their AST (real scan.py), equal
independent first-principles references (braxlint/refkin.py):
  R2.1 mass matrix  == polarisation of the kinetic energy 1/2 sum m|v_com|^2 + w.I w (+ armature), symmetric;
  R2.2 bias force   == projection of Newton-Euler (velocity-product accelerations, gyroscopic term,
                      -gravity) onto the joint-space Jacobians -- Coriolis + centrifugal + gravity;
  R2.3 passive      == -stiffness*q - damping*qd on non-free dofs; smooth force = passive - bias + tau;
  R2.5 scan         the tree / link-type regrouping the recursions run through is specified for every forest of
                      <= 5 (thorough: 6) links (shared with C01 R1.2).
  R2.4 step         == semi-implicit Euler with implicit joint damping: qdd = (M + dt diag(d))^-1 f,
                      qd' = qd + dt qdd, q' = q + dt qd' (free joints: quaternion integrated with the
                      body-frame angular velocity), when no contact or limit is met; the tau of the step is
                      actuator.to_tau(sys, act, q, qd) of the current state and the given control.
  R2.6 actuation    actuator.to_tau is the reference engine's force law gear * clip(gain * clip(ctrl) +
                      gear * (q bias_q + qd bias_qd)) scattered by qd_id (shared with C11 R11.1).
"""
import os

import numpy as np

from braxlint import avn, refkin, symsys
from braxlint.avn import ClsRef, P_zeros, Rat, Struct, asarr, fn, load, same, symarr, uf
from braxlint.avnlib import new_interp, sym
from braxlint.props.c01 import F, H, S
from braxlint.universe import AnalysisError

LEVEL = 'other'
EXPLANATION = (
    'Static equivalence with independent first-principles references: the generalized pipeline\'s '
    'inertia matrix, bias force, passive / smooth force and one contact-free step are obtained by '
    'abstract interpretation of the AST (kinematics, transform_com, composite-rigid-body and '
    'recursive Newton-Euler with the real scan.py) on symbolic models and compared with the '
    'kinetic-energy mass matrix, the projected Newton-Euler bias force and the semi-implicit Euler '
    'step written from the definitions; equality of the rational functions of all model '
    'parameters, q, qd and controls is decided by random interpretation in GF(2^61-1).')
TRUSTED = ['python ast', 'AVN interpreter', 'reference dynamics in braxlint/refkin.py (kinetic energy, projected '
           'Newton-Euler, semi-implicit Euler)', 'exact linear solve over the field']
ASSUMPTIONS = ['free, single-joint and stacked (mixed hinge / slide, up to 3 per link) links are instantiated on forests of <= 5 links',
               'numeric agreement with the MuJoCo binary is not run; positive definiteness follows from the '
               'kinetic-energy form and is not separately decided']

GB = 'brax.generalized.base'
TOPOLOGIES = [
    ('chain hinge - slide - hinge', [dict(parent=-1, joints=H), dict(parent=0, joints=S), dict(parent=1, joints=H)]),
    ('free root with hinge and slide children', [dict(parent=-1, joints=F), dict(parent=0, joints=H), dict(parent=0, joints=S)]),
    ('forest: slide root, hinge root with slide child', [dict(parent=-1, joints=S), dict(parent=-1, joints=H), dict(parent=1, joints=S)]),
    # the deepest tree of the quantifier: the mass matrix couples the last link with every ancestor up to the root
    ('serial chain of six links (hinge / slide alternating)', [dict(parent=i - 1, joints=(H if i % 2 == 0 else S)) for i in range(6)]),
]
STACKS = [
    ('forest listing a world-attached sprung tree BEFORE a free-floating one', [dict(parent=-1, joints=H), dict(parent=0, joints=S),
                                                                               dict(parent=-1, joints=F), dict(parent=2, joints=H)]),
    ('mixed stacks: hinge-slide root with a slide-hinge child', [dict(parent=-1, joints=H + S), dict(parent=0, joints=S + H)]),
    ('stacks: free root, slide-slide-hinge child, hinge-hinge grandchild',
     [dict(parent=-1, joints=F), dict(parent=0, joints=S + S + H), dict(parent=1, joints=H + H)]),
]
THOROUGH = [
    ('stack hinge-slide-hinge under a hinge root', [dict(parent=-1, joints=H), dict(parent=0, joints=H + S + H)]),
    ('interleaved types and depths', [dict(parent=-1, joints=F), dict(parent=-1, joints=H), dict(parent=0, joints=S),
                                      dict(parent=1, joints=H), dict(parent=2, joints=H)]),
    ('siblings: hinge root with slide and hinge children and a grandchild',
     [dict(parent=-1, joints=H), dict(parent=0, joints=S), dict(parent=0, joints=H), dict(parent=2, joints=S)]),
]


def setup(U, links, reset=True):
  I = new_interp(U.repo, reset=reset)
  M = refkin.Model(links, anchors_zero=False)
  M.add_inertia()
  sysd = M.brax_system()
  sysd.f['link'].f['inertia'] = M.brax_inertia()
  free = [k == 'f' for _, k in M.dofs]
  stiff = np.array([Rat.lift(0) if fr else sym('k%d' % d) for d, fr in enumerate(free)], dtype=object)
  sysd.f['dof'].f.update({'armature': M.armature, 'stiffness': stiff, 'damping': symarr('dmp', (M.nv,)),
                          'invweight': symarr('diw', (M.nv,)), 'solver_params': symarr('sp', (M.nv, 7))})
  sysd.f['gravity'] = symarr('g', (3,))
  sysd.f.update({'matrix_inv_iterations': 0, 'solver_iterations': 1, 'solver_maxls': 1, 'mj_model': None, 'nu': 0})
  sysd.f['actuator'] = Struct('Actuator', {})
  return I, M, sysd


def state_of(I, sysd, M):
  x, xd = I.apply(fn('brax.kinematics', 'forward'), [sysd, M.q, M.qd], {})
  cls = ClsRef(GB, load(GB)['classes']['State'])
  st = I.apply(I.attr(cls, 'init'), [M.q, M.qd, x, xd], {})
  return I.apply(fn('brax.generalized.dynamics', 'transform_com'), [sysd, st], {})


def ref_passive(M, sysd):
  d = sysd.f['dof'].f
  out = []
  for dd, (i, k) in enumerate(M.dofs):
    if k == 'f':
      out.append(-d['damping'][dd] * M.qd[dd])
    else:
      out.append(-M.q[M.q_index[dd]] * d['stiffness'][dd] - d['damping'][dd] * M.qd[dd])
  return np.array(out, dtype=object)


def ref_step(M, sysd, Mx, f_smooth):
  """Semi-implicit Euler with implicit damping; returns (q', qd')."""
  dt = sysd.f['opt'].f['timestep']
  nv = M.nv
  A = Mx.copy()
  for d in range(nv):
    A[d, d] = A[d, d] + sysd.f['dof'].f['damping'][d] * dt
  qdd = avn.linsolve(A, f_smooth)
  qd2 = M.qd + qdd * dt
  q2 = M.q.copy()
  d = 0
  qi = 0
  for i, l in enumerate(M.links):
    if l['joints'] == ('f',):
      pos, rot_ = M.q[qi:qi + 3], M.q[qi + 3:qi + 7]
      v, w = qd2[d:d + 3], qd2[d + 3:d + 6]
      wn = avn.P_norm(w) + Rat.lift(1e-8)
      axis, ang = w / wn, dt * wn
      s_, c_ = uf('sin', ang / 2), uf('cos', ang / 2)
      qrot = np.array([c_] + [a * s_ for a in axis], dtype=object)
      r2 = refkin.qmul(rot_, qrot)
      r2 = r2 / avn.P_norm(r2)
      q2[qi:qi + 3] = pos + v * dt
      q2[qi + 3:qi + 7] = r2
      qi += 7
      d += 6
    else:
      for _ in l['joints']:
        q2[qi] = M.q[qi] + qd2[d] * dt
        qi += 1
        d += 1
  return q2, qd2


def one(U, links, seed, before=None):
  """before: another model evaluated FIRST in the same session (module-level state of the analysed program -- caches keyed
  by less than they depend on -- survives from one model of a process to the next)."""
  avn.field_mode(seed)
  try:
    if before is not None:
      Ib, Mb, sysb = setup(U, before)
      stb = state_of(Ib, sysb, Mb)
      Ib.apply(fn('brax.generalized.mass', 'matrix'), [sysb, stb], {})
      Ib.apply(fn('brax.generalized.dynamics', 'inverse'), [sysb, stb], {})
      Ib.apply(fn('brax.generalized.dynamics', 'forward'), [sysb, stb, symarr('taub', (Mb.nv,))], {})
    I, M, sysd = setup(U, links, reset=before is None)
    st = state_of(I, sysd, M)
    bad = []
    mx = I.apply(fn('brax.generalized.mass', 'matrix'), [sysd, st], {})
    Mref = M.mass_matrix()
    if not same(mx, Mref):
      bad.append('mass matrix')
    if not same(mx, asarr(mx).T):
      bad.append('mass matrix symmetry')
    g = sysd.f['gravity']
    bias = I.apply(fn('brax.generalized.dynamics', 'inverse'), [sysd, st], {})
    bref = M.bias_force(g)
    if not same(bias, bref):
      bad.append('bias force (Coriolis/centrifugal/gravity)')
    tau = symarr('tau', (M.nv,))
    pas = I.apply(fn('brax.generalized.dynamics', '_passive'), [sysd, st], {})
    if not same(pas, ref_passive(M, sysd)):
      bad.append('passive force')
    smooth = I.apply(fn('brax.generalized.dynamics', 'forward'), [sysd, st, tau], {})
    if not same(smooth, ref_passive(M, sysd) - bref + tau):
      bad.append('smooth force = passive - bias + tau')
    # one contact-free, limit-free step of the whole pipeline
    I.contracts[('brax.contact', 'get')] = lambda s, x: None
    seen = []
    I.contracts[('brax.actuator', 'to_tau')] = lambda s, a, q, qd: (seen.append((a, q, qd)), tau)[1]
    cls = ClsRef(GB, load(GB)['classes']['State'])
    st0 = st.f
    st_full = Struct('State', dict(st0, mass_mx=mx, mass_mx_inv=P_zeros((M.nv, M.nv)),
                                   con_jac=P_zeros((0, M.nv)), con_diag=P_zeros((0,)), con_aref=P_zeros((0,))), home=GB)
    u_in = symarr('u', (2,))
    out = I.apply(fn('brax.generalized.pipeline', 'step'), [sysd, st_full, u_in], {})
    if not (len(seen) == 1 and same(seen[0][0], u_in) and same(seen[0][1], st0['q']) and same(seen[0][2], st0['qd'])):
      bad.append('step: tau = actuator.to_tau(sys, act, q, qd) of the CURRENT state and the given control')
    q2, qd2 = ref_step(M, sysd, Mref, ref_passive(M, sysd) - bref + tau)
    if not same(out.f['qd'], qd2):
      bad.append('step: qd\' = qd + dt (M + dt D)^-1 f')
    okq = all(Rat.lift(a).same(b) for a, b in zip(out.f['q'], q2))
    if not okq:
      bad.append('step: q\' = q + dt qd\' (semi-implicit, quaternion for free joints)')
    return bad, I.calls
  finally:
    avn.exact_mode()


def run(U, rep, tier):
  # R2.5: the recursions (composite rigid body, Newton-Euler) run through scan.tree / scan.link_types; their regrouping
  # is specified for EVERY forest of <= 5 (6) links (shared with C01 R1.2) -- the topologies below are instances
  from braxlint.props import c01
  c01.scan_spec(U, rep, tier, rule='R2.5')
  # R2.6: the actuation part of the smooth force is the reference engine's actuator force law (shared with C11 R11.1)
  from braxlint.props import c11
  c11.force_law(U, rep, tier, rule='R2.6')
  # R2.7: the model description the dynamics terms are computed from -- link frames, joint anchors, dof axes, inertias,
  # armature, damping, stiffness, the tree -- is the reference built from the mjModel: load_model abstractly executed on the
  # mock models of loader.py (shared with C14 R14.4; the mass matrix of a model whose free root keeps its XML pose, or whose
  # inertia frame is misplaced, is not the reference engine's, however right the recursions are)
  from braxlint.props import c14
  c14.loader_fields(U, rep, rule='R2.7', prefix=('link.transform', 'link.joint', 'link.inertia', 'dof.motion', 'dof.armature',
                                                 'dof.damping', 'dof.stiffness', 'link_parents', 'link_types', 'gravity'),
                    label='loader:')
  f = U.func('brax.generalized.pipeline.step')
  s0 = int(os.environ.get('VERIF_SEED', '0') or 0)
  seeds = [s0 * 1000 + t for t in range(2 if tier == 'quick' else 5)]
  tops = TOPOLOGIES + STACKS + (THOROUGH if tier == 'thorough' else [])
  calls = 0
  # "for every model" also covers the second model of a process: a star evaluated after a serial chain with the same
  # link-type string (and vice versa)
  chain3 = [dict(parent=-1, joints=H), dict(parent=0, joints=H), dict(parent=1, joints=H)]
  star3 = [dict(parent=-1, joints=H), dict(parent=0, joints=H), dict(parent=0, joints=H)]
  seq = [('a star of three hinges evaluated AFTER a serial chain with the same link types', star3, chain3),
         ('a serial chain of three hinges evaluated AFTER a star with the same link types', chain3, star3)]
  for name, links, before in [t_ + (None,) for t_ in tops] + seq:
    found = {}
    for sd in seeds:
      try:
        b, c = one(U, links, sd, before)
      except IndexError as e:
        b, c = ['bias force (Coriolis/centrifugal/gravity)'], 0      # an out-of-bounds index of the analysed program
      calls += c
      for x in b:
        found.setdefault(x, sd)
    TERMS = ('mass matrix', 'mass matrix symmetry', 'bias force (Coriolis/centrifugal/gravity)', 'passive force',
             'smooth force = passive - bias + tau', "step: qd' = qd + dt (M + dt D)^-1 f",
             "step: q' = q + dt qd' (semi-implicit, quaternion for free joints)",
             'step: tau = actuator.to_tau(sys, act, q, qd) of the CURRENT state and the given control')
    if set(found) - set(TERMS):
      raise AnalysisError('C02: unreported term(s) %r' % sorted(set(found) - set(TERMS)))
    for term, where in (('mass matrix', 'brax.generalized.mass.matrix'), ('mass matrix symmetry', 'brax.generalized.mass.matrix'),
                        ('bias force (Coriolis/centrifugal/gravity)', 'brax.generalized.dynamics.inverse'),
                        ('passive force', 'brax.generalized.dynamics._passive'),
                        ('smooth force = passive - bias + tau', 'brax.generalized.dynamics.forward'),
                        ("step: qd' = qd + dt (M + dt D)^-1 f", 'brax.generalized.integrator.integrate'),
                        ("step: q' = q + dt qd' (semi-implicit, quaternion for free joints)", 'brax.generalized.integrator.integrate'),
                        ('step: tau = actuator.to_tau(sys, act, q, qd) of the CURRENT state and the given control', 'brax.generalized.pipeline.step')):
      rule = {'mass': 'R2.1', 'bias': 'R2.2', 'pass': 'R2.3', 'smoo': 'R2.3', 'step': 'R2.4'}[term[:4]]
      rep.check(term not in found, rule, '%s [%s]' % (term, name),
                lambda term=term: '%s differs from the first-principles reference (random-interpretation trial seed %d)' % (term, found[term]),
                where=U.func(where).where(), construct='%d links, %d dofs, %d GF(p) trials' % (len(links), sum(6 if l['joints'] == F else len(l['joints']) for l in links), len(seeds)))
  rep.stat('interpreter_calls', calls)
