"""C18 -- running observation statistics equal the statistics of all data seen.

[AVN, law against the population definition] starting from init_state, any sequence of
update() calls over a partition of symbolic samples x_1..x_n (optionally with symbolic
weights w_i) yields, as rational functions,
    count = sum w,  mean = sum w x / sum w,  summed_variance = sum w (x - mean)^2
(w = 1 without weights) -- for every instantiated partition and batch-axis layout.
[AVN, definition match] one update from an arbitrary state equals the batched Welford
step B.6 on all four (weights x pmap_axis_name) variants; std = clip(sqrt(max(S,0)/count)).
[AVN, law] denormalize(normalize(x)) = x; non-inexact leaves are returned untouched by both.
"""
import itertools

import numpy as np

from braxlint import avn
from braxlint.avn import P_zeros, Rat, Struct, asarr, elemwise, fn, same, symarr, uf
from braxlint.avnlib import diff_report, new_interp, sym

LEVEL = 'other'
EXPLANATION = (
    'Static equivalence: update/normalize/denormalize are abstractly interpreted from their AST '
    'on symbolic data.  (1) From init_state, sequences of updates over partitions of n symbolic '
    'samples are reduced to rational-function normal forms and compared with the population '
    'mean / summed squared deviation of the concatenation (with symbolic real weights, which '
    'covers integer weights = repetition).  (2) A single update from a symbolic state is compared '
    'with the batched Welford recurrence on the 4 weights x psum variants.  (3) std clipping and '
    'the normalize/denormalize inverse pair and dtype guard.  Equalities hold for all real data.')
TRUSTED = ['python ast', 'braxlint.avn normal form', 'semantics of sum(axis)/reshape/prod/tree_map',
           'psum modelled as an uninterpreted linear atom']
ASSUMPTIONS = ['floating-point cancellation (data scales 1e-3..1e3) is not decided',
               'generalisation from the instantiated partitions (n <= 6, <= 3 batches, 1-2 batch axes) '
               'to all partitions rests on the algebraic pairwise-update identity (specs/c18.md)']

MOD = 'brax.training.acme.running_statistics'


def _state(I, nest_like):
  return I.apply(fn(MOD, 'init_state'), [nest_like], {})


def population(rep, I, U, sizes, feat, weighted, nested, two_axes):
  """Sequential updates over a partition -> population statistics."""
  f = U.func(MOD + '.update')
  tag = 'partition=%s feat=%d%s%s%s' % ('+'.join(map(str, sizes)), feat, ' weighted' if weighted else '',
                                        ' nested' if nested else '', ' 2-axes' if two_axes else '')
  n = sum(sizes)
  X = symarr('x', (n, feat))
  Y = symarr('y', (n, 1))
  W = symarr('w', (n,)) if weighted else None
  mk = (lambda a, b: {'a': a, 'b': (b,)}) if nested else (lambda a, b: a)
  st = _state(I, mk(P_zeros((feat,)), P_zeros((1,))))
  pos = 0
  for k in sizes:
    xb, yb = X[pos:pos + k], Y[pos:pos + k]
    wb = W[pos:pos + k] if weighted else None
    if two_axes and k % 2 == 0:
      xb, yb = xb.reshape((2, k // 2, feat)), yb.reshape((2, k // 2, 1))
      wb = wb.reshape((2, k // 2)) if weighted else None
    st = I.apply(fn(MOD, 'update'), [st, mk(xb, yb)], {'weights': wb} if weighted else {})
    pos += k
  w = W if weighted else np.array([Rat.lift(1)] * n, dtype=object)
  tot = w.sum()
  for name, data, width in (('a', X, feat),) + ((('b', Y, 1),) if nested else ()):
    mean_ref = (data * w[:, None]).sum(axis=0) / tot
    sv_ref = (((data - mean_ref) * (data - mean_ref)) * w[:, None]).sum(axis=0)
    pick = (lambda t: (t[name] if name == 'a' else t[name][0])) if nested else (lambda t: t)
    got_mean, got_sv = pick(st.f['mean']), pick(st.f['summed_variance'])
    for what, got, want in (('mean', got_mean, mean_ref), ('summed_variance', got_sv, sv_ref)):
      key = '%s[%s] %s' % (what, name, tag)
      if same(got, want):
        rep.ok('R18.1', key, construct='update^%d(init) == population %s' % (len(sizes), what), where=f.where())
      else:
        rep.fail('R18.1', key, 'running %s differs from the population %s of all data seen: %s' % (
            what, what, diff_report(got, want)), where=f.where())
  rep.check(same(st.f['count'], tot), 'R18.1', 'count ' + tag, 'count is not the total weight / number of samples: '
            + diff_report(st.f['count'], tot), where=f.where())


def welford(rep, I, U, weighted, pmap, batch_shape=(3,)):
  """One update from a symbolic state against B.6.  With pmap_axis_name the update is run on TWO shards inside a named
  mapped axis (psum = the cross-shard sum, exactly) and every shard must return the Welford step over the data of both
  shards -- a semantic statement, indifferent to where the psum sits."""
  f = U.func(MOD + '.update')
  tag = 'weights=%s pmap=%s batch=%s' % (weighted, pmap, 'x'.join(map(str, batch_shape)))
  feat = 2
  c, mu, S = sym('c'), symarr('mu', (feat,)), symarr('S', (feat,))
  st = Struct('RunningStatisticsState', {'mean': mu, 'std': symarr('sd', (feat,)), 'count': c,
                                         'summed_variance': S}, home=MOD)
  shards = 2 if pmap else 1
  xs = symarr('x', (shards,) + batch_shape + (feat,))
  ws = symarr('w', (shards,) + batch_shape) if weighted else None
  smin, smax = sym('smin'), sym('smax')

  def run(ws_):
    def member(x, *w):
      kw = {'std_min_value': smin, 'std_max_value': smax}
      if weighted:
        kw['weights'] = w[0]
      if pmap:
        kw['pmap_axis_name'] = 'i'
      return I.apply(fn(MOD, 'update'), [st, x], kw)
    if not pmap:
      return [member(xs[0], *([ws_[0]] if weighted else []))]
    out = I.apply(avn.Vmapped(('prim', 'member', member), in_axes=0, axis_name='i'), [xs] + ([ws_] if weighted else []), {})
    return [I.tree_map(('prim', 'pick', lambda v, k=k: asarr(v)[k]), out) for k in range(shards)]

  def reference(ws_):
    nb = int(np.prod(batch_shape)) * shards
    X = xs.reshape((nb, feat))
    Wt = asarr(ws_).reshape((nb,)) if weighted else np.array([Rat.lift(1)] * nb, dtype=object)
    count = c + Wt.sum()
    d_old = (X - mu) * Wt[:, None]
    mean = mu + d_old.sum(axis=0) / count
    S2 = S + (d_old * (X - mean)).sum(axis=0)
    std = elemwise(lambda s_: uf('clip', uf('sqrt', uf('max', *sorted([Rat.lift(s_), Rat.lift(0)], key=lambda r: repr(r.key()))) / count), smin, smax), S2)
    return count, mean, S2, std
  outs = run(ws)
  count, mean, S2, std = reference(ws)
  for k, out in enumerate(outs):
    for what, got, want in (('count', out.f['count'], count), ('mean', out.f['mean'], mean),
                            ('summed_variance', out.f['summed_variance'], S2), ('std', out.f['std'], std)):
      key = '%s %s%s' % (what, tag, ' shard %d' % k if pmap else '')
      if same(got, want):
        rep.ok('R18.2', key, construct='update == batched Welford step (%s)' % what, where=f.where())
      else:
        rep.fail('R18.2', key, 'update.%s differs from the Welford step%s: %s' % (
            what, ' over the data of all shards' if pmap else '', diff_report(got, want)), where=f.where())
  if weighted:
    # a fully masked batch (every weight 0) after data has been seen is a no-op: nothing may divide by the batch's own weight
    wz = P_zeros((shards,) + batch_shape)
    key = 'fully masked batch is a no-op %s' % tag
    try:
      outs0 = run(wz)
      ok = all(same(o.f['count'], c) and same(o.f['mean'], mu) and same(o.f['summed_variance'], S) for o in outs0)
      rep.check(ok, 'R18.2', key, 'a batch whose weights are all 0 changes the running count / mean / summed variance', where=f.where(),
                construct='weights = 0 for the whole batch: count, mean, summed_variance unchanged')
    except avn.OutOfFragment as e:
      if 'division by' not in str(e):
        raise
      rep.fail('R18.2', key, 'a batch whose weights are all 0 makes update divide by zero (%s): the statistics become NaN' % e,
               where=f.where(), construct='weights = 0 for the whole batch')


def norm_pair(rep, I, U):
  fnz, fdn = U.func(MOD + '.normalize'), U.func(MOD + '.denormalize')
  x = symarr('x', (2, 3))
  ints = symarr('k', (2,))
  I.dtypes[id(ints)] = ('int', ints)
  # every non-float kind (signed / unsigned integers, booleans) must pass through both functions untouched
  for kind in ('uint', 'bool'):
    leaf = symarr('leaf_' + kind, (2,))
    I.dtypes[id(leaf)] = (kind, leaf)
    ms1 = Struct('NestedMeanStd', {'mean': P_zeros((2,)), 'std': avn.P_ones((2,))}, home=MOD)
    r1 = I.apply(fn(MOD, 'normalize'), [leaf, ms1], {})
    r2 = I.apply(fn(MOD, 'denormalize'), [leaf, ms1], {})
    rep.check(r1 is leaf and r2 is leaf, 'R18.3', 'normalize / denormalize leave %s leaves untouched' % kind,
              'a leaf of dtype kind %s is modified (or replaced) by %s' % (kind, 'normalize' if r1 is not leaf else 'denormalize'),
              where=fnz.where(), construct='jnp.issubdtype(dtype, jnp.inexact) is false for %s' % kind)
  ms = Struct('NestedMeanStd', {'mean': {'o': symarr('mu', (3,)), 'i': P_zeros((2,))},
                                'std': {'o': symarr('sd', (3,)), 'i': avn.P_ones((2,))}}, home=MOD)
  batch = {'o': x, 'i': ints}
  nz = I.apply(fn(MOD, 'normalize'), [batch, ms], {})
  want = (x - ms.f['mean']['o']) / ms.f['std']['o']
  rep.check(same(nz['o'], want), 'R18.3', 'normalize = (x - mean)/std', 'normalize: ' + diff_report(nz['o'], want),
            where=fnz.where())
  rep.check(nz['i'] is ints, 'R18.3', 'normalize leaves non-float leaves untouched',
            'normalize modified (or replaced) an integer leaf', where=fnz.where())
  I.dtypes[id(nz['i'])] = ('int', nz['i'])
  dn = I.apply(fn(MOD, 'denormalize'), [nz, ms], {})
  rep.check(same(dn['o'], x), 'R18.3', 'denormalize(normalize(x)) = x', 'round trip: ' + diff_report(dn['o'], x),
            where=fdn.where())
  rep.check(dn['i'] is nz['i'], 'R18.3', 'denormalize leaves non-float leaves untouched',
            'denormalize modified (or replaced) an integer leaf', where=fdn.where())
  m = sym('maxabs')
  nz2 = I.apply(fn(MOD, 'normalize'), [x, Struct('NestedMeanStd', {'mean': symarr('mu', (3,)), 'std': symarr('sd', (3,))}, home=MOD)],
                {'max_abs_value': m})
  want2 = elemwise(lambda v: uf('clip', v, -m, m), (x - symarr('mu', (3,))) / symarr('sd', (3,)))
  rep.check(same(nz2, want2), 'R18.3', 'normalize clips to +-max_abs_value', 'clip variant: ' + diff_report(nz2, want2),
            where=fnz.where())
  # the statistics may be handed over as a full running state: whatever its count, normalize uses the mean / std it carries
  run_st = Struct('RunningStatisticsState', {'mean': symarr('mu', (3,)), 'std': symarr('sd', (3,)), 'count': sym('cnt'),
                                             'summed_variance': symarr('sv', (3,))}, home=MOD)
  nz3 = I.apply(fn(MOD, 'normalize'), [x, run_st], {})
  want3 = (x - symarr('mu', (3,))) / symarr('sd', (3,))
  rep.check(same(nz3, want3), 'R18.3', 'normalize with a RunningStatisticsState (symbolic count) = (x - mean)/std',
            lambda: 'normalize with a running state: ' + diff_report(nz3, want3), where=fnz.where())
  dn3 = I.apply(fn(MOD, 'denormalize'), [nz3, run_st], {})
  rep.check(same(dn3, x), 'R18.3', 'denormalize o normalize = id with a RunningStatisticsState',
            lambda: 'round trip with a running state: ' + diff_report(dn3, x), where=fdn.where())
  st = _state(I, {'o': P_zeros((3,))})
  ok = same(st.f['count'], 0) and same(st.f['mean']['o'], P_zeros((3,))) and same(st.f['std']['o'], avn.P_ones((3,))) \
      and same(st.f['summed_variance']['o'], P_zeros((3,)))
  rep.check(ok, 'R18.3', 'init_state = (count 0, mean 0, S 0, std 1)', 'init_state is not the neutral state',
            where=U.func(MOD + '.init_state').where())


def run(U, rep, tier):
  I = new_interp(U.repo)
  if tier == 'quick':
    parts = [((3,), 2, False, False, False), ((2, 3), 2, False, False, False), ((2, 2), 1, True, False, False),
             ((4, 1), 1, False, True, True)]
  else:
    parts = []
    for sizes in [(1,), (2,), (5,), (1, 1), (2, 3), (3, 2), (4, 2), (1, 2, 3), (2, 2, 2), (1, 1, 1, 1)]:
      for weighted in (False, True):
        parts.append((sizes, 1, weighted, False, False))
    parts += [((2, 4), 2, False, True, True), ((4, 2), 1, True, True, True), ((2, 2), 3, True, False, True),
              ((6,), 2, False, False, True), ((3, 3), 2, True, True, False)]
  for sizes, feat, weighted, nested, two_axes in parts:
    population(rep, I, U, sizes, feat, weighted, nested, two_axes)
  shapes = [(3,)] if tier == 'quick' else [(1,), (3,), (2, 2), (2, 3)]
  for weighted in (False, True):
    for pmap in (False, True):
      for bs in shapes:
        welford(rep, I, U, weighted, pmap, bs)
  norm_pair(rep, I, U)
  rep.stat('interpreter_calls', I.calls)
