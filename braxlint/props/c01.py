"""C01 -- forward kinematics matches the reference engine for every model and pose.

[AVN, definition match by random interpretation] kinematics.forward -- with the real scan.py
regrouping, jcalc (stacked-joint accumulation included), anchor handling, link transforms and the
world() recursion -- is abstractly interpreted from its AST on symbolic models of several
topologies and compared with an independent reference implementation of MuJoCo's kinematics
(braxlint/refkin.py: own quaternion algebra, mj_kinematics joint order, textbook velocity
propagation).  Body quaternions, joint axes and half-angle sines/cosines are unit BY CONSTRUCTION
(rational parametrisations), so the comparison is an identity in the model parameters, joint
positions and velocities; it is decided in GF(p) images (no false alarm; a differing formula is
refuted with overwhelming probability).
Positions / orientations: every link, including 2- and 3-joint stacks with non-orthogonal axes and
anchors away from the origin.  Velocities: links attached (with all ancestors) by a free joint or a
single hinge / slide anchored at the link origin -- the claim's domain.
R1.2 [spec] scan.py's regrouping primitives meet their gather / scatter specification for every forest of the bounded universe.
R1.3 [abstract execution] the kinematic description forward() reads (link frames, joint anchors, dof axes, tree) is the
     reference built from the mjModel -- load_model executed on mock models (shared with C14 R14.4).
"""
import os

import numpy as np

from braxlint import avn, refkin
from braxlint.avn import Rat, asarr, fn, same
from braxlint.avnlib import new_interp
from braxlint.universe import AnalysisError

LEVEL = 'other'
EXPLANATION = (
    'Static equivalence with an independent reference implementation: the AST of kinematics.forward '
    '(and scan.py, base.py, math.py beneath it) is abstractly interpreted on symbolic kinematic '
    'forests (world-attached and free roots, chains, branches, 1-3 joint stacks, rotated bodies, '
    'offset anchors) and its link poses and velocities are compared with reference kinematics '
    'written from MuJoCo\'s definition; equality of the two rational functions of all model '
    'parameters, q and qd is decided by random interpretation in GF(2^61-1).')
TRUSTED = ['python ast', 'AVN interpreter and primitive table', 'reference kinematics braxlint/refkin.py '
           '(transcribes mj_kinematics / textbook velocity propagation)', 'math.normalize contract x/|x|']
ASSUMPTIONS = ['numeric agreement with the MuJoCo binary is not run; the reference is its definition',
               'topologies are instantiated (<= 5 links); generalisation rests on scan.py being interpreted as is',
               'velocities of stacked / offset-anchor links are the documented upstream limitation, not claimed']

H, S, F = ('h',), ('s',), ('f',)
TOPOLOGIES = [
    ('chain: hinge root on rotated body - slide - hinge', [dict(parent=-1, joints=H), dict(parent=0, joints=S), dict(parent=1, joints=H)], True),
    ('free root with hinge and slide children', [dict(parent=-1, joints=F), dict(parent=0, joints=H), dict(parent=0, joints=S)], True),
    ('forest: slide root, hinge root, child of second', [dict(parent=-1, joints=S), dict(parent=-1, joints=H), dict(parent=1, joints=S)], True),
    ('offset anchors: hinge chain', [dict(parent=-1, joints=H), dict(parent=0, joints=H)], False),
    ('stacks: slide+hinge root, 3-hinge child (non-orthogonal axes, offset anchors)',
     [dict(parent=-1, joints=('s', 'h')), dict(parent=0, joints=('h', 'h', 'h'))], False),
]
TOPOLOGIES.append(('forest listing world-attached trees BEFORE a free-floating one (q index != qd index for later links)',
                   [dict(parent=-1, joints=H), dict(parent=0, joints=S), dict(parent=-1, joints=F), dict(parent=2, joints=H)], True))
TOPOLOGIES.append(('two free roots, each with a hinge child (whatever is computed once per link-type GROUP sees both roots)',
                   [dict(parent=-1, joints=F), dict(parent=0, joints=H), dict(parent=-1, joints=F), dict(parent=2, joints=H)], True))
TOPOLOGIES.append(('mixed stacks: hinge+slide root, slide+hinge+slide child',
                   [dict(parent=-1, joints=('h', 's')), dict(parent=0, joints=('s', 'h', 's'))], False))
THOROUGH = [
    ('mixed stacks: hinge+slide+hinge under a free root, hinge+hinge+slide child',
     [dict(parent=-1, joints=F), dict(parent=0, joints=('h', 's', 'h')), dict(parent=1, joints=('h', 'h', 's'))], False),
    ('interleaved types and depths', [dict(parent=-1, joints=F), dict(parent=-1, joints=H), dict(parent=0, joints=S),
                                      dict(parent=1, joints=H), dict(parent=2, joints=H)], True),
    ('stacks: slide+slide+hinge, hinge+hinge', [dict(parent=-1, joints=('s', 's', 'h')), dict(parent=0, joints=('h', 'h'))], False),
    ('free root with stacked child', [dict(parent=-1, joints=F), dict(parent=0, joints=('h', 'h'))], False),
    ('siblings listed child-first order', [dict(parent=-1, joints=H), dict(parent=0, joints=S), dict(parent=0, joints=H),
                                           dict(parent=2, joints=S)], True),
]


def eq_upto_sign(a, b):
  return same(a, b) or same(a, -asarr(b))


def one(U, name, links, vel_claim, seed):
  avn.field_mode(seed)
  try:
    I = new_interp(U.repo)
    M = refkin.Model(links, anchors_zero=vel_claim)
    sysd = M.brax_system()
    x, xd = I.apply(fn('brax.kinematics', 'forward'), [sysd, M.q, M.qd], {})
    ref = M.forward()
    bad = []
    for i, (pos, quat, w, v) in enumerate(ref):
      if not same(x.f['pos'][i], pos):
        bad.append('link %d position' % i)
      if not eq_upto_sign(x.f['rot'][i], quat):
        bad.append('link %d orientation' % i)
      if vel_claim:
        if not same(xd.f['ang'][i], w):
          bad.append('link %d angular velocity' % i)
        if not same(xd.f['vel'][i], v):
          bad.append('link %d linear velocity' % i)
    return bad, I.calls
  finally:
    avn.exact_mode()


def run(U, rep, tier):
  # R1.3: the kinematic description forward() reads -- link frames, joint anchors, dof axes, tree -- is the reference
  # built from the mjModel (load_model abstractly executed on mock models; shared with C14 R14.4)
  from braxlint.props import c14
  c14.loader_fields(U, rep, rule='R1.3', prefix=('link.transform', 'link.joint', 'dof.motion', 'link_parents', 'link_types'),
                    label='loader:')
  f = U.func('brax.kinematics.forward')
  s0 = int(os.environ.get('VERIF_SEED', '0') or 0)
  seeds = [s0 * 1000 + t for t in range(2 if tier == 'quick' else 6)]
  tops = TOPOLOGIES + (THOROUGH if tier == 'thorough' else [])
  calls = 0
  for name, links, vel in tops:
    bad = None
    for sd in seeds:
      b, c = one(U, name, links, vel, sd)
      calls += c
      if b:
        bad = (sd, b)
        break
    rep.check(bad is None, 'R1.1', name + (' [pose + velocity]' if vel else ' [pose]'),
              lambda: 'kinematics.forward differs from the reference kinematics in: %s (random-interpretation trial seed %d)' % (
                  ', '.join(bad[1][:4]), bad[0]), where=f.where(),
              construct='forward(sys, q, qd) == mj_kinematics reference, %d links, %d GF(p) trials' % (len(links), len(seeds)))
  rep.stat('interpreter_calls', calls)
  rep.stat('topologies', len(tops))
  scan_spec(U, rep, tier)


# ------------------------------------------------------------------------------------------
# R1.2: scan.tree / scan.link_types regrouping == its specification, for EVERY kinematic forest
def _forests(nmax):
  """All parent arrays with parent[i] in {-1, 0..i-1} (every topologically ordered forest)."""
  import itertools
  for n in range(1, nmax + 1):
    for ps in itertools.product(*[range(-1, i) for i in range(n)]):
      yield ps


def scan_spec(U, rep, tier, rule='R1.2'):
  from braxlint.avn import Struct, symarr, uf
  from braxlint import symsys
  f = U.func('brax.scan.tree')
  I = new_interp(U.repo, contracts=False)
  nmax = 5 if tier == 'quick' else 6
  bad = None
  count = 0
  for ps in _forests(nmax):
    n = len(ps)
    count += 1
    types = ''.join('f' if (p == -1 and i % 2 == 0) else str(1 + (i % 3)) for i, p in enumerate(ps))
    sysd = Struct('System', {'link_types': types, 'link_parents': tuple(ps)}, home='brax.base')
    x = symarr('x', (n,))

    def fwd(carry, xs):
      xs = asarr(xs)
      if carry is None:
        return np.array([uf('f', 'root', v) for v in xs], dtype=object)
      return np.array([uf('f', c, v) for c, v in zip(asarr(carry), xs)], dtype=object)

    got = I.apply(fn('brax.scan', 'tree'), [sysd, ('prim', 'f', fwd), 'l', x], {})
    want = [None] * n
    for i in range(n):
      want[i] = uf('f', 'root', x[i]) if ps[i] < 0 else uf('f', want[ps[i]], x[i])
    if not same(got, np.array(want, dtype=object)):
      bad = ('tree', ps)
      break

    def bwd(carry, xs):
      xs = asarr(xs)
      if carry is None:
        return np.array([uf('g', 0, v) for v in xs], dtype=object)
      return np.array([uf('g', c, v) for c, v in zip(asarr(carry), xs)], dtype=object)

    got = I.apply(fn('brax.scan', 'tree'), [sysd, ('prim', 'g', bwd), 'l', x], {'reverse': True})
    want = [None] * n
    depth = lambda i: 0 if ps[i] < 0 else 1 + depth(ps[i])
    maxd = max(depth(i) for i in range(n))
    for i in sorted(range(n), key=lambda i: -depth(i)):
      kids = [want[c] for c in range(n) if ps[c] == i]
      if depth(i) == maxd:
        want[i] = uf('g', 0, x[i])
      else:
        s_ = Rat.lift(0)
        for k in kids:
          s_ = s_ + k
        want[i] = uf('g', s_, x[i])
    if not same(got, np.array(want, dtype=object)):
      bad = ('tree(reverse)', ps)
      break
    # link_types: per-type application with q / d / l splits restored to system order
    QW = {'f': 7, '1': 1, '2': 2, '3': 3}
    DW = {'f': 6, '1': 1, '2': 2, '3': 3}
    nq, nv = sum(QW[t] for t in types), sum(DW[t] for t in types)
    q, d = symarr('q', (nq,)), symarr('d', (nv,))

    def per_type(typ, qs, ds, ls):
      qs, ds, ls = asarr(qs), asarr(ds), asarr(ls)
      return (np.array([uf('Q', typ, v) for v in qs], dtype=object), np.array([uf('D', typ, v) for v in ds], dtype=object),
              np.array([uf('L', typ, v) for v in ls], dtype=object))

    gq, gd, gl = I.apply(fn('brax.scan', 'link_types'), [sysd, ('prim', 'h', per_type), 'qdl', 'qdl', q, d, x], {})
    wq, wd, wl, qi, di = [], [], [], 0, 0
    for i, t in enumerate(types):
      wq += [uf('Q', t, q[qi + k]) for k in range(QW[t])]
      wd += [uf('D', t, d[di + k]) for k in range(DW[t])]
      wl.append(uf('L', t, x[i]))
      qi += QW[t]
      di += DW[t]
    if not (same(gq, np.array(wq, dtype=object)) and same(gd, np.array(wd, dtype=object)) and same(gl, np.array(wl, dtype=object))):
      bad = ('link_types', ps)
      break
  # the gather helper under both regroupings: _take(x, idxs) == [x[i] for i in idxs] for every index list
  import itertools
  ft = U.func('brax.scan._take')
  tbad = None
  ntake = 0
  xs = symarr('t', (4,))
  for L in range(1, 5):
    for idxs in itertools.product(range(4), repeat=L):
      ntake += 1
      got = I.apply(fn('brax.scan', '_take'), [xs, list(idxs)], {})
      if not same(got, xs[list(idxs)]):
        tbad = idxs
        break
    if tbad:
      break
  rep.check(tbad is None, rule, 'scan._take(x, idxs) gathers x[idxs] for every index list (length <= 4 over 4 entries)',
            lambda: 'scan._take returns the wrong elements for idxs=%r (contiguity shortcut taken for a non-contiguous list)' % (tbad,),
            where=ft.where(), construct='%d index lists, exhaustive' % ntake)
  rep.check(bad is None, rule, 'scan.tree / scan.link_types regroup and restore order for every forest of <= %d links' % nmax,
            lambda: 'scan.%s does not implement its specification on the forest with link_parents=%r: some link receives another '
            'link\'s parent carry / data' % (bad[0], bad[1]), where=f.where(),
            construct='%d parent arrays x (tree, tree reverse, link_types) with uninterpreted per-level functions' % count)
  rep.stat('forests_checked', count)
