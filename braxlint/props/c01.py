"""C01 -- forward kinematics matches the reference engine for every model and pose.

[AVN, definition match by random interpretation] kinematics.forward -- with the real scan.py
regrouping, jcalc (stacked-joint accumulation included), anchor handling, link transforms and the
world() recursion -- is abstractly interpreted from its AST on symbolic models of several
topologies and compared with an independent reference implementation of MuJoCo's kinematics
(braxlint/refkin.py: own quaternion algebra, mj_kinematics joint order, textbook velocity
propagation).  Body quaternions, joint axes and half-angle sines/cosines are unit BY CONSTRUCTION
(rational parametrisations), so the comparison is an identity in the model parameters, joint
positions and velocities; it is decided in GF(p) images (no false alarm; a differing formula is
refuted with overwhelming probability).
Positions / orientations: every link, including 2- and 3-joint stacks with non-orthogonal axes and
anchors away from the origin.  Velocities: links attached (with all ancestors) by a free joint or a
single hinge / slide anchored at the link origin -- the claim's domain.
"""
import os

import numpy as np

from braxlint import avn, refkin
from braxlint.avn import Rat, asarr, fn, same
from braxlint.avnlib import new_interp
from braxlint.universe import AnalysisError

LEVEL = 'other'
EXPLANATION = (
    'Static equivalence with an independent reference implementation: the AST of kinematics.forward '
    '(and scan.py, base.py, math.py beneath it) is abstractly interpreted on symbolic kinematic '
    'forests (world-attached and free roots, chains, branches, 1-3 joint stacks, rotated bodies, '
    'offset anchors) and its link poses and velocities are compared with reference kinematics '
    'written from MuJoCo\'s definition; equality of the two rational functions of all model '
    'parameters, q and qd is decided by random interpretation in GF(2^61-1).')
TRUSTED = ['python ast', 'AVN interpreter and primitive table', 'reference kinematics braxlint/refkin.py '
           '(transcribes mj_kinematics / textbook velocity propagation)', 'math.normalize contract x/|x|']
ASSUMPTIONS = ['numeric agreement with the MuJoCo binary is not run; the reference is its definition',
               'topologies are instantiated (<= 5 links); generalisation rests on scan.py being interpreted as is',
               'velocities of stacked / offset-anchor links are the documented upstream limitation, not claimed']

H, S, F = ('h',), ('s',), ('f',)
TOPOLOGIES = [
    ('chain: hinge root on rotated body - slide - hinge', [dict(parent=-1, joints=H), dict(parent=0, joints=S), dict(parent=1, joints=H)], True),
    ('free root with hinge and slide children', [dict(parent=-1, joints=F), dict(parent=0, joints=H), dict(parent=0, joints=S)], True),
    ('forest: slide root, hinge root, child of second', [dict(parent=-1, joints=S), dict(parent=-1, joints=H), dict(parent=1, joints=S)], True),
    ('offset anchors: hinge chain', [dict(parent=-1, joints=H), dict(parent=0, joints=H)], False),
    ('stacks: slide+hinge root, 3-hinge child (non-orthogonal axes, offset anchors)',
     [dict(parent=-1, joints=('s', 'h')), dict(parent=0, joints=('h', 'h', 'h'))], False),
]
THOROUGH = [
    ('interleaved types and depths', [dict(parent=-1, joints=F), dict(parent=-1, joints=H), dict(parent=0, joints=S),
                                      dict(parent=1, joints=H), dict(parent=2, joints=H)], True),
    ('stacks: slide+slide+hinge, hinge+hinge', [dict(parent=-1, joints=('s', 's', 'h')), dict(parent=0, joints=('h', 'h'))], False),
    ('free root with stacked child', [dict(parent=-1, joints=F), dict(parent=0, joints=('h', 'h'))], False),
    ('siblings listed child-first order', [dict(parent=-1, joints=H), dict(parent=0, joints=S), dict(parent=0, joints=H),
                                           dict(parent=2, joints=S)], True),
]


def eq_upto_sign(a, b):
  return same(a, b) or same(a, -asarr(b))


def one(U, name, links, vel_claim, seed):
  avn.field_mode(seed)
  try:
    I = new_interp(U.repo)
    M = refkin.Model(links, anchors_zero=vel_claim)
    sysd = M.brax_system()
    x, xd = I.apply(fn('brax.kinematics', 'forward'), [sysd, M.q, M.qd], {})
    ref = M.forward()
    bad = []
    for i, (pos, quat, w, v) in enumerate(ref):
      if not same(x.f['pos'][i], pos):
        bad.append('link %d position' % i)
      if not eq_upto_sign(x.f['rot'][i], quat):
        bad.append('link %d orientation' % i)
      if vel_claim:
        if not same(xd.f['ang'][i], w):
          bad.append('link %d angular velocity' % i)
        if not same(xd.f['vel'][i], v):
          bad.append('link %d linear velocity' % i)
    return bad, I.calls
  finally:
    avn.exact_mode()


def run(U, rep, tier):
  f = U.func('brax.kinematics.forward')
  s0 = int(os.environ.get('VERIF_SEED', '0') or 0)
  seeds = [s0 * 1000 + t for t in range(2 if tier == 'quick' else 6)]
  tops = TOPOLOGIES + (THOROUGH if tier == 'thorough' else [])
  calls = 0
  for name, links, vel in tops:
    bad = None
    for sd in seeds:
      b, c = one(U, name, links, vel, sd)
      calls += c
      if b:
        bad = (sd, b)
        break
    rep.check(bad is None, 'R1.1', name + (' [pose + velocity]' if vel else ' [pose]'),
              lambda: 'kinematics.forward differs from the reference kinematics in: %s (random-interpretation trial seed %d)' % (
                  ', '.join(bad[1][:4]), bad[0]), where=f.where(),
              construct='forward(sys, q, qd) == mj_kinematics reference, %d links, %d GF(p) trials' % (len(links), len(seeds)))
  rep.stat('interpreter_calls', calls)
  rep.stat('topologies', len(tops))
