"""C10 -- contact detection reports the true geometry of primitive pairs (the brax part).

The signed distance and normal are computed by mjx.collision (external code, not decided).
Decided: what brax feeds into it and what it attributes back.
R10.1 [AVN law]  local_to_global(p1,q1,p2,q2) = position and 3x3 of Transform(p1,q1) o Transform(p2,q2).
R10.2 [AVN, definition match with mjx opaque] contact.get passes, for every geom g, the pose
      x_ext[geom_bodyid[g]-1] o (geom_pos[g], geom_quat[g]) with x_ext = x ++ identity (index -1 =
      world); link_idx = (geom_bodyid[geom1]-1, geom_bodyid[geom2]-1) in that order; None iff ncon == 0.
R10.3 [AVN] elasticity = (e[geom1] + e[geom2]) / 2; the loader reads elasticity as a per-geom custom.
R10.4 [non-interference, random interpretation] a world contact (link -1) never reads or writes the
      last link (Base.take wraps a bare -1): results of the three contact consumers are independent of
      an uninvolved link's state and leave it untouched.
R10.5 [RI, abstract execution] the geom offsets the loader hands to MuJoCo are the ones the MJCF gives: fusing
      jointless bodies (mjcf._fuse_bodies / _offset) keeps every geom -- pos/quat or from-to -- at its pose
      relative to the nearest jointed ancestor (shared with C13 R13.4; unit quaternions).
"""
import ast

import numpy as np

from braxlint import avn, scenario, symsys
from braxlint.avn import P_zeros, Poly, Rat, Struct, Vmapped, Partial, asarr, fn, nested_fn, same, symarr, uf
from braxlint.avnlib import B, MA, M, T, diff_report, new_interp, sym
from braxlint.universe import dotted, AnalysisError

LEVEL = 'other'
EXPLANATION = (
    'Static equivalence / non-interference: contact.get is abstractly interpreted from its AST with '
    'mjx.make_data / mjx.collision opaque; the geom poses handed to the collision routine and the '
    'link attribution and elasticity it returns equal the reference (link pose composed with the '
    'geom offset, world = -1 via one appended identity transform, mean elasticity) as normal forms '
    'for a scene with world, single-geom and multi-geom bodies.  A random-interpretation dependency '
    'check shows that world contacts (-1) never alias the last link in the three contact consumers.')
TRUSTED = ['python ast', 'AVN normal form', 'mjx.collision (external) computes dist / frame / pos from the geom poses it is given']
ASSUMPTIONS = ['signed distance, normal and contact position are computed by mjx.collision and not decided']

CT = 'brax.contact'


def local_to_global(U, rep):
  I = new_interp(U.repo, contracts=False)
  f = U.func(CT + '.get')
  try:
    l2g = nested_fn(I, CT, 'get', 'local_to_global')
  except AnalysisError:
    # the helper is an implementation detail (it may be renamed, hoisted or inlined); what get() hands to the
    # collision routine is decided semantically by R10.2 either way
    rep.ok('R10.1', 'local_to_global = link pose o geom offset', construct='no nested helper of that name: decided by R10.2 '
           '(geom world poses handed to mjx.collision)', where=f.where())
    return
  x, g = T('x', (2,)), T('g', (2,))
  pos, mat = I.apply(l2g, [x.f['pos'], x.f['rot'], g.f['pos'], g.f['rot']], {})
  comp = I.apply(Partial(Vmapped(fn(B, 'Transform.do')), [x], {}), [g], {})
  mat_ref = np.stack([I.apply(fn(MA, 'quat_to_3x3'), [comp.f['rot'][i]], {}) for i in range(2)])
  rep.check(same(pos, comp.f['pos']) and same(mat, mat_ref), 'R10.1', 'local_to_global = link pose o geom offset',
            lambda: 'geom world pose is not Transform(link) o Transform(geom offset): ' + diff_report(pos, comp.f['pos']),
            where=f.where(), construct='pos1 + rotate(pos2, quat1), quat_to_3x3(quat1 * quat2)')


def get_dataflow(U, rep):
  I = new_interp(U.repo, contracts=False)
  f = U.func(CT + '.get')
  nlink = 2
  bodyid = np.array([0, 1, 2, 2])          # geom -> body (0 = world)
  ngeom = len(bodyid)
  sysd = Struct('System', {'geom_bodyid': bodyid, 'geom_pos': symarr('gp', (ngeom, 3)), 'geom_quat': symarr('gq', (ngeom, 4)),
                           'elasticity': symarr('el', (ngeom,))}, home='brax.base')
  # the host-side MuJoCo model the system was loaded from: a (possibly stale) copy of the geom fields --
  # a System's own fields are the live ones (sys.replace / domain randomisation change them)
  sysd.f['mj_model'] = Struct('MjModel', {'geom_bodyid': bodyid, 'geom_pos': symarr('stale_gp', (ngeom, 3)),
                                          'geom_quat': symarr('stale_gq', (ngeom, 4)), 'ngeom': ngeom})
  x = T('x', (nlink,))
  geom1, geom2 = np.array([0, 1, 3]), np.array([2, 3, 1])
  seen = {}
  def make_data(s):
    return Struct('Data', {'ncon': 3, 'geom_xpos': None, 'geom_xmat': None})
  def collision(s, d):
    seen['xpos'], seen['xmat'] = d.f['geom_xpos'], d.f['geom_xmat']
    c = Struct('MjxContact', {'dist': symarr('cd', (3,)), 'pos': symarr('cp', (3, 3)), 'frame': symarr('cf', (3, 3, 3)),
                              'geom1': geom1, 'geom2': geom2, 'geom': np.stack([geom1, geom2], axis=1),
                              # the remaining mjx.Contact fields, so that a consumer reading them is interpreted
                              'includemargin': symarr('cmg', (3,)), 'friction': symarr('cfr', (3, 5)), 'solref': symarr('csr', (3, 2)),
                              'solreffriction': symarr('csf', (3, 2)), 'solimp': symarr('csi', (3, 5)), 'dim': np.full((3,), 3),
                              'efc_address': np.arange(3) * 4})
    return Struct('Data', dict(d.f, contact=c))
  I.contracts[('mujoco.mjx', 'make_data')] = None
  avn_ext = I.extern
  def extern(name, args, kw):
    if name == 'mujoco.mjx.make_data':
      return make_data(*args)
    if name == 'mujoco.mjx.collision':
      return collision(*args)
    return avn_ext(name, args, kw)
  I.extern = extern
  c = I.apply(fn(CT, 'get'), [sysd, x], {})
  do = lambda a, b: I.apply(fn(B, 'Transform.do'), [a, b], {})
  ident = Struct('Transform', {'pos': P_zeros((3,)), 'rot': asarr([1, 0, 0, 0])}, home='brax.base')
  ok_pose = 'xpos' in seen
  for g in range(ngeom):
    if not ok_pose:
      break
    b = bodyid[g] - 1
    link = ident if b < 0 else Struct('Transform', {'pos': x.f['pos'][b], 'rot': x.f['rot'][b]}, home='brax.base')
    w = do(link, Struct('Transform', {'pos': sysd.f['geom_pos'][g], 'rot': sysd.f['geom_quat'][g]}, home='brax.base'))
    mat = I.apply(fn(MA, 'quat_to_3x3'), [w.f['rot']], {})
    ok_pose = ok_pose and same(seen['xpos'][g], w.f['pos']) and same(seen['xmat'][g], mat)
  rep.check(ok_pose, 'R10.2', 'geom world poses handed to mjx.collision',
            'a geom\'s world pose is not its owning link\'s pose (world = identity) composed with the system\'s own '
            '(live) geom offset sys.geom_pos / sys.geom_quat',
            where=f.where(), construct='x_ext = x ++ identity; pose[g] = x_ext[geom_bodyid[g]-1] o (geom_pos[g], geom_quat[g])')
  li = c.f.get('link_idx') if isinstance(c, Struct) else None
  ok_li = isinstance(li, tuple) and len(li) == 2 and list(avn.toint(asarr(li[0]))) == list(bodyid[geom1] - 1) and \
      list(avn.toint(asarr(li[1]))) == list(bodyid[geom2] - 1)
  rep.check(ok_li, 'R10.2', 'link_idx = (geom_bodyid[geom1]-1, geom_bodyid[geom2]-1)',
            'contacts are not attributed to the links owning geom1 / geom2 in that order (world = -1)', where=f.where())
  el = sysd.f['elasticity']
  want = (el[geom1] + el[geom2]) * Rat.lift(0.5)
  rep.check(isinstance(c, Struct) and same(c.f['elasticity'], want), 'R10.3', 'elasticity = mean of the two geoms',
            lambda: 'contact elasticity is not (e[geom1] + e[geom2]) / 2: ' + diff_report(c.f['elasticity'], want), where=f.where())
  rep.check(isinstance(c, Struct) and same(c.f['dist'], symarr('cd', (3,))) and same(c.f['frame'], symarr('cf', (3, 3, 3))), 'R10.2',
            'dist / frame / pos of mjx.collision are passed through unchanged', 'collision outputs are altered', where=f.where())
  # None iff ncon == 0
  I2 = new_interp(U.repo, contracts=False)
  def extern2(name, args, kw):
    if name == 'mujoco.mjx.make_data':
      return Struct('Data', {'ncon': 0})
    return avn_ext(name, args, kw)
  I2.extern = extern2
  rep.check(I2.apply(fn(CT, 'get'), [sysd, x], {}) is None, 'R10.2', 'get returns None iff the model has no contact pairs',
            'contact.get does not return None for ncon == 0', where=f.where())
  # loader: the per-model custom parameters, decided on values -- mjcf._get_custom is abstractly executed on mock
  # models (numeric and tuple <custom> elements; sizes and ids concrete, values symbolic) and compared with the
  # reference: geom-typed customs (elasticity) have ngeom entries in geom order, body-typed ones nbody entries with one
  # leading entry for the world body, single values are broadcast, tuples set the listed objects only
  from braxlint import loader
  fc = U.func('brax.io.mjcf._get_custom')
  res = loader.compare_custom(U.repo)
  if len(res) < 30:
    raise AnalysisError('R10.3: only %d custom-parameter comparisons' % len(res))
  by = {}
  for mock_name, key, ok in res:
    by.setdefault(key, []).append((mock_name, ok))
  for key in sorted(by):
    bad = [m for m, ok in by[key] if not ok]
    rule = 'R10.3'
    rep.check(not bad, rule, 'loader: custom parameter `%s`' % key,
              'mjcf._get_custom does not return the reference value of `%s` (mock model: %s)%s' % (
                  key, bad[0] if bad else '', '; per-geom values must have exactly ngeom entries in geom order' if key == 'elasticity' else ''),
              where=fc.where(), construct='%d mock models: numeric / tuple custom elements, sizes and ids concrete, values symbolic' % len(by[key]))


def no_alias(U, rep, tier, rule='R10.4', key='%s: world contact (-1) does not alias the last link',
             message='a contact with the world reads or moves an uninvolved link (index -1 wraps to the last link)'):
  """R10.4: a world contact must not touch the last link."""
  seeds = range(2 if tier == 'quick' else 6)
  cases = [('spring.collisions.resolve', 'brax.spring.collisions', 'resolve'),
           ('positional.resolve_position', 'brax.positional.collisions', 'resolve_position'),
           ('positional.resolve_velocity', 'brax.positional.collisions', 'resolve_velocity')]
  for name, mod, fname in cases:
    f = U.func('%s.%s' % (mod, fname))
    bad = None
    for sd in seeds:
      avn.field_mode(sd, bool_default=1)     # every gate open: the contact is active
      try:
        outs = []
        for variant in (0, 1):
          I = new_interp(U.repo)
          c = symsys.contact(([-1], [0]))
          sysd = symsys.system('11', (-1, -1))
          st = symsys.state_maxcoord(2)
          if variant:
            # a different, uninvolved link 1 (state and model parameters)
            for fld, mk in (('x', T), ('x_i', T), ('xd_i', M), ('xd', M)):
              alt = mk('alt' + fld, (2,))
              for k in st.f[fld].f:
                st.f[fld].f[k] = np.stack([st.f[fld].f[k][0], alt.f[k][1]])
            st.f['i_inv'] = np.stack([st.f['i_inv'][0], symarr('altI', (3, 3))])
            st.f['mass'] = np.array([st.f['mass'][0], sym('altm')], dtype=object)
            m_ = sysd.f['link'].f['inertia'].f['mass']
            sysd.f['link'].f['inertia'].f['mass'] = np.array([m_[0], sym('altm2')], dtype=object)
          I.contracts[('brax.contact', 'get')] = lambda s, x, c=c: c
          I.contracts[('brax.com', 'inv_inertia')] = lambda s, x, st=st: st.f['i_inv']
          if fname == 'resolve':
            out = I.apply(fn(mod, fname), [sysd, st], {})
            res = (out.f['vel'], out.f['ang'])
            zero1 = all(Rat.lift(v).is_zero() for a in res for v in asarr(a)[1].ravel())
          elif fname == 'resolve_position':
            xprev = T('xp', (2,))
            out, lam = I.apply(fn(mod, fname), [sysd, st, xprev, c], {})
            res = (out.f['pos'], lam)
            zero1 = same(out.f['pos'][1], st.f['x_i'].f['pos'][1])
          else:
            out = I.apply(fn(mod, fname), [sysd, st, M('xdp', (2,)), c, symarr('dl', (1,))], {})
            res = (out.f['vel'], out.f['ang'])
            zero1 = all(Rat.lift(v).is_zero() for a in res for v in asarr(a)[1].ravel())
          outs.append(([asarr(a)[0] for a in res[:1]] + ([res[1]] if fname == 'resolve_position' else [asarr(res[1])[0]]), zero1))
        if not (same(outs[0][0], outs[1][0]) and outs[0][1] and outs[1][1]):
          bad = sd
          break
      finally:
        avn.exact_mode()
    rep.check(bad is None, rule, key % name,
              message + (
                  '' if bad is None else ' (random-interpretation trial seed %d)' % bad), where=f.where(),
              construct='result for link 0 independent of link 1; link 1 untouched')


def world_matrix_law(U, rep):
  """R10.8 [AVN exact, law]: "links at any world pose": the world matrix of a geom is quat_to_3x3 of the composed
  quaternion, and it IS the rotation -- quat_to_3x3(q) v |q|^2 = rotate(v, q) -- for a generic quaternion and for the exact
  half turns w = 0 (a legal unit orientation: a guard that tests w instead of |q|^2 turns them into the identity)."""
  f = U.func(MA + '.quat_to_3x3')
  v = symarr('v', (3,))
  for name, q in (('generic q', symarr('aq', (4,))), ('half turn: w = 0 exactly', np.array([Rat.lift(0)] + list(symarr('hq', (3,))), dtype=object)),
                  ('half turn about one axis: q = (0, 0, y, 0)', np.array([Rat.lift(0), Rat.lift(0), sym('hy'), Rat.lift(0)], dtype=object))):
    I = new_interp(U.repo)
    I.generic_branches = True
    Rm = I.apply(fn(MA, 'quat_to_3x3'), [q], {})
    lhs = np.dot(asarr(Rm), v) * np.dot(q, q)
    rhs = I.apply(fn(MA, 'rotate'), [v, q], {})
    rep.check(same(lhs, rhs), 'R10.8', 'quat_to_3x3(q) v |q|^2 == rotate(v, q) [%s]' % name,
              lambda: 'the world matrix of a geom is not the rotation of its quaternion: ' + diff_report(lhs, rhs), where=f.where(),
              construct='contact.get: geom_mat = quat_to_3x3(link rot * geom quat)')


def run(U, rep, tier):
  world_matrix_law(U, rep)
  local_to_global(U, rep)
  get_dataflow(U, rep)
  no_alias(U, rep, tier)
  from braxlint.props import c13
  c13.geometry_preserved(U, rep, tier, rule='R10.5', nonunit=False)
  # R10.6: ... on every load path: what is serialised / compiled (included files too) went through _fuse_bodies -- else a
  # jointless body survives and geom_bodyid - 1 no longer names the owning link (shared with C13 R13.3)
  from braxlint.props.c16 import _Relabel
  c13.r13_3_paths(U, _Relabel(rep, 'R10.6'))
  # R10.7: the geometry contact.get works on is that of the model AS IT IS when it is loaded: an MjModel is mutable and
  # hashes by identity, so a loader function memoised with lru_cache / cache hands back the device copy of an earlier state
  n = 0
  for q, f in sorted(U.funcs.items()):
    if not f.mod.name.startswith('brax.io.'):
      continue
    n += 1
    for d in getattr(f.node, 'decorator_list', []):
      tgt = d.func if isinstance(d, ast.Call) else d
      nm = '.'.join(dotted(tgt) or [])
      if nm.split('.')[-1] in ('lru_cache', 'cache', 'cached_property', 'memoize'):
        rep.fail('R10.7', 'memo|' + q, '%s is memoised (`@%s`): a model edited in place and loaded again gets the stale copy -- the '
                 'contact geometry is not that of the model passed in' % (q, nm), where=f.where(d), construct=ast.unparse(d)[:80])
  rep.check(n >= 10, 'R10.7', 'loader functions are not memoised on model identity', 'only %d loader functions seen' % n,
            construct='%d functions of brax.io.* scanned for lru_cache / cache decorators' % n)
