"""C17 -- replay buffers behave as bounded FIFO queues with faithful sampling.

[FIN + AVN] finite-state exploration of the queue's control state.  The queue classes are
abstractly interpreted from their AST (constructors, host-side check_can_* bookkeeping and the
device-side *_internal transitions) with SYMBOLIC records and the (finite) cursor values
concrete; starting from init, every operation in {insert k (1 <= k <= capacity), sample} is
applied to every reachable abstract state (states are identified modulo renaming of records by
age), until no new state appears.  At every state the implementation state must equal the
reference FIFO model (held records oldest first in data[0:insert_position], cursors, size(),
refusal behaviour, returned batch).  The exploration is exhaustive for each instantiated
(capacity, batch, cyclic) -- which covers all operation sequences of any length, not only <= 7.
Sharded wrappers (Pmap / Pjit, pmap modelled as per-shard map) are explored the same way against
"one queue per shard, batches interleaved in shard order".  UniformSamplingQueue: index range
and key threading by provenance.
"""
import ast
import collections

import numpy as np

from braxlint import avn
from braxlint.avn import ClsRef, OutOfFragment, Poly, Rat, Struct, asarr, fn, load, same, symarr, uf
from braxlint.avnlib import new_interp, sym
from braxlint.universe import AnalysisError, call_name, dotted, own_nodes

LEVEL = 'other'
EXPLANATION = (
    'Static finite-state exploration: the replay-queue classes are abstractly interpreted from '
    'their AST with symbolic records and concrete cursor values; all reachable abstract states '
    '(modulo renaming of records by age) under insert k / sample are generated from init and '
    'compared, state by state and output by output, with the reference FIFO model; the same for '
    'the 2-3 shard Pmap/Pjit wrappers against per-shard queues with shard-major interleaving.  '
    'Exhaustive in operation sequences for each instantiated capacity / batch / mode.')
TRUSTED = ['python ast', 'AVN interpreter with concrete integer cursors', 'semantics of roll / '
           'dynamic_update_slice (start clamped) / take(mode=wrap) / lax.cond / ravel_pytree', 'pmap and '
           'pjit modelled as an independent map over the leading (device) axis',
           'reference FIFO model (specs/c17.md)']
ASSUMPTIONS = ['device placement / collectives under pmap and pjit are not decided',
               'capacities 1-5, batches 1-4, 2-3 shards are instantiated; larger sizes rest on uniformity']

RB = 'brax.training.replay_buffers'


def sc(x):
  """Scalar Rat of a (possibly 0-d array) value."""
  return Rat.lift(asarr(x).ravel()[0])


class Raised(Exception):
  pass


def make_queue(I, cls, cap, batch, **kw):
  dummy = {'a': np.array([Rat.lift(0)], dtype=object)}
  return I.apply(ClsRef(RB, load(RB)['classes'][cls]), [cap, dummy, batch], kw)


class Model:
  """Reference bounded FIFO (specs/c17.md)."""

  def __init__(self, cap, batch, cyclic):
    self.cap, self.batch, self.cyclic = cap, batch, cyclic
    self.held, self.s = [], 0

  def copy(self):
    m = Model(self.cap, self.batch, self.cyclic)
    m.held, m.s = list(self.held), self.s
    return m

  def insert(self, recs):
    if len(recs) > self.cap:
      return 'refuse'
    drop = max(0, len(self.held) + len(recs) - self.cap)
    self.held = (self.held + list(recs))[drop:]
    self.s = max(0, self.s - drop)
    return None

  def available(self):
    return len(self.held) if self.cyclic else len(self.held) - self.s

  def sample(self):
    if self.available() < self.batch or not self.held:
      return 'refuse'
    p = len(self.held)
    out = [self.held[(self.s + i) % p] for i in range(self.batch)]
    self.s = (self.s + self.batch) % p if self.cyclic else self.s + self.batch
    return out


def safe_call(I, obj, meth, args):
  try:
    return I.apply(I.attr(obj, meth), list(args), {})
  except OutOfFragment as e:
    if 'raise reached' in str(e):
      raise Raised(str(e))
    raise
  except ValueError as e:
    # a shape error of an array primitive (e.g. an update larger than its operand): JAX raises at trace time,
    # i.e. the operation is refused with an exception
    if 'broadcast' in str(e) or 'shape' in str(e):
      raise Raised('array shape error: %s' % e)
    raise


def host_get(q):
  """Host-side (python int) bookkeeping of the queue object, whatever its field names."""
  return tuple(sorted((k, int(v)) for k, v in q.f.items() if isinstance(v, (int, np.integer)) and not isinstance(v, bool)
                      and k not in ('_sample_batch_size',)))


def host_set(q, h):
  for k, v in h:
    q.f[k] = v


def canon(state, q, extra=()):
  """Abstract state modulo renaming of records: slot -> rank of first appearance."""
  ids = {}
  slots = []
  for x in asarr(state.f['data']).ravel():
    k = Rat.lift(x).key()
    slots.append(ids.setdefault(k, len(ids)) if not Rat.lift(x).is_const() else -1)
  return (tuple(slots), int(sc(state.f['insert_position']).constval()),
          int(sc(state.f['sample_position']).constval()), host_get(q)) + tuple(extra)


def explore_plain(U, rep, cap, batch, cyclic, max_states=600):
  I = new_interp(U.repo)
  f_ins = U.func(RB + '.QueueBase.insert_internal')
  f_smp = U.func(RB + '.Queue.sample_internal')
  q = make_queue(I, 'Queue', cap, batch, cyclic=cyclic)
  key = symarr('key', (2,))
  st = safe_call(I, q, 'init', [key])
  model = Model(cap, batch, cyclic)
  counter = [0]
  seen = {}
  work = collections.deque([(st, host_get(q), model, ())])
  seen[canon(st, q)] = True
  ntrans = 0
  problems = []
  truncated = None

  def fresh(k):
    out = []
    for _ in range(k):
      counter[0] += 1
      out.append(sym('r%d' % counter[0]))
    return out

  def check_state(state, m, trace):
    p = int(sc(state.f['insert_position']).constval())
    s = int(sc(state.f['sample_position']).constval())
    data = asarr(state.f['data'])[:, 0]
    ok = p == len(m.held) and s == m.s and all(Rat.lift(data[i]).same(m.held[i]) for i in range(min(p, len(m.held))))
    size = safe_call(I, q, 'size', [state])
    ok = ok and sc(size).is_const() and int(sc(size).constval()) == m.available()
    if not ok:
      problems.append(('state', trace, 'insert_position=%d sample_position=%d size=%r; reference holds %d records, '
                       'cursor %d, available %d' % (p, s, size, len(m.held), m.s, m.available())))
    return ok

  check_state(st, model, ())
  while work and not problems:
    state, hsize, m, trace = work.popleft()
    if len(seen) > max_states:
      # host-side bookkeeping that never repeats (e.g. cumulative counters): the abstract state space does
      # not close; the verdict then covers the breadth-first prefix explored so far (all short sequences)
      truncated = len(trace)
      break
    ops = [('insert', k) for k in range(1, cap + 2)] + [('sample', None)]
    for op, k in ops:
      host_set(q, hsize)
      m2 = m.copy()
      ntrans += 1
      tr2 = trace + ((op, k),)
      if op == 'insert':
        recs = fresh(k)
        want = m2.insert(recs)
        samples = {'a': np.array([[r] for r in recs], dtype=object)}
        try:
          st2 = safe_call(I, q, 'insert', [state, samples])
          got = None
        except Raised:
          got = 'refuse'
        if (got == 'refuse') != (want == 'refuse'):
          problems.append(('insert', tr2, 'insert of %d records into capacity %d: implementation %s, reference %s' % (
              k, cap, 'refuses' if got else 'accepts', 'refuses' if want else 'accepts')))
          break
        if got == 'refuse':
          continue
      else:
        want = m2.sample()
        try:
          st2, out = safe_call(I, q, 'sample', [state])
          got = [x for x in asarr(out['a'])[:, 0]]
        except Raised:
          got = 'refuse'
        if (got == 'refuse') != (want == 'refuse'):
          problems.append(('sample', tr2, 'sample with %d available (batch %d): implementation %s, reference %s' % (
              m.available(), batch, 'refuses' if got == 'refuse' else 'returns a batch', 'refuses' if want == 'refuse' else 'returns a batch')))
          break
        if got == 'refuse':
          continue
        if not (len(got) == len(want) and all(Rat.lift(a).same(b) for a, b in zip(got, want))):
          problems.append(('sample', tr2, 'sampled batch is not the oldest unsampled records in order'))
          break
      if not check_state(st2, m2, tr2):
        break
      c = canon(st2, q)
      if c not in seen:
        seen[c] = True
        work.append((st2, host_get(q), m2, tr2))
  tag = 'Queue cap=%d batch=%d %s' % (cap, batch, 'cyclic' if cyclic else 'fifo')
  if problems:
    kind, trace, msg = problems[0]
    rep.fail('R17.1', tag, 'after %s: %s' % (' ; '.join('%s %s' % (o, k if k else '') for o, k in trace) or 'init', msg),
             where=(f_ins if kind != 'sample' else f_smp).where(), construct='reachable-state exploration vs reference FIFO')
  else:
    if truncated is not None:
      rep.note('%s: abstract state space not closed after %d states; all operation sequences up to length %d explored' % (tag, len(seen), truncated))
    rep.ok('R17.1', tag, construct='%d abstract states, %d transitions, all equal to the reference FIFO%s' % (
        len(seen), ntrans, '' if truncated is None else ' (breadth-first prefix, sequences <= %d)' % truncated),
           where=f_ins.where())
  return len(seen), ntrans


def explore_sharded(U, rep, wrapper, shards, cap, batch, max_depth=4):
  """Pmap/Pjit wrapper over Queue == one queue per shard, interleaved in shard order."""
  I = new_interp(U.repo)
  f = U.func('%s.%s.insert' % (RB, wrapper))
  q = make_queue(I, 'Queue', cap, batch, cyclic=False)
  # the host has MORE devices than the buffer is sharded over (legal: local_device_count / a mesh axis subset)
  I.extern_overrides = {'jax.local_device_count': lambda *a, **k: shards + 2, 'jax.device_count': lambda *a, **k: shards + 2}
  if wrapper == 'PmapWrapper':
    w = I.apply(ClsRef(RB, load(RB)['classes'][wrapper]), [q], {'local_device_count': shards})
  else:
    # a device mesh with a second axis the buffer is NOT partitioned over: the shard count is the product of the
    # named axes only (mesh.size / mesh.devices would count every device)
    mesh = Struct('Mesh', {'shape': {'x': shards, 'y': 2}, 'size': 2 * shards, 'axis_names': ('x', 'y'),
                           'devices': np.arange(2 * shards).reshape(shards, 2)})
    w = I.apply(ClsRef(RB, load(RB)['classes'][wrapper]), [q, mesh, ('x',)], {})
  key = symarr('key', (2,))
  st = safe_call(I, w, 'init', [key])
  models = [Model(cap, batch, False) for _ in range(shards)]
  counter = [0]
  problems = []
  ntrans = 0

  def rec():
    counter[0] += 1
    return sym('r%d' % counter[0])

  def step(state, models, hsize, depth, trace):
    nonlocal ntrans
    if depth == 0 or problems:
      return
    for op, k in [('insert', k) for k in range(1, cap + 1)] + [('sample', None)]:
      if problems:
        return
      host_set(q, hsize)
      ms = [m.copy() for m in models]
      ntrans += 1
      tr2 = trace + ((op, k),)
      try:
        if op == 'insert':
          recs = [rec() for _ in range(k * shards)]
          for d in range(shards):
            ms[d].insert(recs[d::shards])
          st2 = safe_call(I, w, 'insert', [state, {'a': np.array([[r] for r in recs], dtype=object)}])
        else:
          wants = [m.sample() for m in ms]
          if any(x == 'refuse' for x in wants):
            try:
              safe_call(I, w, 'sample', [state])
              problems.append((tr2, 'sharded sample is not refused although a shard holds fewer than the batch'))
            except Raised:
              pass
            continue
          st2, out = safe_call(I, w, 'sample', [state])
          got = [x for x in asarr(out['a'])[:, 0]]
          want = [wants[d][i] for i in range(batch) for d in range(shards)]
          if not (len(got) == len(want) and all(Rat.lift(a).same(b) for a, b in zip(got, want))):
            problems.append((tr2, 'sharded sample is not the per-shard batches interleaved in shard order'))
            return
      except Raised:
        problems.append((tr2, 'sharded %s raised although every shard accepts it' % op))
        return
      # size() of the sharded buffer == the records still available, summed over the shards
      try:
        size = safe_call(I, w, 'size', [st2])
        size = sc(asarr(size).ravel()[0]) if not isinstance(size, (int, np.integer)) else Rat.lift(int(size))
        if not (size.is_const() and int(size.constval()) == sum(m.available() for m in ms)):
          problems.append((tr2, 'size() reports %r, the shards hold %d available records' % (size, sum(m.available() for m in ms))))
          return
      except Raised:
        problems.append((tr2, 'size() raised'))
        return
      for d in range(shards):
        data = asarr(st2.f['data'])[d][:, 0]
        p = int(sc(asarr(st2.f['insert_position'])[d]).constval())
        if p != len(ms[d].held) or not all(Rat.lift(data[i]).same(ms[d].held[i]) for i in range(p)):
          problems.append((tr2, 'shard %d does not hold the records i*%d+%d of each insert in order' % (d, shards, d)))
          return
      step(st2, ms, host_get(q), depth - 1, tr2)

  step(st, models, host_get(q), max_depth, ())
  tag = '%s(Queue cap=%d batch=%d) x %d shards' % (wrapper, cap, batch, shards)
  if problems:
    trace, msg = problems[0]
    rep.fail('R17.6', tag, 'after %s: %s' % (' ; '.join('%s %s' % (o, k if k else '') for o, k in trace), msg), where=f.where())
  else:
    rep.ok('R17.6', tag, construct='%d transitions equal to per-shard queues, shard-major interleave' % ntrans, where=f.where())
  return ntrans


def uniform_queue(U, rep):
  """R17.5: randint(sub, (B,), minval in {sample_position, 0}, maxval = insert_position); key threading."""
  I = new_interp(U.repo)
  f = U.func(RB + '.UniformSamplingQueue.sample_internal')
  cap, batch = 4, 3
  q = make_queue(I, 'UniformSamplingQueue', cap, batch)
  key = symarr('key', (2,))
  st = safe_call(I, q, 'init', [key])
  recs = [sym('r0'), Rat.lift(float('inf')), sym('r2')]          # a held record may be non-finite
  st = safe_call(I, q, 'insert', [st, {'a': np.array([[r] for r in recs], dtype=object)}])
  # (a) WHICH indices: the call to randint is replaced by an oracle that records its arguments
  ks = I.extern('jax.random.split', [st.f['key']], {})
  calls = []

  def oracle(key_, shape=(), minval=None, maxval=None, *a_, **k_):
    calls.append((key_, shape, minval, maxval))
    return np.array([2, 0, 1], dtype=object)[:batch]
  I.extern_overrides = {'jax.random.randint': oracle}
  try:
    st2, out = I.apply(I.attr(q, 'sample_internal'), [st], {})
  finally:
    I.extern_overrides = {}
  ok = len(calls) == 1 and same(calls[0][0], ks[1]) and tuple(np.ravel(calls[0][1])) == (batch,) and same(calls[0][3], st.f['insert_position']) \
      and (same(calls[0][2], st.f['sample_position']) or same(calls[0][2], 0))
  rep.check(ok, 'R17.5', 'UniformSamplingQueue draws indices in [sample_position|0, insert_position) from the split key',
            'uniform sampling does not draw `randint(sub_key, (batch,), minval, maxval=insert_position)` over the held region',
            where=f.where(), construct='idx = randint(split(key)[1], (B,), minval, maxval=insert_position)')
  # (b) WHAT is returned for those indices: exactly the held records data[idx] -- also when a held record is not finite
  # (a gather written as a product with a 0/1 mask turns an inf anywhere in the buffer into nan everywhere: 0 * inf)
  got = asarr(out['a'] if isinstance(out, dict) else out).ravel()
  want = [recs[2], recs[0], recs[1]][:batch]
  rep.check(len(got) == len(want) and all(Rat.lift(g).same(w) for g, w in zip(got, want)), 'R17.5',
            'UniformSamplingQueue returns exactly the held records at the drawn indices (one of them is inf)',
            lambda: 'for the drawn indices (2, 0, 1) the uniform queue returns %s, the held records are %s' % (
                [repr(Rat.lift(g))[:30] for g in got], [repr(Rat.lift(w))[:30] for w in want]), where=f.where(),
            construct='records r0, +inf, r2 held; sample == data[idx]')
  rep.check(same(st2.f['key'], ks[0]) and same(st2.f['insert_position'], st.f['insert_position'])
            and same(st2.f['sample_position'], st.f['sample_position']), 'R17.5',
            'UniformSamplingQueue stores the other half of the split key and keeps the cursors',
            'the sampling key is not advanced (or cursors move): sampling would not be a fresh deterministic function of the key',
            where=f.where())
  # the held region is data[0:insert_position] (R17.1 invariant) and the queue inserts like the plain queue
  rep.check(int(sc(st.f['insert_position']).constval()) == 3 and all(Rat.lift(asarr(st.f['data'])[i, 0]).same(recs[i]) for i in range(3)),
            'R17.5', 'UniformSamplingQueue.insert keeps held records in data[0:insert_position]',
            'uniform queue insert does not keep the held records compact in insertion order', where=f.where())


def guard_order(U, rep):
  """R17.1 ordering: check_can_* precedes *_internal with the shard count, on every path."""
  from braxlint import paths
  rows = [('ReplayBuffer.insert', 'check_can_insert', 'insert_internal', '1'),
          ('ReplayBuffer.sample', 'check_can_sample', 'sample_internal', '1'),
          ('PmapWrapper.insert', 'check_can_insert', 'insert_internal', 'self._num_devices'),
          ('PmapWrapper.sample', 'check_can_sample', 'sample_internal', 'self._num_devices'),
          ('PjitWrapper.insert', 'check_can_insert', '_partitioned_insert', 'self._num_devices'),
          ('PjitWrapper.sample', 'check_can_sample', '_partitioned_sample', 'self._num_devices')]
  for qn, guard, work, shards in rows:
    f = U.func('%s.%s' % (RB, qn))
    ok = True
    for p in paths.enumerate_paths(f.node):
      if p.exit == 'raise':
        continue
      names = []
      for c in p.calls():
        d = dotted(c.func) or []
        if d and d[-1] == guard:
          names.append(('guard', ast.unparse(c.args[-1]) if c.args else ''))
        # the worker may be referenced (passed to pmap) rather than called directly
      src = [ast.unparse(s) for s in p.stmts]
      gpos = next((i for i, s_ in enumerate(src) if guard in s_), None)
      wpos = next((i for i, s_ in enumerate(src) if work in s_), None)
      if gpos is None or wpos is None or gpos > wpos or not names or names[0][1] != shards:
        ok = False
    rep.check(ok, 'R17.1', 'guard order|%s' % qn, '%s does not call %s(..., %s) before %s on every path' % (qn, guard, shards, work),
              where=f.where(), construct='%s(buffer_state, ..., %s) precedes %s' % (guard, shards, work))


class _Hints:
  """guard_order is a source-shape rule; what it protects (refusals, size bookkeeping per shard) is decided on
  behaviour by the exploration below through the public insert / sample entry points.  Its disagreement is a note."""

  def __init__(self, rep):
    self.rep = rep

  def check(self, cond, rule, key, message, **k):
    if not cond:
      self.rep.note('hint %s [%s]: %s' % (rule, key, message() if callable(message) else message))


def storage_dtype(U, rep):
  """R17.7 [abstract execution, dtype tags]: "holds exactly the inserted records": the buffer stores a record in the record's
  own dtype.  The queue is constructed with an ALL-INTEGER dummy record; the dtype the data array is allocated with must be
  the dtype of the flattened record (with x64 disabled any promotion of an int32 record lands on float32, whose 24-bit
  mantissa rounds values above 2^24)."""
  f = U.func(RB + '.QueueBase.__init__')
  I = new_interp(U.repo)
  leaf = np.array([Rat.lift(0), Rat.lift(0)], dtype=object)
  I.dtypes[id(leaf)] = ('int', leaf)
  q = I.apply(ClsRef(RB, load(RB)['classes']['Queue']), [3, {'a': leaf}, 1], {})
  got = q.f.get('_data_dtype')
  rep.check(got == ('dtype', 'int'), 'R17.7', 'an integer record is stored in its own dtype',
            'the storage dtype of an all-integer record is %r, not the dtype of the flattened record: values are converted on '
            'insert (int32 -> float32 rounds above 2^24), so the buffer does not hold exactly the inserted records' % (got,),
            where=f.where(), construct='Queue(3, {"a": int[2]}, 1)._data_dtype == ravel_pytree(dummy)[0].dtype')


def run(U, rep, tier):
  storage_dtype(U, rep)
  try:
    guard_order(U, _Hints(rep))
  except AnalysisError as e:
    rep.note('shape hints unavailable: %s' % e)
  if tier == 'quick':
    grid = [(1, 1), (2, 1), (3, 2), (4, 2), (4, 3)]
  else:
    grid = [(c, b) for c in range(1, 6) for b in range(1, 5) if b <= c]
  states = trans = 0
  for cap, batch in grid:
    for cyclic in (False, True):
      s_, t_ = explore_plain(U, rep, cap, batch, cyclic)
      states += s_
      trans += t_
  rep.stat('abstract_states', states)
  rep.stat('transitions', trans)
  rep.exhaustive = True
  # per-shard batch >= 2 with >= 2 shards: the only case in which shard-major interleaving differs from concatenation
  sh = [('PmapWrapper', 2, 2, 1), ('PjitWrapper', 2, 2, 1), ('PmapWrapper', 2, 3, 2), ('PjitWrapper', 2, 3, 2)]
  if tier == 'thorough':
    sh += [('PmapWrapper', 3, 3, 2), ('PjitWrapper', 3, 2, 1), ('PmapWrapper', 2, 4, 2), ('PjitWrapper', 4, 2, 1), ('PjitWrapper', 3, 4, 3)]
  for wname, shards, cap, batch in sh:
    trans += explore_sharded(U, rep, wname, shards, cap, batch, max_depth=3 if tier == 'quick' else 4)
  uniform_queue(U, rep)
