"""C19 -- advantage estimation equals its definition for every trajectory batch.

[AVN, definition match] compute_gae is abstractly interpreted on symbolic [T, B] inputs
(lax.scan unrolled over the instantiated T) and its two outputs are compared, as
polynomial normal forms, with the defining lambda-sum

  A_t  = sum_{k>=t} ( prod_{j=t}^{k-1} gamma (1-term_j) m_j lambda ) delta_k
  delta_t = (r_t + gamma (1-term_t) V_{t+1} - V_t) m_t,  m = 1 - trunc,  V_T = bootstrap
  vs_t = A_t + V_t ;  adv_t = (r_t + gamma (1-term_t) vs_{t+1} - V_t) m_t,  vs_T = bootstrap

with no gradient flowing to rewards, values or the bootstrap value (R19.2: every occurrence of a
differentiable input lies under stop_gradient -- on the outputs or on all inputs, either placement).
"""
import numpy as np

from braxlint import avn
from braxlint.avn import P_zeros, Poly, Rat, elemwise, fn, same, symarr, uf, asarr
from braxlint.avnlib import diff_report, new_interp, sym

LEVEL = 'other'
EXPLANATION = (
    'Static equivalence with the stated reference formula: the AST of compute_gae is reduced to '
    'a polynomial normal form in symbolic rewards, values, bootstrap, masks, lambda and discount '
    'for each instantiated (T, B) and compared with the explicit GAE lambda-sum.  Equality of '
    'normal forms holds for all real inputs (including mask/lambda/discount end points).  The '
    'thorough tier instantiates every (T, B) with T <= 12, B <= 4 -- the whole structural '
    'quantifier of the property.')
TRUSTED = ['python ast', 'braxlint.avn normal form', 'lax.scan/concatenate/expand_dims/zeros_like '
           'primitive semantics', 'reference formula B.7 transcribed from the property statement']
ASSUMPTIONS = ['scan semantics: carry threaded in reverse index order when reverse=True, outputs '
               'stacked in original order', 'masks enter only polynomially (checked by construction)']

MOD = 'brax.training.agents.ppo.losses'


def reference(Tn, Bn, Mk, Nt, r, V, boot, lam, gam):
  """Explicit lambda-sum (not a recurrence).  Mk = 1 - trunc, Nt = 1 - term."""
  Vn = np.concatenate([V[1:], boot[None]])
  delta = [(r[t] + gam * Nt[t] * Vn[t] - V[t]) * Mk[t] for t in range(Tn)]
  A = []
  for t in range(Tn):
    acc = P_zeros((Bn,))
    w = np.array([Rat.lift(1)] * Bn, dtype=object)
    for k in range(t, Tn):
      acc = acc + w * delta[k]
      w = w * (gam * Nt[k] * Mk[k] * lam)
    A.append(acc)
  vs = np.stack(A) + V
  vsn = np.concatenate([vs[1:], boot[None]])
  adv = (r + gam * Nt * vsn - V) * Mk
  sg = lambda x: elemwise(lambda v: uf('stop_gradient', v), x)
  return sg(vs), sg(adv)


def one(I, Tn, Bn, lam=None, gam=None):
  # the masks are 0/1 valued: idempotent boolean atoms (m * m = m), re-parameterised as
  # Mk = 1 - truncation, Nt = 1 - termination
  def batoms(tag):
    a = np.empty((Tn, Bn), dtype=object)
    for t in range(Tn):
      for b in range(Bn):
        a[t, b] = Rat(Poly.sym(avn.atom_key('bool', (tag, t, b), (tag, t, b))))
    return a
  Mk, Nt = batoms('M'), batoms('N')
  tr, te = 1 - Mk, 1 - Nt
  r, V = symarr('r', (Tn, Bn)), symarr('V', (Tn, Bn))
  boot = symarr('b', (Bn,))
  # lambda / discount: symbolic (a traced value) unless an end point is given as the Python number a config passes
  lam = sym('lam') if lam is None else lam
  gam = sym('gam') if gam is None else gam
  out = I.apply(fn(MOD, 'compute_gae'), [tr, te, r, V, boot], {'lambda_': lam, 'discount': gam})
  ref = reference(Tn, Bn, Mk, Nt, r, V, boot, lam, gam)
  return out, ref


def run(U, rep, tier):
  f = U.func(MOD + '.compute_gae')
  I = new_interp(U.repo)
  if tier == 'quick':
    grid = [(1, 1), (1, 2), (2, 2), (3, 1), (4, 2)]
  else:
    grid = [(t, b) for t in range(1, 13) for b in range(1, 5)]
    rep.exhaustive = True
  host_only = False
  for Tn, Bn in grid:
    try:
      out, ref = one(I, Tn, Bn) if not host_only else one(I, Tn, Bn, 0.95, 0.99)
    except avn.OutOfFragment as e:
      if 'abstract value' not in str(e):
        raise
      # compute_gae runs Python control flow on lambda_ / discount (e.g. `value or default`): they cannot be traced
      # values then (JAX itself would refuse), only the host numbers a config passes -- instantiated as such
      if not host_only:
        rep.note('R19.1: lambda_ / discount are used in Python control flow (%s): instantiated as host numbers 0.95 / 0.99' % e)
      host_only = True
      out, ref = one(I, Tn, Bn, 0.95, 0.99)
    ok_shape = isinstance(out, (tuple, list)) and len(out) == 2
    if not ok_shape:
      rep.fail('R19.1', 'T=%d,B=%d' % (Tn, Bn), 'compute_gae does not return (vs, advantages)',
               where=f.where())
      continue
    for name, o, r_ in (('vs', out[0], ref[0]), ('advantages', out[1], ref[1])):
      key = '%s T=%d,B=%d' % (name, Tn, Bn)
      # value: equal to the definition wherever the stop_gradient markers are placed (stop_gradient is the
      # identity on values) ...
      strip = lambda a: Rat.lift(avn.ATOM_ARGS[a][1][0]) if isinstance(a, avn.Atom) and a.kind == 'stop_gradient' else None
      ov, rv = avn.subst_atoms(asarr(o), strip), avn.subst_atoms(asarr(r_), strip)
      if same(ov, rv):
        rep.ok('R19.1', key, construct='compute_gae.%s == lambda-sum definition' % name, where=f.where())
      else:
        rep.fail('R19.1', key, '%s differs from the GAE definition: %s' % (name, diff_report(ov, rv)),
                 where=f.where(), construct='compute_gae')
      # ... gradient: no differentiable input (rewards, values, bootstrap value) reaches the output outside a
      # stop_gradient, whether the cut is made on the outputs or on every input
      leak = sorted(str(x) for x in avn.free_symbols(asarr(o), opaque_kinds=('stop_gradient',))
                    if str(x).split('_')[0] in ('r', 'V', 'b'))
      rep.check(not leak, 'R19.2', '%s T=%d,B=%d carries no gradient' % (name, Tn, Bn),
                '%s depends differentiably on %s (not under stop_gradient)' % (name, ', '.join(leak[:4])), where=f.where(),
                construct='every occurrence of rewards / values / bootstrap_value lies under jax.lax.stop_gradient')
  # end points as host numbers (how a training config passes them): a static special case must agree with the definition
  ends = [(0.0, None), (1.0, None), (0, None), (None, 0.0), (None, 1.0), (0.0, 1.0), (1.0, 0.0)]
  for Tn, Bn in ([(1, 1), (3, 2)] if tier == 'quick' else [(1, 1), (2, 1), (3, 2), (5, 2)]):
    for lam, gam in ends:
      if host_only:
        lam, gam = (0.95 if lam is None else lam), (0.99 if gam is None else gam)
      out, ref = one(I, Tn, Bn, lam, gam)
      strip = lambda a: Rat.lift(avn.ATOM_ARGS[a][1][0]) if isinstance(a, avn.Atom) and a.kind == 'stop_gradient' else None
      ok = isinstance(out, (tuple, list)) and len(out) == 2 and all(
          same(avn.subst_atoms(asarr(o), strip), avn.subst_atoms(asarr(r_), strip)) for o, r_ in zip(out, ref))
      rep.check(ok, 'R19.1', 'end point lambda=%r discount=%r T=%d,B=%d' % (lam, gam, Tn, Bn),
                'compute_gae differs from the GAE definition when lambda_ / discount are the host numbers %r / %r' % (lam, gam),
                where=f.where(), construct='lambda_, discount passed as Python numbers (static), not traced values')
  rep.stat('grid', ['T=%d,B=%d' % g for g in grid])
  rep.stat('interpreter_calls', I.calls)
