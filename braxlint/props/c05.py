"""C05 -- physics does not depend on how the scene is represented.

[RI, relational laws on pipeline.init + pipeline.step of all three native pipelines] the whole
programs (kinematics, com, scan.py regrouping, joints / dynamics / mass matrix, integrators,
world_to_joint / inverse read-back) are abstractly interpreted from their AST on symbolic
free-rooted, contact-free models TWICE and the two results are compared field by field:
R5.1 equivariance: (q, qd, gravity) moved by a rigid transform G (unit quaternion by construction,
     symbolic translation) -- root pose G o ., root linear velocity and gravity rotated -- gives, after
     init and after each step, link poses G o x, link velocities R xd, the root coordinates moved
     and every non-root joint coordinate / velocity UNCHANGED.
R5.2 sibling order: the same model with its links listed in another (topologically valid) order gives
     the same per-link results, permuted.
R5.4 [AVN, exhaustive] scan.tree / scan.link_types / scan._take deliver to every link its own inputs and its
     own parent's result, and restore link order, for every forest of <= 5 (thorough: 6) links (shared
     with C01 R1.2): sibling order and merging change the forest shape, and this is what makes the
     instantiated runs below representative.
R5.3 components: two models merged into one system give, link by link and coordinate by
     coordinate, exactly what each gives alone (generalized pipeline: exact mass-matrix inverse).
Decided by random interpretation in GF(p): both runs evaluate the same AST walk on images of the
same symbols; invariants have equal images, so every uninterpreted helper (arctan2, arccos, sign,
comparisons) yields equal results in both runs iff its arguments are invariant.
"""
import os

import numpy as np

from braxlint import avn, refkin, symsys
from braxlint.avn import P_zeros, Rat, Struct, asarr, fn, same, symarr
from braxlint.avnlib import new_interp, sym
from braxlint.props.c01 import F, H, S
from braxlint.universe import AnalysisError

LEVEL = 'other'
EXPLANATION = (
    'Static relational check by abstract interpretation of the three native pipelines\' init and step '
    '(whole programs, real scan.py) on symbolic free-rooted contact-free models: the run on the '
    'rigidly moved scene equals the moved run, the run on a re-ordered link list equals the permuted '
    'run, and the run on two merged models equals the two separate runs -- as identities of rational '
    'functions of all model parameters, joint coordinates, velocities, joint forces, gravity and the '
    'rigid transform, decided by random interpretation in GF(2^61-1).')
TRUSTED = ['python ast', 'AVN interpreter', 'unit quaternions / axes by construction', 'modular square root as the positive norm',
           'uninterpreted inverse-trig / comparison atoms keyed by the images of their arguments (congruence)']
ASSUMPTIONS = ['contact-free scenes (the property\'s quantifier); joint limits instantiated for the spring and positional pipelines only',
               'instantiated topologies (<= 5 links) and 1-2 steps; generalisation over model size rests on scan.py being interpreted as is',
               'actuation enters as a symbolic joint-space force on non-root dofs (actuator.to_tau is decided by C11)',
               'divergent trajectories are not a static notion and are not excluded: the identities hold for all values']

BACKENDS = ('generalized', 'spring', 'positional')
default_repo_of = [None]
K = 'brax.kinematics'


# ------------------------------------------------------------------------------ symbolic model
def build(links, prefix='', limits=False):
  """(Model, system, tau) with every per-link / per-dof parameter symbolic and named with `prefix`;
  limits: symbolic joint ranges on hinge / slide dofs (free dofs unlimited, as the loader does)."""
  M = refkin.Model(links, anchors_zero=False, prefix=prefix)
  M.add_inertia(prefix)
  n, nv = M.n, M.nv
  sysd = M.brax_system()
  lk = sysd.f['link'].f
  lk['inertia'] = M.brax_inertia()
  for k in ('invweight', 'constraint_stiffness', 'constraint_vel_damping', 'constraint_limit_stiffness', 'constraint_ang_damping'):
    lk[k] = symarr(prefix + k[:2] + k[-3:], (n,))
  free = [k == 'f' for _, k in M.dofs]
  stiff = np.array([Rat.lift(0) if fr else sym(prefix + 'k%d' % d) for d, fr in enumerate(free)], dtype=object)
  # per-axis armature / damping on the world-aligned translational dofs of a free joint is not a
  # frame-independent model (the generator puts them on hinge / slide joints only)
  M.armature = np.array([Rat.lift(0) if fr else a for a, fr in zip(M.armature, free)], dtype=object)
  damp = np.array([Rat.lift(0) if fr else sym(prefix + 'dmp%d' % d) for d, fr in enumerate(free)], dtype=object)
  sysd.f['dof'].f.update({'armature': M.armature, 'stiffness': stiff, 'damping': damp,
                          'invweight': symarr(prefix + 'diw', (nv,)), 'solver_params': symarr(prefix + 'sp', (nv, 7))})
  sysd.f.update({'matrix_inv_iterations': 0, 'solver_iterations': 1, 'solver_maxls': 1, 'mj_model': None, 'nu': 0})
  sysd.f['actuator'] = Struct('Actuator', {})
  if limits:
    lo = np.array([Rat.lift(float('-inf')) if fr else sym(prefix + 'lo%d' % d) for d, fr in enumerate(free)], dtype=object)
    hi = np.array([Rat.lift(float('inf')) if fr else sym(prefix + 'hi%d' % d) for d, fr in enumerate(free)], dtype=object)
    sysd.f['dof'].f['limit'] = (lo, hi)
  tau = np.array([Rat.lift(0) if fr else sym(prefix + 'tau%d' % d) for d, fr in enumerate(free)], dtype=object)
  return M, sysd, tau


def has_limits(backend):
  """Joint limits are instantiated for the spring and positional pipelines (gate atoms decided
  consistently in both runs); the generalized pipeline's limit rows go through the iterative
  constraint solver, which is outside the interpreted fragment."""
  return backend != 'generalized'


def spans(M):
  """Per link: (q slice, qd slice)."""
  out, qi, d = [], 0, 0
  for l in M.links:
    nq, nd = (7, 6) if l['joints'] == F else (len(l['joints']),) * 2
    out.append((slice(qi, qi + nq), slice(d, d + nd)))
    qi += nq
    d += nd
  return out


# ------------------------------------------------------------------------------ running a pipeline
def simulate(U, backend, sysd, q, qd, tau, steps):
  """-> [state after init, after step 1, ...] by interpreting the real pipeline.init / step."""
  I = new_interp(U.repo, reset=False)        # the model's tied sines / cosines live in the session's atom table
  I.contracts[('brax.contact', 'get')] = lambda s, x: None
  I.contracts[('brax.actuator', 'to_tau')] = lambda s, a, q_, qd_: tau
  mod = 'brax.%s.pipeline' % backend
  st = I.apply(fn(mod, 'init'), [sysd, q, qd], {})
  out = [st]
  for _ in range(steps):
    st = I.apply(fn(mod, 'step'), [sysd, st, symarr('u', (0,))], {})
    out.append(st)
  return out, I.calls


def with_gravity(sysd, g):
  f = dict(sysd.f)
  f['gravity'] = g
  return Struct('System', f, home='brax.base')


# ------------------------------------------------------------------------------ R5.1 equivariance
def moved(M, q, qd, Gq, Gt):
  q, qd = q.copy(), qd.copy()
  for i, (sq, sd) in enumerate(spans(M)):
    if M.links[i]['parent'] == -1:
      if M.links[i]['joints'] != F:
        raise AnalysisError('C05: equivariance is stated for free-rooted models')
      q[sq][0:3] = refkin.rot(q[sq][0:3], Gq) + Gt
      q[sq][3:7] = refkin.qmul(Gq, q[sq][3:7])
      qd[sd][0:3] = refkin.rot(qd[sd][0:3], Gq)          # linear velocity: world frame; angular: body frame
  return q, qd


def qsame(a, b):
  a, b = asarr(a), asarr(b)
  return same(a, b) or same(a, -b)


def equivariance_diff(M, s, sg, Gq, Gt, backend):
  """Names of the fields of the moved run that are not the moved fields of the reference run."""
  bad = []
  x, xg = s.f['x'], sg.f['x']
  for i in range(M.n):
    if not same(xg.f['pos'][i], refkin.rot(x.f['pos'][i], Gq) + Gt):
      bad.append('x.pos[%d]' % i)
    if not qsame(xg.f['rot'][i], refkin.qmul(Gq, x.f['rot'][i])):
      bad.append('x.rot[%d]' % i)
    for k in ('ang', 'vel'):
      if not same(sg.f['xd'].f[k][i], refkin.rot(s.f['xd'].f[k][i], Gq)):
        bad.append('xd.%s[%d]' % (k, i))
  qm, qdm = moved(M, asarr(s.f['q']), asarr(s.f['qd']), Gq, Gt)
  free = M.free_q_idx()
  for k, (a, b) in enumerate(zip(asarr(sg.f['q']), qm)):
    ok = Rat.lift(a).same(b) or (k in free and Rat.lift(a).same(-Rat.lift(b)))
    if not ok:
      bad.append('q[%d]' % k)
  for k, (a, b) in enumerate(zip(asarr(sg.f['qd']), qdm)):
    if not Rat.lift(a).same(b):
      bad.append('qd[%d]' % k)
  return bad


EQUIV = [
    ('free root with hinge and slide children (rotated bodies, offset anchors)', [dict(parent=-1, joints=F), dict(parent=0, joints=H), dict(parent=0, joints=S)]),
    ('free root - hinge - slide chain', [dict(parent=-1, joints=F), dict(parent=0, joints=H), dict(parent=1, joints=S)]),
]
EQUIV_THOROUGH = [
    ('two free roots, one with a slide-hinge stack child', [dict(parent=-1, joints=F), dict(parent=-1, joints=F), dict(parent=1, joints=S + H)]),
]


class OOB(str):
  """Outcome of a trial in which the analysed program itself indexed out of bounds."""


def _why(found, fmt):
  return ('the program indexes an array out of bounds on this run (%s): JAX clamps such a gather and drops such a scatter silently, '
          'so the two runs cannot agree' % found) if isinstance(found, OOB) else fmt()


def trial(seed, body, max_tries=60, bool_default=None):
  for t in range(max_tries):
    avn.field_mode(seed * 7919 + t, decide=lambda nm: 1 if nm.kind == 'any' else None, bool_default=bool_default)
    avn.set_repo(default_repo_of[0])
    avn.reset_atoms()
    try:
      return body()
    except avn.NonResidue:
      continue
    except IndexError as e:
      # the interpreted program indexes an array out of bounds (JAX would silently clamp a gather / drop a scatter)
      return OOB(str(e))
    finally:
      avn.exact_mode()
  raise AnalysisError('C05: no random point with all square-root arguments quadratic residues in %d tries' % max_tries)


def equivariance(U, rep, tier):
  s0 = int(os.environ.get('VERIF_SEED', '0') or 0)
  steps = 1 if tier == 'quick' else 2
  for backend in BACKENDS:
    f = U.func('brax.%s.pipeline.step' % backend)
    for name, links in EQUIV + (EQUIV_THOROUGH if tier == 'thorough' else []):
      found = None
      for t in range(2 if tier == 'quick' else 4):
        def body():
          M, sysd, tau = build(links, limits=has_limits(backend))
          Gq, Gt = refkin.unit_quat('G'), symarr('Gt', (3,))
          ref, _ = simulate(U, backend, sysd, M.q, M.qd, tau, steps)
          qg, qdg = moved(M, M.q, M.qd, Gq, Gt)
          mov, _ = simulate(U, backend, with_gravity(sysd, refkin.rot(sysd.f['gravity'], Gq)), qg, qdg, tau, steps)
          for k, (a, b) in enumerate(zip(ref, mov)):
            bad = equivariance_diff(M, a, b, Gq, Gt, backend)
            if bad:
              return ('init' if k == 0 else 'step %d' % k, bad)
          return None
        found = trial(s0 * 100 + t, body, bool_default=1 if t == 0 else None)    # trial 0: every limit gate open
        if found:
          break
      rep.check(found is None, 'R5.1', '%s pipeline: rigidly moved scene [%s]' % (backend, name),
                lambda: _why(found, lambda: 'after %s the run on the moved scene is not the moved run: %s differ' % (found[0], ', '.join(found[1][:8]))),
                where=f.where(), construct='init + %d step(s): x -> G o x, xd -> R xd, root q moved, other q / qd unchanged' % steps)


# ------------------------------------------------------------------------------ re-indexing systems
def map_leaves(v, f):
  if isinstance(v, Struct):
    return Struct(v.cls, {k: map_leaves(x, f) for k, x in v.f.items()}, home=v.home)
  if isinstance(v, tuple):
    return tuple(map_leaves(x, f) for x in v)
  if v is None:
    return None
  return f(asarr(v))


def index_maps(links, perm):
  """(dof map, q map) of the link order `perm` (new link i = old link perm[i])."""
  M0 = type('L', (), {'links': links})
  sp = spans(M0)
  dmap = [d for p in perm for d in range(sp[p][1].start, sp[p][1].stop)]
  qmap = [k for p in perm for k in range(sp[p][0].start, sp[p][0].stop)]
  return dmap, qmap


def reordered(links, sysd, q, qd, tau, perm):
  """The same model with its links listed in the order perm."""
  inv = {old: new for new, old in enumerate(perm)}
  links2 = [dict(links[p], parent=-1 if links[p]['parent'] == -1 else inv[links[p]['parent']]) for p in perm]
  if any(l['parent'] >= i for i, l in enumerate(links2)):
    raise AnalysisError('C05: link order %r is not topological' % (perm,))
  dmap, qmap = index_maps(links, perm)
  f = dict(sysd.f)
  f['link'] = map_leaves(sysd.f['link'], lambda a: a[list(perm)])
  f['dof'] = map_leaves(sysd.f['dof'], lambda a: a[dmap])
  f['link_types'] = ''.join(sysd.f['link_types'][p] for p in perm)
  f['link_parents'] = tuple(l['parent'] for l in links2)
  return links2, Struct('System', f, home='brax.base'), asarr(q)[qmap], asarr(qd)[dmap], asarr(tau)[dmap]


def merged(linksA, sysA, linksB, sysB):
  nA = len(linksA)
  cat = lambda a, b: map_leaves_2(a, b)
  f = dict(sysA.f)
  f['link'] = map_leaves_2(sysA.f['link'], sysB.f['link'])
  f['dof'] = map_leaves_2(sysA.f['dof'], sysB.f['dof'])
  f['link_types'] = sysA.f['link_types'] + sysB.f['link_types']
  f['link_parents'] = tuple(sysA.f['link_parents']) + tuple(p + nA if p >= 0 else -1 for p in sysB.f['link_parents'])
  for k in ('nq', 'nv'):
    if k in f:
      f[k] = sysA.f[k] + sysB.f[k]
  links = list(linksA) + [dict(l, parent=l['parent'] + nA if l['parent'] >= 0 else -1) for l in linksB]
  return links, Struct('System', f, home='brax.base')


def map_leaves_2(a, b):
  if isinstance(a, Struct):
    return Struct(a.cls, {k: map_leaves_2(a.f[k], b.f[k]) for k in a.f}, home=a.home)
  if isinstance(a, tuple):
    return tuple(map_leaves_2(x, y) for x, y in zip(a, b))
  if a is None:
    return None
  return np.concatenate([asarr(a), asarr(b)], axis=0)


def link_view(links, st, i):
  """Everything the state reports about link i (pose, velocity, its joint coordinates)."""
  M0 = type('L', (), {'links': links})
  sq, sd = spans(M0)[i]
  return {'x.pos': st.f['x'].f['pos'][i], 'x.rot': st.f['x'].f['rot'][i], 'xd.ang': st.f['xd'].f['ang'][i],
          'xd.vel': st.f['xd'].f['vel'][i], 'q': asarr(st.f['q'])[sq], 'qd': asarr(st.f['qd'])[sd]}


def views_differ(a, b):
  return [k for k in a if not (qsame(a[k], b[k]) if k == 'x.rot' else same(a[k], b[k]))]


# ------------------------------------------------------------------------------ R5.2 sibling order
ORDER = [
    ('free root, children hinge / slide / hinge, grandchild under the second',
     [dict(parent=-1, joints=F), dict(parent=0, joints=H), dict(parent=0, joints=S), dict(parent=0, joints=H), dict(parent=2, joints=H)],
     [(0, 3, 2, 1, 4), (0, 2, 4, 3, 1)]),
]
ORDER_THOROUGH = [
    ('world-attached hinge root and free root with one child each',
     [dict(parent=-1, joints=H), dict(parent=-1, joints=F), dict(parent=0, joints=S), dict(parent=1, joints=H)],
     [(1, 0, 3, 2), (1, 3, 0, 2)]),
    ('two free roots with one child each, roots and children interleaved',
     [dict(parent=-1, joints=F), dict(parent=-1, joints=F), dict(parent=0, joints=S), dict(parent=1, joints=H + S)],
     [(1, 0, 3, 2), (1, 3, 0, 2), (0, 2, 1, 3)]),
]


def sibling_order(U, rep, tier):
  s0 = int(os.environ.get('VERIF_SEED', '0') or 0)
  steps = 1 if tier == 'quick' else 2
  for backend in BACKENDS:
    f = U.func('brax.%s.pipeline.step' % backend)
    for name, links, perms in ORDER + (ORDER_THOROUGH if tier == 'thorough' else []):
      found = None
      for t in range(1 if tier == 'quick' else 3):
        def body():
          M, sysd, tau = build(links, limits=has_limits(backend))
          ref, _ = simulate(U, backend, sysd, M.q, M.qd, tau, steps)
          for perm in perms:
            links2, sys2, q2, qd2, tau2 = reordered(links, sysd, M.q, M.qd, tau, perm)
            got, _ = simulate(U, backend, sys2, q2, qd2, tau2, steps)
            for k, (a, b) in enumerate(zip(ref, got)):
              for new, old in enumerate(perm):
                bad = views_differ(link_view(links, a, old), link_view(links2, b, new))
                if bad:
                  return (perm, 'init' if k == 0 else 'step %d' % k, old, bad)
          return None
        found = trial(s0 * 100 + 50 + t, body, bool_default=1 if t == 0 else None)
        if found:
          break
      rep.check(found is None, 'R5.2', '%s pipeline: links listed in another order [%s]' % (backend, name),
                lambda: _why(found, lambda: 'with the links listed in the order %r, after %s link %d reports different %s' % (
                    found[0], found[1], found[2], ', '.join(found[3]))),
                where=f.where(), construct='%d link orders; init + %d step(s); per-link x, xd, q, qd permuted' % (len(perms), steps))


# ------------------------------------------------------------------------------ R5.3 components
PARTS = [
    ('free root with a hinge child', [dict(parent=-1, joints=F), dict(parent=0, joints=H)]),
    ('free root with slide and hinge children', [dict(parent=-1, joints=F), dict(parent=0, joints=S), dict(parent=0, joints=H)]),
    ('free root - slide-hinge stack - hinge chain', [dict(parent=-1, joints=F), dict(parent=0, joints=S + H), dict(parent=1, joints=H)]),
    ('double pendulum hinged to the world', [dict(parent=-1, joints=H), dict(parent=0, joints=H)]),
    ('slider on a world-attached rail with a hinge child', [dict(parent=-1, joints=S), dict(parent=0, joints=H)]),
    ('free root with a slide child', [dict(parent=-1, joints=F), dict(parent=0, joints=S)]),
]


def components(U, rep, tier):
  s0 = int(os.environ.get('VERIF_SEED', '0') or 0)
  steps = 1 if tier == 'quick' else 2
  # world-attached parts listed before AND after free-floating ones (the world is 'link -1' for every root)
  # (0, 5): an all-hinge model next to one whose only 1-dof joint slides -- a per-GROUP joint-kind flag would leak
  pairs = [(0, 3), (4, 1), (0, 5)] if tier == 'quick' else [(0, 3), (4, 1), (0, 5), (0, 1), (1, 2), (2, 0), (3, 4), (5, 3)]
  for backend in BACKENDS:
    f = U.func('brax.%s.pipeline.step' % backend)
    for ia, ib in pairs:
      (na, la), (nb, lb) = PARTS[ia], PARTS[ib]
      found = None
      for t in range(1 if tier == 'quick' else 3):
        def body():
          MA, sA, tA = build(la, 'A', limits=has_limits(backend))
          MB, sB, tB = build(lb, 'B', limits=has_limits(backend))
          links, sAB = merged(la, sA, lb, sB)
          both, _ = simulate(U, backend, sAB, np.concatenate([MA.q, MB.q]), np.concatenate([MA.qd, MB.qd]),
                             np.concatenate([tA, tB]), steps)
          for part, lk, sy, Mm, tt, off in (('first', la, sA, MA, tA, 0), ('second', lb, sB, MB, tB, len(la))):
            alone, _ = simulate(U, backend, sy, Mm.q, Mm.qd, tt, steps)
            for k, (a, b) in enumerate(zip(alone, both)):
              for i in range(len(lk)):
                bad = views_differ(link_view(lk, a, i), link_view(links, b, off + i))
                if bad:
                  return (part, 'init' if k == 0 else 'step %d' % k, i, bad)
          return None
        found = trial(s0 * 100 + 80 + t, body, bool_default=1 if t == 0 else None)
        if found:
          break
      rep.check(found is None, 'R5.3', '%s pipeline: [%s] merged with [%s] evolves as each alone' % (backend, na, nb),
                lambda: _why(found, lambda: 'in the merged system, after %s link %d of the %s model reports different %s than the model alone' % (
                    found[1], found[2], found[0], ', '.join(found[3]))),
                where=f.where(), construct='init + %d step(s); per-link x, xd, q, qd' % steps)


def run(U, rep, tier):
  default_repo_of[0] = U.repo
  # R5.4: the regrouping every pipeline relies on is order-faithful for EVERY forest (exhaustive up to 5 / 6
  # links): each link receives its own data and its own parent's carry, and link order is restored.  The
  # whole-pipeline runs below instantiate a few link orders; this closes the gap over forest shapes.
  from braxlint.props import c01
  c01.scan_spec(U, rep, tier, rule='R5.4')
  equivariance(U, rep, tier)
  sibling_order(U, rep, tier)
  components(U, rep, tier)
