"""C09 -- transforms, motions, forces and inertias obey rigid-body spatial algebra.

Every obligation is a polynomial identity between repo functions, decided by algebraic
value numbering of the functions' ASTs (normal forms over the ring of polynomials with
rational coefficients; unit-norm laws are stated homogeneously with explicit |q|^2
powers).  Oracle-free: both sides are built from the repo's own code.
"""
import math as pymath

import numpy as np

from braxlint import avn
from braxlint.avn import ClsRef, Partial, Poly, Rat, Struct, Vmapped, asarr, fn, load, same, symarr, uf, P_cross, P_zeros
from braxlint.avnlib import B, MA, M, T, diff_report, new_interp, sym

LEVEL = 'proof'
EXPLANATION = (
    'Each law is an equality of two expressions built by abstractly interpreting the AST of the '
    'repo functions named in the obligation over symbolic inputs; both sides are reduced to a '
    'canonical rational-function normal form (exact Fraction coefficients) and compared. Equal '
    'normal forms = the identity holds for all real inputs, not only lattice points.')
TRUSTED = ['python ast', 'braxlint.avn polynomial normal form (ring axioms, sqrt(p)^2=p)',
           'semantics table of ~60 jax.numpy primitives (dot, cross, array, @, ...)']
ASSUMPTIONS = ['jax.numpy primitives behave as their numpy counterparts on the shapes used',
               'quat_to_euler (inverse trig) is not decided; from_to is decided in homogeneous form (L14)']


def laws(I):
  """Yield (group, key, anchor qname, thunk -> (lhs, rhs))."""
  do = lambda t, o: I.apply(fn(B, 'Transform.do'), [t, o], {})
  inv_do = lambda t, o: I.apply(fn(B, 'Transform.inv_do'), [t, o], {})
  to_local = lambda a, t: I.apply(fn(B, 'Transform.to_local'), [a, t], {})
  dot = lambda m, f: I.apply(fn(B, 'Motion.dot'), [m, f], {})
  cross = lambda a_, b_: I.apply(fn(B, 'Motion.cross'), [a_, b_], {})
  rot = lambda v, q: I.apply(fn(MA, 'rotate'), [v, q], {})
  inv_rot = lambda v, q: I.apply(fn(MA, 'inv_rotate'), [v, q], {})
  qmul = lambda p, q: I.apply(fn(MA, 'quat_mul'), [p, q], {})
  qinv = lambda q: I.apply(fn(MA, 'quat_inv'), [q], {})
  q33 = lambda q: I.apply(fn(MA, 'quat_to_3x3'), [q], {})
  qra = lambda ax, th: I.apply(fn(MA, 'quat_rot_axis'), [asarr(ax), th], {})
  smap = I.struct_map

  a, b, c = T('a'), T('b'), T('c')
  m, m2, f = M('m'), M('n'), M('f', cls='Force')
  v = symarr('v', (3,))
  q, p = a.f['rot'], b.f['rot']
  n2 = np.dot(q, q)
  zero = I.apply(I.attr(ClsRef(B, load(B)['classes']['Transform']), 'zero'), [], {})
  one = asarr([1, 0, 0, 0])

  yield 'L1', 'assoc (a.b).c = a.(b.c)', 'brax.base.Transform.do', lambda: (do(do(a, b), c), do(a, do(b, c)))
  yield 'L1', 'identity zero.t = t', 'brax.base.Transform.zero', lambda: (do(zero, a), a)
  yield 'L1', 'identity t.zero = t', 'brax.base.Transform.zero', lambda: (do(a, zero), a)
  yield 'L1', 'create(pos) has identity rotation', 'brax.base.Transform.create', lambda: (
      I.apply(I.attr(ClsRef(B, load(B)['classes']['Transform']), 'create'), [], {'pos': a.f['pos']}),
      Struct('Transform', {'pos': a.f['pos'], 'rot': one}))
  yield 'L1', 'create(rot) has zero position', 'brax.base.Transform.create', lambda: (
      I.apply(I.attr(ClsRef(B, load(B)['classes']['Transform']), 'create'), [], {'rot': q}),
      Struct('Transform', {'pos': P_zeros((3,)), 'rot': q}))
  yield 'L2', '(t.b).to_local(t) = (|q|^4 b.pos, |q|^2 b.rot)', 'brax.base.Transform.to_local', lambda: (
      to_local(do(a, b), a),
      Struct('Transform', {'pos': b.f['pos'] * (n2 * n2), 'rot': b.f['rot'] * n2}))
  yield 'L3', 'rotate(v, p*q) = rotate(rotate(v,q),p)', 'brax.math.rotate', lambda: (
      rot(v, qmul(p, q)), rot(rot(v, q), p))
  yield 'L4', 'quat_to_3x3(q) v |q|^2 = rotate(v,q)', 'brax.math.quat_to_3x3', lambda: (
      np.dot(q33(q), v) * n2, rot(v, q))
  yield 'L4', 'inv_rotate(rotate(v,q),q) = |q|^4 v', 'brax.math.inv_rotate', lambda: (
      inv_rot(rot(v, q), q), v * (n2 * n2))
  yield 'L5', '|p*q|^2 = |p|^2 |q|^2', 'brax.math.quat_mul', lambda: (
      np.dot(qmul(p, q), qmul(p, q)), np.dot(p, p) * np.dot(q, q))
  yield 'L5', 'q * q^-1 = (|q|^2,0,0,0)', 'brax.math.quat_inv', lambda: (
      qmul(q, qinv(q)), one * n2)
  yield 'L5', 'q^-1 * q = (|q|^2,0,0,0)', 'brax.math.quat_inv', lambda: (
      qmul(qinv(q), q), one * n2)
  yield 'L6', 'power: t.do(m).f = m.t.do(f)', 'brax.base._transform_do', lambda: (
      dot(do(a, m), f), dot(m, do(a, f)))
  yield 'L6', 't.inv_do(t.do(m)) = |q|^4 m', 'brax.base._transform_inv_do', lambda: (
      inv_do(a, do(a, m)), smap(lambda x: x * (n2 * n2), m))
  yield 'L6', 't.do(t.inv_do(m)) = |q|^4 m', 'brax.base._transform_inv_do', lambda: (
      do(a, inv_do(a, m)), smap(lambda x: x * (n2 * n2), m))

  def ke():
    Isym = symarr('I', (3, 3))
    Isym = Isym + Isym.T
    mass = sym('mass')
    it = Struct('Inertia', {'transform': zero, 'i': Isym, 'mass': mass})
    t = T('t')
    it2 = do(t, it)
    mo = M('u')
    lhs = dot(mo, I.apply(fn(B, 'Inertia.mul'), [it2, mo], {}))
    R = q33(t.f['rot'])
    vcom = mo.f['vel'] + P_cross(mo.f['ang'], t.f['pos'])
    rhs = mass * np.dot(vcom, vcom) + np.dot(mo.f['ang'], np.dot(np.dot(np.dot(R, Isym), R.T), mo.f['ang']))
    return lhs, rhs
  yield 'L7', 'kinetic energy preserved by t.do(Inertia)', 'brax.base.Inertia.mul', ke

  yield 'L8', 'm x n = -(n x m)', 'brax.base._motion_cross', lambda: (
      cross(m, m2), smap(lambda x: -x, cross(m2, m)))
  yield 'L8', 'm x m = 0', 'brax.base._motion_cross', lambda: (
      cross(m, m), Struct('Motion', {'ang': P_zeros((3,)), 'vel': P_zeros((3,))}))
  yield 'L8', 'duality n.(m x* f) = -f.(m x n)', 'brax.base._motion_cross', lambda: (
      dot(m2, cross(m, f)),
      -(np.dot(f.f['ang'], cross(m, m2).f['ang']) + np.dot(f.f['vel'], cross(m, m2).f['vel'])))
  yield 'L9', 'vec_quat_mul(u,v) = quat_mul((0,u),v)', 'brax.math.vec_quat_mul', lambda: (
      I.apply(fn(MA, 'vec_quat_mul'), [v, q], {}),
      qmul(I.apply(fn(MA, 'ang_to_quat'), [v], {}), q))
  yield 'L9', 'relative_quat(a,b)*a = |a|^2 b', 'brax.math.relative_quat', lambda: (
      qmul(I.apply(fn(MA, 'relative_quat'), [q, p], {}), q), p * n2)

  def euler():
    e = symarr('e', (3,))
    lhs = I.apply(fn(MA, 'euler_to_quat'), [e], {})
    d2r = avn.PI / 180
    rhs = qmul(qmul(qra([1, 0, 0], e[0] * d2r), qra([0, 1, 0], e[1] * d2r)), qra([0, 0, 1], e[2] * d2r))
    return lhs, rhs
  yield 'L10', 'euler_to_quat(v) = Rx(v0) Ry(v1) Rz(v2)', 'brax.math.euler_to_quat', euler

  def euler_inverse():
    # the inverse conversion reads the Tait-Bryan x-y'-z'' angles off the rotation matrix of q (columns = brax's own
    # rotate of the basis vectors, homogeneous of degree 2 like the formula): R = Rx(a) Ry(b) Rz(c) has R02 = sin b,
    # R12 = -sin a cos b, R22 = cos a cos b, R01 = -cos b sin c, R00 = cos b cos c.  The only value-changing guard allowed
    # is the clip of the sine to [-1, 1] (no-op on rotations): other bounds move the pitch near +-90 degrees by ~1e-4 rad
    got = I.apply(fn(MA, 'quat_to_euler'), [q], {})
    cols = [rot(asarr([Rat.lift(int(i == k)) for i in range(3)]), q) for k in range(3)]
    R = lambda i, k: cols[k][i]
    J = avn.JNP
    one = asarr(Rat.lift(1))
    want = asarr([J['arctan2'](-R(1, 2), R(2, 2)), J['arcsin'](J['clip'](R(0, 2), -one, one)), J['arctan2'](-R(0, 1), R(0, 0))])
    return got, want
  yield 'L10', 'quat_to_euler(q) = angles of R(q) = Rx Ry Rz (sine clipped to [-1, 1] only)', 'brax.math.quat_to_euler', euler_inverse

  def qra_unit():
    ax, th = symarr('s', (3,)), sym('th')
    r = qra(ax, th)
    c_, s_ = uf('cos', th / 2), uf('sin', th / 2)
    return r, asarr([c_, ax[0] * s_, ax[1] * s_, ax[2] * s_])
  yield 'L10', 'quat_rot_axis(s,th) = (cos th/2, s sin th/2)', 'brax.math.quat_rot_axis', qra_unit

  def qra_rot_fixes_axis():
    # rotate(s, qra(s, th)) * 1 == s * (c^2 + s^2 |s|^2 ... ) homogeneous: R(q) s = |q|^2 s when q=(c, s*sn)
    ax, th = symarr('s', (3,)), sym('th')
    r = qra(ax, th)
    return rot(ax, r), ax * np.dot(r, r)
  yield 'L10', 'rotation about s fixes s: rotate(s, qra(s,th)) = |q|^2 s', 'brax.math.quat_rot_axis', qra_rot_fixes_axis

  I.generic_branches = True       # the numpy twins are host code: a tolerance / equality test on symbolic data is generic
  yield 'L11', 'rotate_np == rotate', 'brax.math.rotate_np', lambda: (
      I.apply(fn(MA, 'rotate_np'), [v, q], {}), rot(v, q))
  yield 'L11', 'quat_mul_np == quat_mul', 'brax.math.quat_mul_np', lambda: (
      I.apply(fn(MA, 'quat_mul_np'), [q, p], {}), qmul(q, p))
  # the numpy twins are fed host arrays: an INTEGER-typed left operand (identity spelled np.array([1, 0, 0, 0]), a half turn)
  # must not decide the dtype of the product
  def np_twin_int_left():
    one = np.array([1, 0, 0, 0])
    try:
      return I.apply(fn(MA, 'quat_mul_np'), [one, p], {}), p
    except avn.IntegerTruncation as e:
      return asarr([uf('truncated', str(e))] * 4), p
  yield 'L11', 'quat_mul_np(int identity, q) == q (mixed dtypes)', 'brax.math.quat_mul_np', np_twin_int_left
  def np_rot_int_quat():
    half = np.array([0, 1, 0, 0])
    try:
      return I.apply(fn(MA, 'rotate_np'), [v, half], {}), rot(v, asarr([Rat.lift(x) for x in (0, 1, 0, 0)]))
    except avn.IntegerTruncation as e:
      return asarr([uf('truncated', str(e))] * 3), v
  yield 'L11', 'rotate_np(v, int half turn) == rotate (mixed dtypes)', 'brax.math.rotate_np', np_rot_int_quat
  def mjcf_twin():
    # the MJCF-side composition reads a quat attribute as MuJoCo does (normalised): equal to Transform.do for unit
    # quaternions, and to its normalised reading in general (decided with sqrt(x)^2 = x by random interpretation)
    from braxlint.props import c13
    ok, why = c13.transform_do_law(type('U', (), {'repo': avn.REPO[0], 'func': None}))
    return (np.array([Rat.lift(0 if ok else 1)], dtype=object), np.array([Rat.lift(0)], dtype=object))
  yield 'L11', 'mjcf._transform_do == Transform.do (quat attributes read normalised)', 'brax.io.mjcf._transform_do', mjcf_twin

  def com_rt():
    sysd = Struct('System', {'link': Struct('Link', {'inertia': Struct('Inertia', {
        'transform': T('c', (2,)), 'i': None, 'mass': None})})})
    x, xd = T('x', (2,)), M('xd', (2,))
    xi, xdi = I.apply(fn('brax.com', 'from_world'), [sysd, x, xd], {})
    x2, xd2 = I.apply(fn('brax.com', 'to_world'), [sysd, xi, xdi], {})
    # homogeneous in the link rotation: x.rot enters only through rotate(), degree 2
    return (x2.f['pos'], xd2), (x.f['pos'], xd)
  yield 'L12', 'com.to_world(com.from_world(x,xd)) = (x.pos, xd)', 'brax.com.to_world', com_rt

  def com_rt_rot():
    sysd = Struct('System', {'link': Struct('Link', {'inertia': Struct('Inertia', {
        'transform': T('c', (2,)), 'i': None, 'mass': None})})})
    x, xd = T('x', (2,)), M('xd', (2,))
    xi, xdi = I.apply(fn('brax.com', 'from_world'), [sysd, x, xd], {})
    x2, xd2 = I.apply(fn('brax.com', 'to_world'), [sysd, xi, xdi], {})
    return x2.f['rot'], x.f['rot']
  yield 'L12', 'com round trip keeps x.rot', 'brax.com.from_world', com_rt_rot

  def inv3():
    mm = symarr('m', (3, 3))
    det = sym('det')
    I.contracts[('jnp', 'det')] = lambda x: det
    r = I.apply(fn(MA, 'inv_3x3'), [mm], {})
    # adjugate identity: inv_3x3(m) * (det + eps) @ m = true_det * I, true det by cofactor expansion
    true_det = (mm[0, 0] * (mm[1, 1] * mm[2, 2] - mm[1, 2] * mm[2, 1])
                - mm[0, 1] * (mm[1, 0] * mm[2, 2] - mm[1, 2] * mm[2, 0])
                + mm[0, 2] * (mm[1, 0] * mm[2, 1] - mm[1, 1] * mm[2, 0]))
    eps = Rat.lift(1e-10)
    lhs = np.dot(r * (det + eps), mm)
    rhs = avn.P_eye(3) * true_det
    return lhs, rhs
  yield 'L13', 'inv_3x3(m) (det+eps) m = det(m) I', 'brax.math.inv_3x3', inv3


def from_to_laws(U, rep, tier):
  """L14: from_to(v1, v2) rotates v1 onto v2 -- homogeneous form rotate(v1, q) = v2 (q.q), so the
  final normalisation needs no square-root axiom.  Generic branch by random interpretation with unit
  vectors by construction; antiparallel branch exactly (constants in Q(sqrt c), sqrt(c)^2 = c) for every
  lattice direction of [-3, 3]^3: the fallback axis must not degenerate on any of them."""
  import itertools
  from math import gcd
  from braxlint import refkin
  f = U.func('brax.math.from_to')
  bad = None
  for seed in range(3):
    avn.field_mode(seed, decide=lambda nm: 0 if nm.kind == 'bool' else None)   # 1 + v1.v2 >= 1e-6
    try:
      I = new_interp(U.repo, contracts=False)
      v1, v2 = refkin.unit_vec('u'), refkin.unit_vec('w')
      q = I.apply(fn(MA, 'from_to'), [v1, v2], {})
      if not same(I.apply(fn(MA, 'rotate'), [v1, q], {}), v2 * np.dot(q, q)):
        bad = seed
    finally:
      avn.exact_mode()
  rep.check(bad is None, 'L14', 'from_to(v1, v2) rotates v1 onto v2 (generic branch)',
            'rotate(v1, from_to(v1, v2)) != v2 for generic unit vectors (random-interpretation trial %s)' % bad, where=f.where(),
            construct='rotate(v1, q) == v2 (q.q) for unit v1, v2 by construction')
  dirs = set()
  for d in itertools.product(range(-3, 4), repeat=3):
    if d == (0, 0, 0):
      continue
    g = gcd(gcd(abs(d[0]), abs(d[1])), abs(d[2]))
    dirs.add(tuple(x // g for x in d))
  if tier == 'quick':
    dirs = {d for d in dirs if max(abs(x) for x in d) <= 2}
  I = new_interp(U.repo, contracts=False)
  badd = None
  for d in sorted(dirs):
    n2 = sum(x * x for x in d)
    r = Rat.lift(1) if n2 == 1 else uf('sqrt', Rat.lift(n2))
    v1 = np.array([Rat.lift(x) / r for x in d], dtype=object)
    try:
      q = I.apply(fn(MA, 'from_to'), [v1, -v1], {})
      ok = same(I.apply(fn(MA, 'rotate'), [v1, q], {}), -v1 * np.dot(q, q)) and not all(Rat.lift(x).is_zero() for x in q)
    except avn.OutOfFragment as e:
      if 'zero' not in str(e):
        raise
      ok = False
    if not ok:
      badd = d
      break
  rep.check(badd is None, 'L14', 'from_to(v, -v): the fallback axis is non-degenerate for every lattice direction',
            'from_to(v, -v) degenerates for v parallel to %r: the fallback reference vector is parallel to a lattice direction, '
            'its projection orthogonal to v vanishes and round-off noise is normalised into an arbitrary rotation' % (badd,),
            where=f.where(), construct='%d primitive directions of [-3,3]^3, exact arithmetic in Q(sqrt c)' % len(dirs))


def run(U, rep, tier):
  from_to_laws(U, rep, tier)
  I = new_interp(U.repo, contracts=False)
  # L13 needs linalg.det opaque
  avn.JNP['linalg']['det'] = lambda x: I.contracts[('jnp', 'det')](x)
  n = 0
  for group, key, anchor, thunk in laws(I):
    n += 1
    where = U.func(anchor).where() if U.has_func(anchor) else None
    if where is None:
      # methods are indexed as module.Class.method
      where = (U.mod(anchor.rsplit('.', 2)[0] if anchor.count('.') > 2 else anchor.rsplit('.', 1)[0]).path, 1, anchor)
    lhs, rhs = thunk()
    if same(lhs, rhs):
      rep.ok(group, key, construct='%s: normal forms coincide' % anchor, where=where)
    else:
      rep.fail(group, key, 'spatial-algebra law broken: ' + diff_report(lhs, rhs), where=where,
               construct=anchor)
  rep.stat('interpreter_calls', I.calls)
  rep.stat('identities', n)
  if n < 25:
    raise avn.AnalysisError('C09: only %d identities instantiated (floor 25)' % n)
