"""C08 -- joint coordinates and world coordinates round-trip.

R8.1 [AVN, law, random interpretation with the axiom sqrt(x)^2 = x] for symbolic models
     inverse(world_to_joint(forward(q, qd))) == (q, qd): positions for free links, single hinge /
     slide joints with arbitrary axes and offset anchors, slide-only stacks and slides followed by one
     hinge (orthogonal axes, either handedness); velocities for free links and single hinges.
     Angles are recovered through arctan2 of (K sin, K cos) with K > 0 inside the Euler chart; the
     middle Euler angle of hinge stacks goes through arccos * sign and is NOT decided.
R8.2 [AVN, provenance with opaque callees] the q, qd that spring / positional pipeline.step (and
     init) report are kinematics.inverse(world_to_joint(x, xd)) of exactly the x, xd stored in the
     same returned state, and the stored j, jd, a_p, a_c are those values.
R8.5 [RI, law] link_to_joint_frame completes every 1- / 2-joint stack to orthonormal frames containing the axes.
R8.4 [interpreter event] no executed exact equality test between a computed real quantity and a nonzero constant.
R8.3 [spec] the scan.py primitives forward / inverse are built on (tree, link_types, _take) meet their
     gather / scatter specification for every topology and index list of the bounded universe
     (shared with C01 R1.2).
"""
import os

import numpy as np

from braxlint import avn, refkin, symsys
from braxlint.avn import Rat, Struct, asarr, fn, same, symarr, uf
from braxlint.avnlib import M, T, new_interp, sym
from braxlint.props.c01 import F, H, S
from braxlint.props.c06 import _joint_contracts
from braxlint.universe import AnalysisError

LEVEL = 'other'
EXPLANATION = (
    'Static law check: forward, world_to_joint and inverse (with link_to_joint_frame, '
    'axis_angle_ang, orthogonals, scan.py) are abstractly interpreted from their AST on symbolic '
    'models and composed; the composition returns the input joint positions (and velocities where '
    'claimed) as an identity decided by random interpretation in GF(p) with unit quaternions / axes '
    'by construction, modular square roots (sqrt(x)^2 = x) and angles recovered from proportional '
    '(sin, cos) pairs.  The pipelines\' reported joint coordinates are shown, with the kinematics '
    'functions opaque, to be the inverse image of the link poses stored in the same state.')
TRUSTED = ['python ast', 'AVN interpreter', 'arctan2(K sin t, K cos t) = t for K > 0 (inside the Euler chart)',
           'modular square root as the positive norm']
ASSUMPTIONS = ['the middle Euler angle of 2-3 hinge stacks (arccos * sign) is not decided',
               'velocity round trip of prismatic / stacked joints is the documented upstream limitation']

K = 'brax.kinematics'
CASES = [
    ('free root + hinge child + slide child', [dict(parent=-1, joints=F), dict(parent=0, joints=H), dict(parent=0, joints=S)], 'fh'),
    ('chain hinge - slide - hinge (offset anchors)', [dict(parent=-1, joints=H), dict(parent=0, joints=S), dict(parent=1, joints=H)], 'h'),
    ('slide stacks: ss root, sss child', [dict(parent=-1, joints=('s', 's')), dict(parent=0, joints=('s', 's', 's'))], ''),
    ('slide root listed before a free root with a hinge child', [dict(parent=-1, joints=S), dict(parent=-1, joints=F), dict(parent=1, joints=H)], 'fh'),
    ('planar robot: slide, slide, hinge root with hinge child', [dict(parent=-1, joints=('s', 's', 'h')), dict(parent=0, joints=H)], 'h1'),
]


def round_trip(U, links, left_handed, seed0, max_tries=400, ortho=True):
  for t in range(max_tries):
    avn.field_mode(seed0 * 100003 + t, decide=lambda nm: 1 if nm.kind == 'any' else None)
    avn.FIELD['sqrt_axiom'] = True
    try:
      I = new_interp(U.repo)
      Mdl = refkin.Model(links, anchors_zero=False, ortho_stacks=ortho, left_handed=left_handed)
      sysd = Mdl.brax_system()
      x, xd = I.apply(fn(K, 'forward'), [sysd, Mdl.q, Mdl.qd], {})
      j, jd, a_p, a_c = I.apply(fn(K, 'world_to_joint'), [sysd, x, xd], {})
      q2, qd2 = I.apply(fn(K, 'inverse'), [sysd, j, jd], {})
      okq = [Rat.lift(a).same(b) or Rat.lift(a).same(-Rat.lift(b)) if i in Mdl.free_q_idx() else Rat.lift(a).same(b)
             for i, (a, b) in enumerate(zip(q2, Mdl.q))]
      okqd = [Rat.lift(a).same(b) for a, b in zip(qd2, Mdl.qd)]
      return Mdl, okq, okqd, t
    except avn.NonResidue:
      continue
    finally:
      avn.exact_mode()
  raise AnalysisError('C08: no random point with all square-root arguments quadratic residues in %d tries' % max_tries)


def r8_1(U, rep, tier):
  f = U.func(K + '.inverse')
  s0 = int(os.environ.get('VERIF_SEED', '0') or 0)
  for name, links, vel in CASES:
    # left-handed stacks: always for the slide-only stacks (cheap; a frame completed by a cross product has a
    # handedness), for every case in the thorough tier
    for lh in ((False, True) if (tier != 'quick' or name.startswith('slide stacks')) else (False,)):
      bad = None
      for trial in range(2 if tier == 'quick' else 5):
        Mdl, okq, okqd, _ = round_trip(U, links, lh, s0 * 10 + trial)
        badq = [i for i, v in enumerate(okq) if not v]
        # velocities claimed for free links and single-hinge links only
        claim = []
        for d, (i, k) in enumerate(Mdl.dofs):
          single = len(links[i]['joints']) == 1
          if k == 'f' or (k == 'h' and single):
            claim.append(d)
        badqd = [d for d in claim if not okqd[d]]
        if badq or badqd:
          bad = (trial, badq, badqd)
          break
      rep.check(bad is None, 'R8.1', '%s%s' % (name, ' (left-handed stacks)' if lh else ''),
                lambda: 'joint coordinates do not round-trip through world coordinates: q indices %s, qd indices %s '
                '(random-interpretation trial %d)' % (bad[1], bad[2], bad[0]), where=f.where(),
                construct='inverse(world_to_joint(forward(q, qd))) == (q, qd)')


def r8_2(U, rep, entries=('step', 'init')):
  for backend in ('spring', 'positional'):
    for entry in entries:
      f = U.func('brax.%s.pipeline.%s' % (backend, entry))
      avn.field_mode(7)
      try:
        I = new_interp(U.repo)
        _joint_contracts(I)
        n = 2
        nq, nv = 2, 2
        sysd = symsys.system('11', (-1, 0), nq=nq, nv=nv, nu=0, vel_damping=0, ang_damping=0, mj_model=None)
        sysd.f['dof'] = Struct('DoF', {'motion': Struct('Motion', {'ang': symarr('da', (nv, 3)), 'vel': symarr('dv', (nv, 3))},
                                                    home='brax.base'), 'limit': None})
        sysd.f['actuator'] = Struct('Actuator', {})
        st = symsys.state_maxcoord(n, q=symarr('q', (nq,)), qd=symarr('qd', (nv,)))
        I.contracts[('brax.contact', 'get')] = lambda s, x: None
        I.contracts[('brax.com', 'inv_inertia')] = lambda s, x: symarr('Iinv', (n, 3, 3))
        def tag(name, shape, *args):
          out = np.empty(shape, dtype=object)
          for idx in np.ndindex(*shape):
            out[idx] = uf(name, idx, *[asarr(a) for a in args])
          return out
        def w2j(s, x, xd):
          a = (x.f['pos'], x.f['rot'], xd.f['ang'], xd.f['vel'])
          return (Struct('Transform', {'pos': tag('jp', (n, 3), *a), 'rot': tag('jr', (n, 4), *a)}, home='brax.base'),
                  Struct('Motion', {'ang': tag('jda', (n, 3), *a), 'vel': tag('jdv', (n, 3), *a)}, home='brax.base'),
                  Struct('Transform', {'pos': tag('app', (n, 3), *a), 'rot': tag('apr', (n, 4), *a)}, home='brax.base'),
                  Struct('Transform', {'pos': tag('acp', (n, 3), *a), 'rot': tag('acr', (n, 4), *a)}, home='brax.base'))
        def inv(s, j, jd):
          a = (j.f['pos'], j.f['rot'], jd.f['ang'], jd.f['vel'])
          return tag('invq', (nq,), *a), tag('invqd', (nv,), *a)
        def fwd(s, q, qd):
          a = (q, qd)
          return (Struct('Transform', {'pos': tag('fxp', (n, 3), *a), 'rot': tag('fxr', (n, 4), *a)}, home='brax.base'),
                  Struct('Motion', {'ang': tag('fxa', (n, 3), *a), 'vel': tag('fxv', (n, 3), *a)}, home='brax.base'))
        I.contracts[(K, 'world_to_joint')] = w2j
        I.contracts[(K, 'inverse')] = inv
        I.contracts[(K, 'forward')] = fwd
        if entry == 'step':
          out = I.apply(fn('brax.%s.pipeline' % backend, 'step'), [sysd, st, symarr('u', (0,))], {})
          j, jd, a_p, a_c = w2j(sysd, out.f['x'], out.f['xd'])
          q, qd = inv(sysd, j, jd)
          ok = same(out.f['q'], q) and same(out.f['qd'], qd)
          what = 'q, qd = inverse(world_to_joint(x, xd)) of the returned x, xd'
        else:
          out = I.apply(fn('brax.%s.pipeline' % backend, 'init'), [sysd, st.f['q'], st.f['qd']], {})
          x, xd = fwd(sysd, st.f['q'], st.f['qd'])
          j, jd, a_p, a_c = w2j(sysd, x, xd)
          ok = same(out.f['q'], st.f['q']) and same(out.f['qd'], st.f['qd']) and same(out.f['x'].f['pos'], x.f['pos']) \
              and same(out.f['x'].f['rot'], x.f['rot']) and same(out.f['xd'].f['vel'], xd.f['vel'])
          what = 'x, xd = forward(q, qd) of the stored q, qd'
        ok = ok and same(out.f['j'].f['pos'], j.f['pos']) and same(out.f['j'].f['rot'], j.f['rot']) \
            and same(out.f['jd'].f['ang'], jd.f['ang']) and same(out.f['a_p'].f['pos'], a_p.f['pos']) \
            and same(out.f['a_c'].f['rot'], a_c.f['rot'])
        rep.check(ok, 'R8.2', '%s.pipeline.%s: reported joint coordinates are the inverse image of the reported link poses' % (backend, entry),
                  'the state returned by %s.%s does not satisfy: %s (and j, jd, a_p, a_c from the same world_to_joint call)' % (
                      backend, entry, what), where=f.where(), construct=what)
      finally:
        avn.exact_mode()


def frame_completion(U, rep):
  """R8.5 [RI, law]: kinematics.link_to_joint_frame completes every 1- and 2-joint stack (each hinge / slide pattern,
  orthonormal axes by construction) to an ORTHONORMAL angular frame and an orthonormal translational frame that contain
  the given axes at their dof positions -- inverse() reads the joint coordinates off as projections onto these frames (the
  2-joint slide-then-hinge stack reads its hinge angle through arccos * sign, which R8.1 cannot decide; its frame can)."""
  f = U.func(K + '.link_to_joint_frame')
  for pat in ('r', 'p', 'rr', 'rp', 'pr', 'pp'):
    bad = None
    for t in range(60):
      avn.field_mode(900 + t, decide=lambda nm: 1 if nm.kind == 'any' else None)
      avn.FIELD['sqrt_axiom'] = True
      try:
        I = new_interp(U.repo)
        qv = refkin.unit_quat('tq')
        R = [refkin.rot(np.array([Rat.lift(int(i == k)) for i in range(3)], dtype=object), qv) for k in range(3)]
        z = np.array([Rat.lift(0)] * 3, dtype=object)
        ang = np.stack([R[k] if c == 'r' else z for k, c in enumerate(pat)])
        vel = np.stack([R[k] if c == 'p' else z for k, c in enumerate(pat)])
        m = Struct('Motion', {'ang': ang, 'vel': vel}, home='brax.base')
        fr, _ = I.apply(fn(K, 'link_to_joint_frame'), [m], {})
        A, V = asarr(fr.f['ang']), asarr(fr.f['vel'])
        ortho = lambda X: all(Rat.lift(X.dot(X.T)[i, j]).same(int(i == j)) for i in range(3) for j in range(3))
        if not ortho(A):
          bad = 'the angular frame is not orthonormal'
        elif not ortho(V):
          bad = 'the translational frame is not orthonormal'
        elif not (all(same(A[k], R[k]) for k, c in enumerate(pat) if c == 'r') and all(same(V[k], R[k]) for k, c in enumerate(pat) if c == 'p')):
          bad = 'the frames do not contain the joint axes at their dof positions'
        break
      except avn.NonResidue:
        continue
      finally:
        avn.exact_mode()
    else:
      raise AnalysisError('R8.5: no random point with all square-root arguments quadratic residues')
    rep.check(bad is None, 'R8.5', 'link_to_joint_frame completes the stack %r to orthonormal frames' % pat.replace('r', 'h').replace('p', 's'),
              'for a %s stack %s' % (' then '.join('hinge' if c == 'r' else 'slide' for c in pat), bad), where=f.where(),
              construct='orthonormal axes by construction; ang / vel frames orthonormal and containing the axes')


def run(U, rep, tier):
  del avn.FRAGILE_EQ[:]
  frame_completion(U, rep)
  r8_1(U, rep, tier)
  r8_2(U, rep)
  # the 2- and 3-hinge stacks (middle Euler angle through arccos * sign: positions NOT decided) are still EXECUTED, both
  # handednesses, so that the decisions taken on the way are seen by R8.4
  # -- with GENERAL stacked axes: a quantity that is exactly +-1 only for orthonormal axes (a triple product) then has a
  # generic image, which is how "computed, not discrete" is told apart in the field
  for links in ([dict(parent=-1, joints=F), dict(parent=0, joints=('h', 'h', 'h'))], [dict(parent=-1, joints=('h', 'h'))],
                [dict(parent=-1, joints=('s', 's', 'h'))]):
    for lh, ortho in ((False, False), (True, True)):
      try:
        round_trip(U, links, lh, 977, max_tries=60, ortho=ortho)
      except (AnalysisError, avn.OutOfFragment):
        pass
  # R8.4: the round trip holds for "either handedness" and arbitrary orthogonal axes only if no decision on the way is an
  # EXACT equality test between a computed real quantity and a nonzero constant (a triple product of non-axis-aligned unit
  # vectors is -0.99999994, not -1): the interpreter records every such test it executes
  seen = sorted(set(avn.FRAGILE_EQ))
  f = U.func(K + '.inverse')
  rep.check(not seen, 'R8.4', 'no exact equality test on a computed real quantity in forward / world_to_joint / inverse',
            lambda: 'an exact floating-point equality decides a branch of the joint <-> world conversion: `%s` (%s:%d); it holds for '
            'axis-aligned frames only' % (seen[0][2], seen[0][0], seen[0][1]), where=f.where(),
            construct='executed `x == c` / `x != c` with c a nonzero constant and x neither a bare symbol nor built from boolean / sign atoms')
  from braxlint.props import c01
  c01.scan_spec(U, rep, tier, rule='R8.3')
