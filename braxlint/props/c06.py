"""C06 -- contacts and joint limits are inert until reached; contacts only push.

[AVN + scenario substitution] each consumer of contacts / limits is abstractly interpreted on
symbolic inputs (whole kernel, gate-preserving widening keeps normal forms small); under the
scenario "every contact distance > 0" resp. "every coordinate strictly inside its range" the
boolean gate atoms are decided and the result must coincide with the short path taken when
the model has no contacts / no limits at all (R6.1-R6.3).  [sign] push-only (R6.4).
"""
import ast

import numpy as np

from braxlint import avn, scenario, symsys
from braxlint.avn import P_zeros, Poly, Rat, Struct, asarr, fn, nested_fn, same, symarr, uf
from braxlint.avnlib import M, T, diff_report, new_interp, sym
from braxlint.universe import AnalysisError

LEVEL = 'other'
EXPLANATION = (
    'Static equivalence by algebraic value numbering with scenario substitution: the contact and '
    'limit consumers of all three pipelines are abstractly interpreted from their AST on symbolic '
    'states; boolean atoms produced by comparisons are decided by the scenario (all distances > 0 / '
    'coordinates strictly inside their range) and the resulting normal form must equal the normal '
    'form of the path taken when the model has no contact pairs / no limits.  Decides inertness '
    'for all states and models of the instantiated shape (two links, one or two contacts, world '
    'and body-body); a removed, negated or mis-thresholded mask leaves a residual term that is '
    'reported.  Push-only is decided by a sign analysis of the impulse formulas.')
TRUSTED = ['python ast', 'braxlint.avn normal form with gate-preserving widening', 'scenario '
           'substitution of boolean atoms', 'contracts for contact.get / link_to_joint_frame / '
           'axis_angle_ang / point_jacobian / _imp_aref (opaque, fresh symbols)']
ASSUMPTIONS = ['resting height, sink depth and rebound ratio are numeric histories and not decided',
               'inertness of the positional rotational limit inside its range rests on a geometric '
               'identity and is not decided', 'gather / segment_sum uniformity generalises the two-link '
               'instantiation']

SC = 'brax.spring.collisions'
PC = 'brax.positional.collisions'
GC = 'brax.generalized.constraint'
SJ = 'brax.spring.joints'
PJ = 'brax.positional.joints'
K = 'brax.kinematics'
WIDEN = 12


def is_zero(I, v):
  return all(Rat.lift(x).n == Poly() for l in I.leaves(v) for x in asarr(l).ravel())


def residual(I, v, limit=2):
  out = []
  for l in I.leaves(v):
    for x in asarr(l).ravel():
      r = Rat.lift(x)
      if r.n != Poly():
        out.append(repr(r.n)[:160])
        if len(out) >= limit:
          return '; '.join(out)
  return '; '.join(out)


def interp(U):
  I = new_interp(U.repo)
  I.widen_at = WIDEN
  scenario.WIDEN[0] = WIDEN
  return I


import contextlib
import os


@contextlib.contextmanager
def fieldrun(seed, bool_default=None):
  """Random-interpretation session: values are GF(p) images; the scenario oracle is installed
  with set_scenario() once the symbols it refers to exist."""
  avn.field_mode(seed, bool_default=bool_default)
  try:
    yield
  finally:
    avn.exact_mode()


def set_scenario(dec):
  avn.FIELD['decide'] = dec


def seeds(tier):
  s0 = int(os.environ.get('VERIF_SEED', '0') or 0)
  return [s0 * 1000 + t for t in range(4 if tier == 'quick' else 12)]


SCENES = [('body-body x2', ([0, 0], [1, 1])), ('world-body', ([-1], [0])), ('mixed', ([-1, 0], [1, 1]))]


def trials(rep, tier, rule, key, where, construct, message, body):
  """Run `body()` (returns bool) under several random-interpretation sessions; a single failing
  trial refutes the polynomial identity."""
  bad = None
  # first trial: every gate the scenario leaves undecided is open; second: closed; then random
  for k, sd in enumerate(seeds(tier)):
    with fieldrun(sd, bool_default={0: 1, 1: 0}.get(k)):
      if not body():
        bad = sd
        break
  rep.check(bad is None, rule, key, message + ('' if bad is None else ' (random-interpretation trial seed %d)' % bad),
            where=where, construct=construct + '  [%d GF(p) trials]' % len(seeds(tier)))


def contacts(U, rep, tier):
  scenes = SCENES if tier == 'thorough' else SCENES[:2]
  for name, lidx in scenes:
    def spring():
      I = new_interp(U.repo)
      c = symsys.contact(lidx)
      sysd, st = symsys.system('11', (-1, 0)), symsys.state_maxcoord(2)
      set_scenario(scenario.positive_symbols([Rat.lift(d).key() for d in c.f['dist']]))
      I.contracts[('brax.contact', 'get')] = lambda s, x: c
      long_ = I.apply(fn(SC, 'resolve'), [sysd, st], {})
      I.contracts[('brax.contact', 'get')] = lambda s, x: None
      return same(long_, I.apply(fn(SC, 'resolve'), [sysd, st], {}))
    trials(rep, tier, 'R6.1', 'spring.collisions.resolve inert when dist > 0 [%s]' % name, U.func(SC + '.resolve').where(),
           'resolve(contact | dist>0) == resolve(no contact)',
           'separated contacts still change velocities in the spring pipeline', spring)

    def pos_position():
      I = new_interp(U.repo)
      c = symsys.contact(lidx)
      sysd, st, xprev = symsys.system('11', (-1, 0)), symsys.state_maxcoord(2), T('xp', (2,))
      set_scenario(scenario.positive_symbols([Rat.lift(d).key() for d in c.f['dist']]))
      long_ = I.apply(fn(PC, 'resolve_position'), [sysd, st, xprev, c], {})
      short = I.apply(fn(PC, 'resolve_position'), [sysd, st, xprev, None], {})
      return isinstance(long_, tuple) and len(long_) == 2 and same(long_[0], short[0]) and is_zero(I, long_[1])
    trials(rep, tier, 'R6.1', 'positional.resolve_position inert when dist > 0 [%s]' % name,
           U.func(PC + '.resolve_position').where(), 'resolve_position(contact | dist>0) == resolve_position(None)',
           'separated contacts still move links (or the two paths normalise differently)', pos_position)

    def pos_velocity():
      I = new_interp(U.repo)
      c = symsys.contact(lidx)
      sysd, st = symsys.system('11', (-1, 0)), symsys.state_maxcoord(2)
      xdprev, dl = M('xdp', (2,)), symarr('dl', (len(lidx[0]),))
      set_scenario(scenario.positive_symbols([Rat.lift(d).key() for d in c.f['dist']]))
      long_ = I.apply(fn(PC, 'resolve_velocity'), [sysd, st, xdprev, c, dl], {})
      return same(long_, I.apply(fn(PC, 'resolve_velocity'), [sysd, st, xdprev, None, dl], {}))
    trials(rep, tier, 'R6.1', 'positional.resolve_velocity inert when dist > 0 [%s]' % name,
           U.func(PC + '.resolve_velocity').where(), 'resolve_velocity(contact | dist>0) == resolve_velocity(None)',
           'separated contacts still change velocities in the positional pipeline', pos_velocity)

    def gen_rows():
      I = new_interp(U.repo)
      c = symsys.contact(lidx)
      nv = 2
      sysd = symsys.system('11', (-1, 0))
      stg = Struct('State', {'x': T('x', (2,)), 'root_com': symarr('rc', (2, 3)), 'cdof': M('cdof', (nv,)),
                             'qd': symarr('qd', (nv,))})
      set_scenario(scenario.positive_symbols([Rat.lift(d).key() for d in c.f['dist']]))
      I.contracts[('brax.contact', 'get')] = lambda s, x: c
      cnt = [0]
      def pj(sys_, com, cdof, pos, link_idx):
        cnt[0] += 1
        return M('pj%d_' % cnt[0], (nv,))
      def imp_aref(params, pos, vel):
        k = cnt[0] = cnt[0] + 1
        return symarr('imp%d_' % k, asarr(pos).shape), symarr('aref%d_' % k, asarr(pos).shape)
      I.contracts[(GC, 'point_jacobian')] = pj
      I.contracts[(GC, '_imp_aref')] = imp_aref
      rows = I.apply(fn(GC, 'jac_contact'), [sysd, stg], {})
      return isinstance(rows, tuple) and len(rows) == 3 and is_zero(I, rows)
    trials(rep, tier, 'R6.1', 'generalized.jac_contact rows vanish when dist > 0 [%s]' % name,
           U.func(GC + '.jac_contact').where(), '(jac, diag, aref) * [dist < 0]',
           'constraint rows of separated contacts are not masked', gen_rows)


def _joint_contracts(I):
  def ltjf(motion):
    return Struct('Motion', {'ang': symarr('jfa', (3, 3)), 'vel': symarr('jfv', (3, 3))}), sym('parity')
  def aaa(j, joint_motion, parity=1.0):
    return ((symarr('ax0_', (3,)), symarr('ax1_', (3,)), symarr('ax2_', (3,))),
            (sym('psi'), sym('theta'), sym('phi')), (symarr('lon', (3,)), symarr('a1p', (3,))))
  I.contracts[(K, 'link_to_joint_frame')] = ltjf
  I.contracts[(K, 'axis_angle_ang')] = aaa


def inside_range(lo, hi, coords=None):
  """decide(): every compared coordinate is strictly inside (lo_k, hi_k); comparisons with +-inf."""
  lo_k = {Rat.lift(x).key() for x in asarr(lo).ravel()}
  hi_k = {Rat.lift(x).key() for x in asarr(hi).ravel()}
  ck = None if coords is None else {Rat.lift(x).key() for x in coords}
  def is_inf(k, sign):
    return isinstance(k, tuple) and len(k) == 2 and k[0] == 'p' and len(k[1]) == 1 and k[1][0][0] and \
        isinstance(k[1][0][0][0][0], avn.Atom) and k[1][0][0][0][0].kind == 'lit' and \
        (k[1][0][1] > 0) == (sign > 0) and k[1][0][0][0][0].key[1] in ("inf", "-inf")
  def decide(nm):
    if not avn._is_bool_name(nm) or nm[1] != '<':
      return None
    a, b = nm[2], nm[3]
    if b in lo_k and (ck is None or a in ck):
      return 0       # x < lo
    if a in hi_k and (ck is None or b in ck):
      return 0       # hi < x
    if a in lo_k and (ck is None or b in ck):
      return 1       # lo < x
    if b in hi_k and (ck is None or a in ck):
      return 1       # x < hi
    return None
  return decide


def _spring_kernel(I, fname, ndof, lk, j, jd, dof, tau):
  """The per-joint spring force of ONE link: the kernel called directly when it has the (link, j, jd, dof, tau) signature,
  otherwise through spring.joints.resolve's own per-type dispatcher (its nested j_fn, obtained by interpreting resolve up
  to it) on a one-link batch -- however the dispatcher feeds the kernels."""
  f = fn(SJ, fname)
  a = f.node.args
  if len(a.posonlyargs + a.args) == 5 and not a.kwonlyargs:
    return I.apply(f, [lk, j, jd, dof, tau], {})
  batch = lambda st: I.tree_map(('prim', 'lead', lambda v: asarr(v)[None]), st)
  n1 = 1
  sysd = symsys.system(str(ndof), (-1,))
  st = symsys.state_maxcoord(n1)
  j_fn, _ = avn.nested_fn_auto(I, SJ, 'resolve', 'j_fn', {'sys': sysd, 'state': st, 'tau': tau})
  dofb = Struct('DoF', {'motion': dof.f['motion'], 'limit': dof.f['limit']})      # dof-shaped: (ndof, ...) for one link
  out = I.apply(j_fn, [str(ndof), batch(lk), batch(j), batch(jd), dofb, tau], {})
  return I.tree_map(('prim', 'first', lambda v: asarr(v)[0]), out)


def spring_limits(U, rep, tier):
  for fname, ndof in (('_one_dof', 1), ('_two_dof', 2), ('_three_dof', 3)):
    def body():
      I = new_interp(U.repo)
      _joint_contracts(I)
      lk = Struct('Link', {'constraint_stiffness': sym('ks'), 'constraint_vel_damping': sym('kvd'),
                           'constraint_limit_stiffness': sym('kls'), 'constraint_ang_damping': sym('kad')})
      j, jd = T('j'), M('jd')
      motion = Struct('Motion', {'ang': symarr('da', (ndof, 3)), 'vel': symarr('dv', (ndof, 3))})
      lo, hi = symarr('lo', (ndof,)), symarr('hi', (ndof,))
      tau = symarr('tau', (ndof,))
      angles = [sym('psi'), sym('theta'), sym('phi')][:ndof]
      if fname == '_one_dof':
        slides = [np.dot(j.f['pos'], symarr('jfv', (3, 3))[0])]
      else:
        slides = [np.dot(j.f['pos'], motion.f['vel'][k]) for k in range(ndof)]
      set_scenario(inside_range(lo, hi, coords=angles + slides))
      res = {}
      for lim in (True, False):
        dof = Struct('DoF', {'motion': motion, 'limit': (lo, hi) if lim else None})
        res[lim] = _spring_kernel(I, fname, ndof, lk, j, jd, dof, tau)
      return same(res[True], res[False])
    trials(rep, tier, 'R6.2', 'spring.joints.%s: limits inert inside the range' % fname,
           U.func('%s.%s' % (SJ, fname)).where(), '%s(limit | lo<q<hi) == %s(limit=None)' % (fname, fname),
           'joint limits change the joint force although every coordinate is inside its range', body)


def spring_limits_mixed(U, rep, tier):
  """R6.2 on MIXED stacks: a slide dof has a range for its displacement only, a hinge dof for its angle only.  The kernels
  compute an angle and a displacement for EVERY dof of the stack; the one that does not belong to the dof's kind (the
  rotation angle about a slide's axis, the offset along a hinge's axis -- both 0 in a consistent state, hence OUTSIDE a
  range that does not contain 0) must not act: with every belonging coordinate inside its range the force equals the one
  without limits, however the foreign comparisons turn out (they are decided `below the range`)."""
  for fname, pats in (('_two_dof', ('sh', 'hs')), ('_three_dof', ('ssh', 'shh', 'hss', 'hhs', 'shs'))):
    ndof = len(pats[0])
    for pat in pats:
      def body(pat=pat, ndof=ndof, fname=fname):
        I = new_interp(U.repo)
        _joint_contracts(I)
        lk = Struct('Link', {'constraint_stiffness': sym('ks'), 'constraint_vel_damping': sym('kvd'),
                             'constraint_limit_stiffness': sym('kls'), 'constraint_ang_damping': sym('kad')})
        j, jd = T('j'), M('jd')
        ang, vel = symarr('da', (ndof, 3)), symarr('dv', (ndof, 3))
        for k, c in enumerate(pat):
          (ang if c == 's' else vel)[k] = P_zeros((3,))
        motion = Struct('Motion', {'ang': ang, 'vel': vel})
        lo, hi = symarr('lo', (ndof,)), symarr('hi', (ndof,))
        tau = symarr('tau', (ndof,))
        angles = [sym('psi'), sym('theta'), sym('phi')][:ndof]
        slides = [np.dot(j.f['pos'], vel[k]) for k in range(ndof)]
        own = [slides[k] if c == 's' else angles[k] for k, c in enumerate(pat)]
        foreign = {Rat.lift(angles[k] if c == 's' else slides[k]).key() for k, c in enumerate(pat)}
        inside = inside_range(lo, hi, coords=own)
        lo_k = {Rat.lift(x).key() for x in lo}
        hi_k = {Rat.lift(x).key() for x in hi}

        def decide(nm):
          r = inside(nm)
          if r is not None or not avn._is_bool_name(nm) or nm[1] != '<':
            return r
          a, b = nm[2], nm[3]
          if a in foreign and (b in lo_k or b in hi_k):
            return 1        # foreign < lo, foreign < hi: below the range
          if b in foreign and (a in lo_k or a in hi_k):
            return 0
          return None
        set_scenario(decide)
        res = {}
        for lim in (True, False):
          dof = Struct('DoF', {'motion': motion, 'limit': (lo, hi) if lim else None})
          res[lim] = _spring_kernel(I, fname, ndof, lk, j, jd, dof, tau)
        return same(res[True], res[False])
      kinds = ' then '.join('slide' if c == 's' else 'hinge' for c in pat)
      trials(rep, tier, 'R6.2', 'spring.joints.%s [%s]: a limit acts on its own coordinate only' % (fname, kinds),
             U.func('%s.%s' % (SJ, fname)).where(), '%s(limit | own coordinate inside, foreign below) == %s(limit=None)' % (fname, fname),
             'the range of a %s stack acts on a quantity that is not the coordinate of that dof (the rotation angle of a slide / '
             'the offset of a hinge): a limit that is not reached changes the joint force' % kinds, body)


def positional_limits(U, rep, tier):
  """_sphericalize.pad_x_dof + _three_dof_joint_update: limits not reached == no limits."""
  fs = U.func(PJ + '._sphericalize')
  for x, kind in ((1, 'hinge'), (1, 'slide'), (2, 'hinge'), (2, 'slide'), (3, 'hinge'), (3, 'slide')):
    def body():
      I = new_interp(U.repo)
      _joint_contracts(I)
      avn.EXPAND_CLIP[0] = True
      try:
        pad = nested_fn(I, PJ, '_sphericalize', 'pad_x_dof')
        ang = symarr('da', (x, 3)) if kind == 'hinge' else P_zeros((x, 3))
        vel = symarr('dv', (x, 3)) if kind == 'slide' else P_zeros((x, 3))
        motion = Struct('Motion', {'ang': ang, 'vel': vel}, home='brax.base')
        lo, hi = symarr('lo', (x,)), symarr('hi', (x,))
        tr = T('j')
        jf = Struct('Motion', {'ang': symarr('jfa', (3, 3)), 'vel': symarr('jfv', (3, 3))})
        # the symbolic axes are the joint's real (non-zero) axes: any(axis) is true
        any_dec = lambda nm: 1 if nm.kind == 'any' else None
        set_scenario(scenario.chain(inside_range(lo, hi), _inf_decide(), any_dec))
        res = {}
        for lim in (True, False):
          dof = Struct('DoF', {'motion': motion, 'limit': (lo, hi) if lim else None})
          limit, padded = I.apply(pad, [dof, x], {})
          res[lim] = I.apply(fn(PJ, '_three_dof_joint_update'), [tr, limit, padded, jf, sym('parity')], {})
        return same(res[True], res[False])
      finally:
        avn.EXPAND_CLIP[0] = False
    trials(rep, tier, 'R6.3', 'positional joints (%d %s dof): limits not reached == no limits' % (x, kind), fs.where(),
           '_three_dof_joint_update(pad_x_dof(limit) | lo<q<hi) == ...(pad_x_dof(limit=None))',
           'a model without joint limits is updated differently from the same model with (unreached) limits', body)


def _inf_decide():
  """decide() for comparisons with +-inf literals (valid in exact and random-interpretation mode)."""
  pinf, ninf = Rat.lift(float('inf')), Rat.lift(float('-inf'))
  pos = {pinf.key(), (-ninf).key()}
  neg = {ninf.key(), (-pinf).key()}

  def kind(k):
    return 1 if k in pos else (-1 if k in neg else 0)

  def decide(nm):
    if not avn._is_bool_name(nm) or nm[1] != '<':
      return None
    a, b = kind(nm[2]), kind(nm[3])
    if b < 0 or a > 0:
      return 0        # x < -inf, inf < x
    if a < 0 or b > 0:
      return 1        # -inf < x, x < inf
    return None
  return decide


def generalized_limits(U, rep):
  I = interp(U)
  f = U.func(GC + '.jac_limit')
  nv = 2
  lo, hi = symarr('lo', (nv,)), symarr('hi', (nv,))
  q = symarr('q', (nv,))
  sysd = symsys.system('11', (-1, 0), nv=nv, nq=nv, nu=0,
                       dof=Struct('DoF', {'limit': (lo, hi), 'solver_params': symarr('sp', (nv, 7)),
                                          'invweight': symarr('diw', (nv,))}))
  st = Struct('State', {'q': q, 'qd': symarr('qd', (nv,))})
  cnt = [0]
  def imp_aref(params, pos, vel):
    cnt[0] += 1
    return sym('imp%d' % cnt[0]), sym('aref%d' % cnt[0])
  I.contracts[(GC, '_imp_aref')] = imp_aref
  rows = I.apply(fn(GC, 'jac_limit'), [sysd, st], {})
  facts = {}
  for i in range(nv):
    facts[Rat.lift(q[i] - lo[i]).key()] = '+'
    facts[Rat.lift(hi[i] - q[i]).key()] = '+'
  dec = sign_decide(facts)
  got = scenario.subst(rows, dec)
  rep.check(isinstance(got, tuple) and len(got) == 3 and is_zero(I, got), 'R6.2',
            'generalized.jac_limit rows vanish inside the range',
            'limit constraint rows are active although lo < q < hi: residual ' + residual(I, got), where=f.where(),
            construct='(jac, diag, aref) * [min(q-lo, hi-q, 0) < 0]')
  # the same with a free body listed AFTER (and before) the limited joint: q and qd indices of the limited dofs differ
  # by one per preceding free joint, wherever the free links are listed
  for types, parents in (('1f', (-1, -1)), ('f1', (-1, 0)), ('1f1', (-1, -1, 1))):
    I2 = interp(U)
    cnt2 = [0]
    def imp_aref2(params, pos, vel):
      cnt2[0] += 1
      return sym('imp%d' % cnt2[0]), sym('aref%d' % cnt2[0])
    I2.contracts[(GC, '_imp_aref')] = imp_aref2
    nq2 = sum(7 if t == 'f' else 1 for t in types)
    nv2 = sum(6 if t == 'f' else 1 for t in types)
    free_d = [t == 'f' for t in types for _ in range(6 if t == 'f' else 1)]
    lo2 = np.array([Rat.lift(float('-inf')) if fr else sym('lo%d' % d) for d, fr in enumerate(free_d)], dtype=object)
    hi2 = np.array([Rat.lift(float('inf')) if fr else sym('hi%d' % d) for d, fr in enumerate(free_d)], dtype=object)
    q2 = symarr('q', (nq2,))
    sys2 = symsys.system(types, parents, nv=nv2, nq=nq2, nu=0,
                         dof=Struct('DoF', {'limit': (lo2, hi2), 'solver_params': symarr('sp', (nv2, 7)),
                                            'invweight': symarr('diw', (nv2,))}))
    st2 = Struct('State', {'q': q2, 'qd': symarr('qd', (nv2,))})
    rows2 = I2.apply(fn(GC, 'jac_limit'), [sys2, st2], {})
    facts2 = {}
    qi = di = 0
    for t in types:
      if t == 'f':
        qi += 7
        di += 6
      else:
        facts2[Rat.lift(q2[qi] - lo2[di]).key()] = '+'
        facts2[Rat.lift(hi2[di] - q2[qi]).key()] = '+'
        qi += 1
        di += 1
    got2 = scenario.subst(rows2, scenario.chain(sign_decide(facts2), _inf_decide()))
    rep.check(isinstance(got2, tuple) and len(got2) == 3 and is_zero(I2, got2), 'R6.2',
              'generalized.jac_limit rows vanish inside the range [link types %s]' % types,
              lambda: 'limit constraint rows are active although every limited coordinate is strictly inside its range (the row reads '
              'another coordinate): residual ' + residual(I2, got2), where=f.where(),
              construct='free and limited links in the order %s: q index != qd index for the limited dofs' % types)
  # no-limit short path returns zero rows
  sys0 = symsys.system('11', (-1, 0), nv=nv, nq=nv, nu=0, dof=Struct('DoF', {'limit': None}))
  r0 = I.apply(fn(GC, 'jac_limit'), [sys0, st], {})
  ok0 = isinstance(r0, tuple) and len(r0) == 3 and all(asarr(a).shape[0] == 0 for a in r0)
  rep.check(ok0, 'R6.3', 'generalized.jac_limit: no limits -> zero rows', 'jac_limit returns rows for a model without limits',
            where=f.where())


def sign_decide(facts):
  """decide() from sign facts {Rat.key(): '+'} with min/max reasoning on uninterpreted atoms."""
  def sign(r):
    r = Rat.lift(r)
    if r.is_const():
      v = r.constval()
      return '+' if v > 0 else ('-' if v < 0 else '0')
    k = r.key()
    if k in facts:
      return facts[k]
    nk = (Rat.lift(0) - r).key()
    if nk in facts:
      return {'+': '-', '-': '+', '0': '0'}[facts[nk]]
    # single atom
    if r.d.is_const() and len(r.n.t) == 1:
      (mono, coef), = r.n.t.items()
      if len(mono) == 1 and mono[0][1] == 1 and isinstance(mono[0][0], avn.Atom):
        at = mono[0][0]
        ent = avn.ATOM_ARGS.get(at)
        if ent and ent[0] in ('min', 'max'):
          sa, sb = sign(ent[1][0]), sign(ent[1][1])
          s = None
          if ent[0] == 'min':
            if sa == '+' and sb == '+': s = '+'
            elif '-' in (sa, sb): s = '-'
            elif sa in ('+', '0') and sb in ('+', '0'): s = '0'
          else:
            if sa == '-' and sb == '-': s = '-'
            elif '+' in (sa, sb): s = '+'
            elif sa in ('-', '0') and sb in ('-', '0'): s = '0'
          if s is not None:
            c = coef / r.d.constval()
            if c < 0:
              s = {'+': '-', '-': '+', '0': '0'}[s]
            return s
    return None
  def decide(nm):
    if not avn._is_bool_name(nm):
      return None
    ent = avn.ATOM_ARGS.get(nm)
    if not ent:
      return None
    op, a, b = ent[1]
    if op == '<':
      s = sign(Rat.lift(b) - Rat.lift(a))
      if s == '+':
        return 1
      if s in ('0', '-'):
        return 0
    return None
  return decide


def _coeff_of(v, atom):
  """Coefficient polynomial of `atom`^1 in each entry of v; None if atom appears with a higher
  power or in a denominator."""
  out = []
  for x in asarr(v).ravel():
    r = Rat.lift(x)
    if not r.d.is_const():
      return None
    t = {}
    for mono, c in r.n.t.items():
      e = dict(mono).get(atom, 0)
      if e > 1:
        return None
      if e == 1:
        t[tuple(y for y in mono if y[0] is not atom)] = c / r.d.constval()
    out.append(Rat(Poly(t)))
  return np.array(out, dtype=object).reshape(asarr(v).shape)


def push_only(U, rep):
  """R6.4: contacts only push."""
  # ---- spring: the normal impulse W acts along -frame[0] on link 1 and only when W > 0
  I = interp(U)
  f = U.func(SC + '.resolve')
  sysd = symsys.system('11', (-1, 0))
  cb = symsys.contact(([0], [1]))
  I.contracts[('brax.contact', 'get')] = lambda s, x: cb
  imp, _ = avn.nested_fn_auto(I, SC, 'resolve', 'impulse', {'sys': sysd, 'state': symsys.state_maxcoord(2)})
  args = [cb, np.array([[0, 1]]), T('xi', (1, 2)), M('xdi', (1, 2)), symarr('Ii', (1, 2, 3, 3)), symarr('im', (1, 2))]
  force, is_c = I.apply(imp, args, {})
  zero_k = Rat.lift(0).key()
  atoms = {nm for x in asarr(is_c).ravel() for mono in Rat.lift(x).n.t for nm, _ in mono if avn._is_bool_name(nm)}
  import itertools
  ok, why = False, 'no `impulse > 0` condition gates the contact'
  fatoms = {nm for l in I.leaves(force) for x in asarr(l).ravel() for mono in Rat.lift(x).n.t for nm, _ in mono
            if avn._is_bool_name(nm)}
  alist = sorted(atoms, key=repr)
  dist_k = Rat.lift(cb.f['dist'][0]).key()
  n = -cb.f['frame'][0][0]
  for bits in itertools.product((1, 0), repeat=len(alist)):
    sigma = dict(zip(alist, bits))
    on = scenario.atoms_false([x for x in fatoms if x not in atoms] + [a for a in alist if not sigma[a]],
                              atoms_one=[a for a in alist if sigma[a]])
    if not same(scenario.subst(is_c, on), avn.P_ones((1,))):
      continue
    # the contact is applied under sigma: one atom must be `0 < W` (true) with W the normal impulse
    for a in alist:
      if not (sigma[a] and a[1] == '<' and a[2] == zero_k and a[3] != dist_k):
        continue
      W = Rat.lift(avn.ATOM_ARGS[a][1][2])
      fv = scenario.subst(force.f['vel'][0], on)
      off = scenario.subst(force, scenario.atoms_false([a]))
      if same(fv, n * W) and is_zero(I, off):
        ok = True
      else:
        why = 'the normal impulse is not `impulse * (-frame[0])` applied only when impulse > 0'
  rep.check(ok, 'R6.4', 'spring: normal impulse pushes along -frame[0] and only when positive', why, where=f.where(),
            construct='f = impulse * (-frame[0]) * [dist<0][normal_vel<0][impulse>0]')
  # ---- positional: dp_p.pos = lambda * (-frame[0]) * mass_inv_0 * scale, dp_c.pos = -(...) mass_inv_1
  I = interp(U)
  f = U.func(PC + '.resolve_position')
  st = symsys.state_maxcoord(2)
  xprev = T('xp', (2,))
  I.contracts[('brax.com', 'inv_inertia')] = lambda s, x: symarr('Ii', (2, 3, 3))
  tr, _ = avn.nested_fn_auto(I, PC, 'resolve_position', 'translate', {'sys': sysd, 'state': st, 'x_i_prev': xprev, 'contact': cb})
  dp_p, dp_c, lam = I.apply(tr, [cb], {})
  k_ = 1 - sysd.f['spring_mass_scale']
  inv_mass = avn.elemwise(lambda a: 1 / (Rat.lift(a) ** k_), sysd.f['link'].f['inertia'].f['mass'])
  # switch the static-friction branch off: it is the only `where` in the kernel
  atoms = {nm for l in I.leaves((dp_p, dp_c)) for x in asarr(l).ravel() for mono in Rat.lift(x).n.t for nm, _ in mono
           if avn._is_bool_name(nm)}
  dist_k = Rat.lift(cb.f['dist'][0]).key()
  gate = [a for a in atoms if a[1] == '<' and a[2] == dist_k and a[3] == zero_k]
  others = [a for a in atoms if a not in gate]
  dec = scenario.atoms_false(others)
  n = -cb.f['frame'][0][0]
  cs = sym('cs')
  p1 = scenario.subst(dp_p.f['pos'][0], dec)
  p2 = scenario.subst(dp_c.f['pos'][0], dec)
  lam0 = Rat.lift(lam[0])
  ok = len(gate) == 1 and same(p1, n * lam0 * inv_mass[0] * cs) and same(p2, -(n * lam0 * inv_mass[1] * cs))
  rep.check(ok, 'R6.4', 'positional: links move by +-lambda * (-frame[0]) * inverse mass',
            'the positional contact correction is not lambda*(-frame[0])*w on link 1 and its negative on link 2',
            where=f.where(), construct='dp_p.pos = dlambda * n * mass_inv[0]; dp_c.pos = -dlambda * n * mass_inv[1]')
  # lambda = -dist / (guarded positive denominator) * [dist < 0]
  from braxlint import guards, pred
  ft = U.func(PC + '.resolve_position.translate')
  sites = [s_ for s_ in guards.sites(U, ft, {}) if s_.kind == 'div']
  lam_ok = False
  for s_ in sites:
    if s_.num is not None and s_.cls == 'GUARDED' and s_.num[0] == 'neg' and pred.show(s_.num[1]).endswith('.dist'):
      lam_ok = True
  if not lam_ok:
    # not in that shape (e.g. multiplied by a reciprocal kept in a temporary): decide the SIGN of the value.  With the
    # penetration gate open, lambda = N / D as polynomials; dist < 0, masses (power atoms) > 0, every other quantity
    # (generalised inverse masses, widened groups of them) >= 0: lambda > 0 iff N and D have the same strict sign.
    def poly_sign(p_):
      pos = neg = strict = False
      for mono, c_ in p_.t.items():
        sg, st_ = (1 if c_ > 0 else -1), True
        for nm, e_ in mono:
          if nm == dist_atom:
            if e_ % 2:
              sg = -sg
          elif isinstance(nm, avn.Atom) and nm.kind == 'pow':
            pass
          elif not mono:
            pass
          else:
            st_ = False            # a non-negative quantity that may vanish
        if sg > 0:
          pos = True
        else:
          neg = True
        strict = strict or st_
      if pos and neg:
        return 0
      return (1 if pos else -1) if strict else 0
    try:
      lam_open = Rat.lift(scenario.subst(lam0, scenario.atoms_false(others, atoms_one=gate)))
      dsym = Rat.lift(cb.f['dist'][0])
      (dmono, _), = dsym.n.t.items()
      dist_atom = dmono[0][0]
      sn, sd = poly_sign(lam_open.n), poly_sign(lam_open.d)
      lam_ok = sn != 0 and sn == sd
    except Exception:  # pylint: disable=broad-except
      lam_ok = False
  rep.check(lam_ok, 'R6.4', 'positional: dlambda = -dist / (w1 + w2 + eps) > 0 when penetrating',
            'dlambda is no longer -dist over a positive guarded denominator (its sign decides push vs pull)',
            where=ft.where())
  # ---- generalized: the constraint solver projects onto x >= 0
  fg = U.func(GC + '.force')
  found = False
  for nnode in ast.walk(fg.node):
    if isinstance(nnode, ast.Call) and ast.unparse(nnode.func).endswith('ProjectedGradient'):
      found = any(ast.unparse(a_).endswith('projection_non_negative') for a_ in nnode.args) or any(
          ast.unparse(k.value).endswith('projection_non_negative') for k in nnode.keywords)
  rep.check(found, 'R6.4', 'generalized: constraint forces projected onto x >= 0',
            'the generalized constraint solver no longer projects forces onto the non-negative orthant', where=fg.where())


def _single_atom(r):
  r = Rat.lift(r)
  if r.d.is_const() and len(r.n.t) == 1:
    (mono, coef), = r.n.t.items()
    if len(mono) == 1 and isinstance(mono[0][0], avn.Atom):
      return mono[0][0]
  return None


def world_immovable(U, rep, tier):
  """R6.4 (push-out magnitude): against the world the correction is that of an immovable body -- the world
  side has zero inverse mass AND zero inverse inertia, so the impulse / lambda of a ground contact is a
  function of the contacting body alone (otherwise resting bodies sink or bounce depending on unrelated links)."""
  from braxlint.props import c10
  c10.no_alias(U, rep, tier, rule='R6.4', key='%s: the world side of a contact is immovable',
               message='the response to a ground contact depends on a link that is not in contact (the world side does '
               'not have zero inverse mass / inertia): push-out too weak or too strong, resting bodies sink')


def _rational(v, p):
  """Rational reconstruction (Wang): the unique n/d with |n|, d < sqrt(p/2) and n = v d (mod p), or None."""
  import math
  bound = math.isqrt(p // 2)
  r0, r1, t0, t1 = p, v % p, 0, 1
  while r1 > bound:
    q = r0 // r1
    r0, r1, t0, t1 = r1, r0 - q * r1, t1, t0 - q * t1
  if t1 == 0 or abs(t1) > bound:
    return None
  from fractions import Fraction
  return Fraction(r1, t1)


def spring_restitution(U, rep, tier):
  """R6.5: the rebound law AT THE CONTACT POINT, on the bodies the state describes.  spring.collisions.resolve is
  executed (random interpretation) for one penetrating, approaching CENTRAL contact (centres of mass on the contact
  normal, as for spheres -- the case the property states) without lateral drag; with the returned
  delta-velocities applied to the links' centre-of-mass motion (x_i, xd_i, i_inv, mass of the SAME state) the normal
  velocity of the contact point satisfies  vn' - vn = c * (-(1 + e) vn - erp/dt * dist)  with ONE state-independent
  constant c within 1e-3 of 1 (the averaging guard 1/(1 + 1e-8))."""
  f = U.func(SC + '.resolve')
  from braxlint.scenario import const_of_key

  def scenario_of(neg):
    """dist < 0 and normal velocity < 0 (penetrating, approaching); every other `0 < x` gate open (impulse > 0);
    lateral speed below the drag threshold."""
    def decide(nm):
      if not isinstance(nm, avn.Atom):
        return None
      if nm.kind in ('allclose', 'all', 'any'):
        return 0
      if nm.kind != 'bool':
        return None
      ca, cb = const_of_key(nm[2]), const_of_key(nm[3])
      if nm[1] == '==':
        return 0
      if nm[1] == '<':
        if nm[2] in neg and cb == 0:
          return 1
        if ca == 0 and nm[3] in neg:
          return 0
        if cb == 0 and ca is None:
          return 0       # some other x < 0
        if ca == 0 and cb is None:
          return 1       # 0 < impulse
        if ca is not None and ca > 0 and cb is None:
          return 0       # |lateral velocity| below the drag threshold
      return None
    return decide

  for name, lidx in (('link against the world', ([-1], [0])), ('world listed second', ([1], [-1])), ('two links', ([0], [1]))):
    consts = set()
    bad = None
    for sd in seeds(tier)[:3]:
      with fieldrun(sd):
        I = new_interp(U.repo)
        c = symsys.contact(lidx)
        sysd, st = symsys.system('11', (-1, 0)), symsys.state_maxcoord(2)
        # the contact normal is a unit vector (by construction: stereographic parametrisation)
        sa, sb = Rat.lift(sym('na')), Rat.lift(sym('nb'))
        den = sa * sa + sb * sb + 1
        fr = asarr(c.f['frame']).copy()
        fr[0][0] = asarr([2 * sa / den, 2 * sb / den, (sa * sa + sb * sb - 1) / den])
        c.f['frame'] = fr
        # CENTRAL contact (a sphere's): each link's centre of mass lies on the line through the contact point along the
        # normal -- the link FRAME origin (state.x) stays an independent symbol (geom offset in the body)
        xi = asarr(st.f['x_i'].f['pos']).copy()
        for k_ in (0, 1):
          xi[k_] = asarr(c.f['pos'])[0] + Rat.lift(sym('rad%d' % k_)) * asarr(fr[0][0])
        st.f['x_i'] = Struct('Transform', dict(st.f['x_i'].f, pos=xi), home='brax.base')
        I.contracts[('brax.contact', 'get')] = lambda s, x: c
        n = -asarr(c.f['frame'])[0][0]
        pos = asarr(c.f['pos'])[0]

        def point_vel(k, vel, ang):
          if k < 0:
            return P_zeros((3,))
          r = pos - asarr(st.f['x_i'].f['pos'])[k]
          return asarr(vel)[k] + np.cross(asarr(ang)[k], r)
        a, b = int(lidx[0][0]), int(lidx[1][0])
        vn = np.dot(n, point_vel(a, st.f['xd_i'].f['vel'], st.f['xd_i'].f['ang']) - point_vel(b, st.f['xd_i'].f['vel'], st.f['xd_i'].f['ang']))
        set_scenario(scenario_of({Rat.lift(vn).key(), Rat.lift(asarr(c.f['dist'])[0]).key()}))
        dv = I.apply(fn(SC, 'resolve'), [sysd, st], {})
        dvn = np.dot(n, point_vel(a, dv.f['vel'], dv.f['ang']) - point_vel(b, dv.f['vel'], dv.f['ang']))
        rhs = -(1 + Rat.lift(asarr(c.f['elasticity'])[0])) * vn - sysd.f['baumgarte_erp'] / sysd.f['opt'].f['timestep'] * asarr(c.f['dist'])[0]
        ratio = Rat.lift(dvn) / Rat.lift(rhs)
        fv = ratio.fv
        if isinstance(fv, avn.Dual):
          fv = fv.a
        q = _rational(fv, avn.FIELD['p'])
        consts.add(q)
    if len(consts) != 1 or None in consts:
      bad = 'the change of the normal velocity at the contact point is not a fixed multiple of -(1 + e) vn - erp/dt dist ' \
            '(the impulse is computed or applied about a point other than the centre of mass the state carries?)'
    else:
      cst = next(iter(consts))
      if abs(cst - 1) > Rat_tol:
        bad = 'the normal velocity at the contact point changes by %s x the rebound law' % float(cst)
    rep.check(bad is None, 'R6.5', 'spring: rebound law at the contact point [%s]' % name, bad or '', where=f.where(),
              construct="n.(v_c' - v_c) = c (-(1 + e) n.v_c - erp/dt dist), c constant, |c - 1| <= 1e-3; one central contact (sphere), link frame != centre of mass, no drag")


from fractions import Fraction as _Fr
Rat_tol = _Fr(1, 1000)


def positional_step_dataflow(U, rep):
  """R6.7 [AVN, opaque callees]: the positional restitution acts on the IMPACT velocity.  positional.pipeline.step is
  interpreted with its kernels opaque (tagged uninterpreted results); collisions.resolve_velocity must receive
    - as `xd_i_prev` the velocity returned by integrate_xdd (before the PBD projection project_xd overwrites it),
    - a state whose x_i is resolve_position's result and whose xd_i is project_xd's result,
    - the contact and the dlambda of resolve_position;
  and the returned xd_i is integrate_xdv(project_xd(...), resolve_velocity(...))."""
  f = U.func('brax.positional.pipeline.step')
  PI_, PCOL, PJ_ = 'brax.positional.integrator', 'brax.positional.collisions', 'brax.positional.joints'
  I = new_interp(U.repo)
  n = 2
  sysd = symsys.system('11', (-1, 0), nq=2, nv=2, nu=0, vel_damping=0, ang_damping=0, mj_model=None)
  sysd.f['dof'] = Struct('DoF', {'motion': Struct('Motion', {'ang': symarr('da', (2, 3)), 'vel': symarr('dv', (2, 3))}, home='brax.base'),
                                 'limit': None})
  sysd.f['actuator'] = Struct('Actuator', {})
  st = symsys.state_maxcoord(n, q=symarr('q', (2,)), qd=symarr('qd', (2,)))
  cb = symsys.contact(([0], [1]))
  TT = lambda tag, *a: Struct('Transform', {'pos': elemwise_tag(tag + 'p', (n, 3), a), 'rot': elemwise_tag(tag + 'r', (n, 4), a)}, home='brax.base')
  MM = lambda tag, *a: Struct('Motion', {'ang': elemwise_tag(tag + 'a', (n, 3), a), 'vel': elemwise_tag(tag + 'v', (n, 3), a)}, home='brax.base')

  def elemwise_tag(name, shape, args):
    out = np.empty(shape, dtype=object)
    flat = [x for a_ in args for l in I.leaves(a_) for x in asarr(l).ravel()]
    for idx in np.ndindex(*shape):
      out[idx] = uf(name, idx, *flat[:24])
    return out
  seen = {}
  I.contracts[('brax.contact', 'get')] = lambda s_, x: cb
  I.contracts[('brax.actuator', 'to_tau')] = lambda s_, a, q, qd: P_zeros((2,))
  I.contracts[(PJ_, 'acceleration_update')] = lambda s_, state, tau: Struct('Force', {'ang': symarr('fa', (n, 3)), 'vel': symarr('fv', (n, 3))}, home='brax.base')
  I.contracts[('brax.com', 'inv_inertia')] = lambda s_, x: symarr('Iinv', (n, 3, 3))
  I.contracts[('brax.com', 'to_world')] = lambda s_, x_i, xd_i: (TT('w', x_i.f['pos'], x_i.f['rot']), MM('wd', xd_i.f['ang'], xd_i.f['vel'], x_i.f['pos']))

  def c_xdd(s_, x_i, xd_i, xdd_i):
    seen['xdd'] = (TT('ix', x_i.f['pos'], xdd_i.f['vel']), MM('ixd', xd_i.f['vel'], xdd_i.f['vel'], xdd_i.f['ang']))
    return seen['xdd']
  I.contracts[(PI_, 'integrate_xdd')] = c_xdd
  I.contracts[(PJ_, 'position_update')] = lambda s_, state: seen.setdefault('pos', TT('jp', state.f['x_i'].f['pos']))

  def c_rp(s_, state, x_i_prev, c):
    seen['rp_args'] = (state, x_i_prev, c)
    seen['rp'] = (TT('rp', state.f['x_i'].f['pos']), symarr('dlam', (1,)))
    return seen['rp']
  I.contracts[(PCOL, 'resolve_position')] = c_rp

  def c_proj(s_, x, x_prev):
    seen['proj_args'] = (x, x_prev)
    seen['proj'] = MM('pj', x.f['pos'], x_prev.f['pos'])
    return seen['proj']
  I.contracts[(PI_, 'project_xd')] = c_proj

  def c_rv(s_, state, xd_i_prev, c, dlambda):
    seen['rv_args'] = (state, xd_i_prev, c, dlambda)
    seen['rv'] = MM('rv', xd_i_prev.f['vel'], state.f['xd_i'].f['vel'])
    return seen['rv']
  I.contracts[(PCOL, 'resolve_velocity')] = c_rv

  def c_xdv(s_, xd_i, xdv_i):
    seen['xdv_args'] = (xd_i, xdv_i)
    seen['xdv'] = MM('iv', xd_i.f['vel'], xdv_i.f['vel'])
    return seen['xdv']
  I.contracts[(PI_, 'integrate_xdv')] = c_xdv
  I.contracts[(K, 'world_to_joint')] = lambda s_, x, xd: (T('jn', (n,)), M('jdn', (n,)), T('apn', (n,)), T('acn', (n,)))
  I.contracts[(K, 'inverse')] = lambda s_, j, jd: (symarr('qn', (2,)), symarr('qdn', (2,)))
  out = I.apply(fn('brax.positional.pipeline', 'step'), [sysd, st, symarr('u', (0,))], {})
  need = ('xdd', 'rp', 'proj', 'rv_args', 'xdv_args')
  if any(k not in seen for k in need):
    rep.note('R6.7 undecided: positional.pipeline.step no longer goes through %s' % ', '.join(k for k in need if k not in seen))
    return
  sm = lambda a, b: all(same(x, y) for x, y in zip(I.leaves(a), I.leaves(b)))
  st_rv, prev_rv, c_rv_, dl_rv = seen['rv_args']
  checks = [
      (sm(prev_rv, seen['xdd'][1]), 'resolve_velocity receives as xd_i_prev the velocity returned by integrate_xdd (before project_xd)'),
      (sm(st_rv.f['xd_i'], seen['proj']), 'the state handed to resolve_velocity carries the projected velocity project_xd(...)'),
      (sm(st_rv.f['x_i'], seen['rp'][0]), 'the state handed to resolve_velocity carries the positions resolved by resolve_position'),
      (same(dl_rv, seen['rp'][1]) and c_rv_ is cb, 'resolve_velocity receives the contact and the dlambda of resolve_position'),
      (sm(seen['proj_args'][0], seen['rp'][0]) and sm(seen['proj_args'][1], st.f['x_i']), 'project_xd(x_i after resolve_position, x_i before the step)'),
      (sm(seen['xdv_args'][0], seen['proj']) and sm(seen['xdv_args'][1], seen['rv']) and sm(out.f['xd_i'], seen['xdv']),
       'the returned xd_i is integrate_xdv(projected velocity, resolve_velocity(...))'),
  ]
  for ok, what in checks:
    rep.check(ok, 'R6.7', 'positional.pipeline.step: ' + what, 'in positional.pipeline.step it is not true that ' + what +
              ' -- the restitution / friction of the velocity pass would act on the wrong velocity', where=f.where(), construct=what)


def run(U, rep, tier):
  world_immovable(U, rep, tier)
  contacts(U, rep, tier)
  spring_limits(U, rep, tier)
  spring_limits_mixed(U, rep, tier)
  # R6.12: "contacts are inert until reached / rest at the right height": the contacts every pipeline consumes are computed
  # for the geoms WHERE THEY ARE -- contact.get hands the collision routine link pose (x) geom pose, composed in that
  # order (= C10 R10.1 / R10.2; the consumers above take contact.get as given)
  from braxlint.props import c10 as _c10
  from braxlint.props.c16 import _Relabel as _RL
  _c10.local_to_global(U, _RL(rep, 'R6.12'))
  _c10.get_dataflow(U, _RL(rep, 'R6.12'))
  # R6.11: "a limit that is not reached": the limits are the MODEL's -- dof.limit is the reference built from the mjModel
  # (limited iff the jnt_limited flag says so; shared with C14 R14.4)
  from braxlint.props import c14 as _c14
  _c14.loader_fields(U, rep, rule='R6.11', prefix=('dof.limit',), label='loader:', floor=1)
  positional_limits(U, rep, tier)
  generalized_limits(U, rep)
  push_only(U, rep)
  spring_restitution(U, rep, tier)
  positional_step_dataflow(U, rep)
  # R6.8: the pipelines regroup links through scan.tree / scan.link_types / _take -- specified for every forest of the
  # bounded universe (shared with C01 R1.2)
  from braxlint.props import c01
  c01.scan_spec(U, rep, tier, rule='R6.8')
  # R6.9: a contact impulse is converted into a velocity change with the SAME effective mass it was sized with (else the
  # push-out / rebound is over- or under-applied by mass ** -spring_mass_scale): the momentum law of the two-body contact
  # scene, spring_mass_scale symbolic (shared with C04 R4.1)
  from braxlint.props.c16 import _Relabel
  from braxlint.props import c04 as _c04
  # R6.10: "link rotations stay unit quaternions either way": the typestate rule of C16 R16.7 (every rotation a step
  # returns is renormalised exactly on every path)
  from braxlint.props import c16 as _c16
  _c16.r16_7(U, _Relabel(rep, 'R6.10'))
  _c04.momentum(U, _Relabel(rep, 'R6.9'), tier, only=('two_body_system',))
  # R6.6: limits whose range does not contain 0 are inert for a system at rest inside them -- the quantity a limit must
  # NOT act on (a slide's rotation angle, a hinge's offset) is 0, outside such a range (shared with C04 R4.5)
  from braxlint.props import c04
  # without the hinge-then-slide model of R4.5: it moves on the pinned tree for a reason that is not a limit (known
  # finding D11 of C04: the slide axis convention of the maximal-coordinate layer), so it says nothing about limits
  c04.rest(U, rep, tier, rule='R6.6', backends=('spring', 'positional'), models=c04.REST_MODELS[:3])
