"""C20 -- the tanh-normal policy distribution is a correct probability model.

[AVN, definition match] against the formulas of the property statement (DESIGN B.8):
  fldj(x)      = 2 (log 2 - x - softplus(-2x))                 (= log(1 - tanh^2 x))
  log N(x)     = -1/2 ((x - mu)/sigma)^2 - log sigma - 1/2 log 2 pi
  sample       = eps * sigma + mu, eps = normal(key, mu.shape);  mode = mu
  entropy_N    = 1/2 + 1/2 log 2 pi + log sigma
  (mu, s)      = split(params, 2, -1);  sigma = (softplus(s) + min_std) * var_scale
  log_prob(params, a) = sum_-1 (log N(a) - fldj(a));  entropy = sum_-1 (H + fldj(sample))
  sample = tanh(sample_raw);  mode = tanh(mu)
[provenance, by AVN with the network opaque] make_inference_fn returns
  (tanh(raw), {log_prob: log_prob(logits, raw), raw_action: raw}), raw sampled from the same
  logits = policy_network.apply(params[0], params[1], obs); deterministic -> (tanh(mu), {});
  make_policy_network.apply preprocesses observations with the supplied statistics first.
"""
import ast
from fractions import Fraction

import numpy as np

from braxlint import avn
from braxlint.avn import ClsRef, Closure, Poly, Rat, Struct, asarr, elemwise, fn, load, same, symarr, uf
from braxlint.avnlib import diff_report, new_interp, sym
from braxlint.universe import AnalysisError

def _hint(rep, name, got, want):
  if not same(got, want):
    rep.note('hint: %s is not the plain arctanh any more (not part of the property)' % name)


LEVEL = 'other'
EXPLANATION = (
    'Static equivalence with the stated reference formulas: the distribution classes are '
    'abstractly interpreted (constructors included) on symbolic parameters; log, softplus, tanh, '
    'normal-noise are uninterpreted atoms keyed by argument normal forms, so the formulas are '
    'compared exactly for all parameter values.  The PPO inference function is interpreted with '
    'the policy network as an opaque function, fixing which logits, which raw action and which '
    'log-probability are returned.  Quick: event size 2, no batch axis; thorough: event sizes '
    '1-6 x 0-2 leading batch axes.')
TRUSTED = ['python ast', 'braxlint.avn normal form', 'semantics of split/sum/ones_like/square',
           'reference formulas B.8 transcribed from the property statement']
ASSUMPTIONS = ['floating-point accuracy of softplus/log at |x| <= 40 is not decided',
               'jax.random.normal(key, shape) is a deterministic function of (key, shape)']

D = 'brax.training.distribution'
class _Half:
  """1/2 in the current value domain (a module-level Rat would be tied to the domain it was created in)."""

  def __mul__(self, o):
    return Rat.lift(Fraction(1, 2)) * o

  def __neg__(self):
    return -Rat.lift(Fraction(1, 2))

  def __add__(self, o):
    return Rat.lift(Fraction(1, 2)) + o


HALF = _Half()


def ref_fldj(x):
  return elemwise(lambda v: 2 * (uf('log', Rat.lift(2)) - v - uf('softplus', Rat.lift(-2) * v)), x)


def ref_logn(x, mu, sg):
  return elemwise(lambda xv, m_, s_: -HALF * ((xv - m_) / s_) * ((xv - m_) / s_) - uf('log', s_)
                  - HALF * uf('log', 2 * avn.pi()), x, mu, sg)


def ref_entropy_n(sg):
  return elemwise(lambda s_: HALF + HALF * uf('log', 2 * avn.pi()) + uf('log', s_), sg)


def ref_eps(key, shape):
  a = np.empty(shape, dtype=object)
  for idx in np.ndindex(*shape):
    a[idx] = uf('stdnormal', key, idx)
  return a


def make_dist(I, E, min_std, var_scale):
  cls = ClsRef(D, load(D)['classes']['NormalTanhDistribution'])
  return I.apply(cls, [E], {'min_std': min_std, 'var_scale': var_scale})


def checks(I, rep, U, batch, E):
  tag = 'E=%d,batch=%s' % (E, 'x'.join(map(str, batch)) or '-')
  where = lambda q: U.func(q).where()
  min_std, var_scale = sym('min_std'), sym('var_scale')
  dist = make_dist(I, E, min_std, var_scale)
  params = symarr('p', batch + (2 * E,))
  a = symarr('a', batch + (E,))
  key = symarr('key', (2,))
  mu, s = params[..., :E], params[..., E:]
  sg = elemwise(lambda v: (uf('softplus', v) + min_std) * var_scale, s)
  eps = ref_eps(key, batch + (E,))
  raw = eps * sg + mu

  def ob(rule, name, got, want, q):
    if same(got, want):
      rep.ok(rule, '%s %s' % (name, tag), construct=q, where=where(q))
    else:
      rep.fail(rule, '%s %s' % (name, tag), '%s differs from the reference formula: %s' % (
          name, diff_report(got, want)), where=where(q), construct=q)

  call = lambda m, *args: I.apply(I.attr(dist, m), list(args), {})
  rep.check(I.attr(dist, 'param_size') == 2 * E, 'R20.1', 'param_size %s' % tag,
            'param_size is not 2*event_size', where=where(D + '.NormalTanhDistribution.__init__'))
  nd = call('create_dist', params)
  ob('R20.1', 'create_dist.loc', nd.f['loc'], mu, D + '.NormalTanhDistribution.create_dist')
  ob('R20.1', 'create_dist.scale', nd.f['scale'], sg, D + '.NormalTanhDistribution.create_dist')
  tb = Struct('TanhBijector', {}, home=D)
  ob('R20.2', 'fldj', I.apply(I.attr(tb, 'forward_log_det_jacobian'), [a], {}), ref_fldj(a),
     D + '.TanhBijector.forward_log_det_jacobian')
  ob('R20.2', 'tanh forward', I.apply(I.attr(tb, 'forward'), [a], {}), elemwise(lambda v: uf('tanh', v), a),
     D + '.TanhBijector.forward')
  # the inverse bijection is not part of the property (nothing in the policy path may go through it: see R20.5) -- a
  # defensive clamp there changes no stated behaviour, so its formula is a hint, not an obligation
  _hint(rep, 'tanh inverse', I.apply(I.attr(tb, 'inverse'), [a], {}), elemwise(lambda v: uf('arctanh', v), a))
  # built through the real constructor (robust to added attributes / cached values)
  n2 = I.apply(ClsRef(D, load(D)['classes']['NormalDistribution']), [], {'loc': mu, 'scale': sg})
  ob('R20.3', 'normal.log_prob', I.apply(I.attr(n2, 'log_prob'), [a], {}), ref_logn(a, mu, sg),
     D + '.NormalDistribution.log_prob')
  ob('R20.3', 'normal.sample', I.apply(I.attr(n2, 'sample'), [], {'seed': key}), raw,
     D + '.NormalDistribution.sample')
  ob('R20.3', 'normal.mode', I.apply(I.attr(n2, 'mode'), [], {}), mu, D + '.NormalDistribution.mode')
  ob('R20.3', 'normal.entropy', I.apply(I.attr(n2, 'entropy'), [], {}), ref_entropy_n(sg),
     D + '.NormalDistribution.entropy')
  lp_ref = (ref_logn(a, mu, sg) - ref_fldj(a)).sum(axis=-1)
  ob('R20.4', 'log_prob', call('log_prob', params, a), lp_ref, D + '.ParametricDistribution.log_prob')
  # MORE actions than parameter sets (a grid of actions under one parameter vector -- what integrating the density does --
  # or K candidate actions per state): the terms broadcast, and only the EVENT axis is summed
  ab = symarr('ab', (2,) + batch + (E,))
  lpb = (ref_logn(ab, mu, sg) - ref_fldj(ab)).sum(axis=-1)
  ob('R20.4', 'log_prob of a stack of actions under one parameter set', call('log_prob', params, ab), lpb, D + '.ParametricDistribution.log_prob')
  ob('R20.4', 'entropy', call('entropy', params, key), (ref_entropy_n(sg) + ref_fldj(raw)).sum(axis=-1),
     D + '.ParametricDistribution.entropy')
  ob('R20.4', 'sample_no_postprocessing', call('sample_no_postprocessing', params, key), raw,
     D + '.ParametricDistribution.sample_no_postprocessing')
  ob('R20.4', 'sample', call('sample', params, key), elemwise(lambda v: uf('tanh', v), raw),
     D + '.ParametricDistribution.sample')
  ob('R20.4', 'mode', call('mode', params), elemwise(lambda v: uf('tanh', v), mu),
     D + '.ParametricDistribution.mode')
  ob('R20.4', 'postprocess', call('postprocess', a), elemwise(lambda v: uf('tanh', v), a),
     D + '.ParametricDistribution.postprocess')
  _hint(rep, 'inverse_postprocess', call('inverse_postprocess', a), elemwise(lambda v: uf('arctanh', v), a))
  return dist, (mu, sg, raw, key)


def inference(I, rep, U, E):
  PN = 'brax.training.agents.ppo.networks'
  f = U.func(PN + '.make_inference_fn')
  dist = make_dist(I, E, sym('min_std'), sym('var_scale'))
  obs = symarr('obs', (3,))
  norm_params, pol_params, val_params = symarr('np', (2,)), symarr('pp', (2,)), symarr('vp', (2,))

  def net_apply(*args):
    out = np.empty((2 * E,), dtype=object)
    for i in range(2 * E):
      out[i] = uf('policy_apply', i, *args)
    return out
  pn = Struct('FeedForwardNetwork', {'apply': ('prim', 'apply', net_apply), 'init': None})
  nets = Struct('PPONetworks', {'policy_network': pn, 'value_network': None,
                                'parametric_action_distribution': dist})
  key = symarr('key', (2,))
  logits = net_apply(norm_params, pol_params, obs)
  mu, s = logits[:E], logits[E:]
  sg = elemwise(lambda v: (uf('softplus', v) + sym('min_std')) * sym('var_scale'), s)
  raw = ref_eps(key, (E,)) * sg + mu
  make_policy = I.apply(fn(PN, 'make_inference_fn'), [nets], {})
  params = (norm_params, pol_params, val_params)
  for det in (False, True):
    pol = I.apply(make_policy, [params], {'deterministic': det})
    out = I.apply(pol, [obs, key], {})
    tag = 'deterministic=%s E=%d' % (det, E)
    if not (isinstance(out, tuple) and len(out) == 2 and isinstance(out[1], dict)):
      rep.fail('R20.5', 'policy returns (action, extras) ' + tag, 'unexpected return structure', where=f.where())
      continue
    act, extra = out
    if det:
      ok = same(act, elemwise(lambda v: uf('tanh', v), mu)) and extra == {}
      rep.check(ok, 'R20.5', 'inference ' + tag, 'deterministic policy must return (mode(logits), {}): '
                + diff_report(act, elemwise(lambda v: uf('tanh', v), mu)), where=f.where(),
                construct='policy -> (tanh(mu), {})')
    else:
      want_lp = (ref_logn(raw, mu, sg) - ref_fldj(raw)).sum(axis=-1)
      ok_keys = set(extra) == {'log_prob', 'raw_action'}
      rep.check(ok_keys, 'R20.5', 'extras keys ' + tag, 'extras must be {log_prob, raw_action}, got %r' % sorted(extra),
                where=f.where())
      if ok_keys:
        rep.check(same(act, elemwise(lambda v: uf('tanh', v), raw)), 'R20.5', 'action = tanh(raw) ' + tag,
                  'returned action is not the squashed sample drawn from the same logits: '
                  + diff_report(act, elemwise(lambda v: uf('tanh', v), raw)), where=f.where())
        rep.check(same(extra['raw_action'], raw), 'R20.5', 'raw_action ' + tag,
                  'raw_action is not the pre-squash sample: ' + diff_report(extra['raw_action'], raw), where=f.where())
        rep.check(same(extra['log_prob'], want_lp), 'R20.5', 'log_prob ' + tag,
                  'log_prob is not log N(raw) - fldj(raw) summed over the event: '
                  + diff_report(extra['log_prob'], want_lp), where=f.where())


def policy_network_apply(I, rep, U):
  N = 'brax.training.networks'
  f = U.func(N + '.make_policy_network')
  outer = fn(N, 'make_policy_network')
  apply_node = None
  for s in outer.node.body:
    if isinstance(s, ast.FunctionDef) and s.name == 'apply':
      apply_node = s
  if apply_node is None:
    raise AnalysisError('anchor make_policy_network.apply not found')
  pre = ('prim', 'pre', lambda obs, pp: elemwise(lambda v: uf('preprocess', v, pp), obs))
  module = Struct('MLP', {'apply': ('prim', 'mapply', lambda params, x: elemwise(lambda v: uf('mlp', params, v), x))})
  env = {'v': {'preprocess_observations_fn': pre, 'policy_module': module, 'obs_key': 'state'}, 'p': None}
  ap = Closure(apply_node, env, N, 'apply')
  obs, proc, polp = symarr('o', (3,)), symarr('np', (2,)), symarr('pp', (2,))
  got = I.apply(ap, [proc, polp, obs], {})
  want = elemwise(lambda v: uf('mlp', polp, uf('preprocess', v, proc)), obs)
  rep.check(same(got, want), 'R20.6', 'policy_network.apply = module.apply(policy_params, preprocess(obs, processor_params))',
            'observations are not normalised with the supplied statistics before the network: '
            + diff_report(got, want), where=f.where(apply_node), construct='make_policy_network.apply')
  # dict observations: obs[obs_key] after preprocessing
  pre2 = ('prim', 'pre', lambda obs, pp: ({k: elemwise(lambda v: uf('preprocess', v, pp), x) for k, x in obs.items()}
                                          if isinstance(obs, dict) else elemwise(lambda v: uf('preprocess', v, pp), obs)))
  env2 = {'v': {'preprocess_observations_fn': pre2, 'policy_module': module, 'obs_key': 'state'}, 'p': None}
  I.contracts[('builtin', 'isinstance_array')] = None
  got2 = I.apply(Closure(apply_node, env2, N, 'apply'), [proc, polp, {'state': obs, 'other': symarr('z', (2,))}], {})
  rep.check(same(got2, want), 'R20.6', 'dict observation: obs[obs_key] after preprocessing',
            'dict observations: the network must see preprocess(obs)[obs_key]: ' + diff_report(got2, want),
            where=f.where(apply_node))


def policy_network_keys(I, rep, U):
  """R20.6 with dict observations, a policy key other than the default and REAL nested running statistics: the network
  must see normalize(obs)[key] = (obs[key] - mean[key]) / std[key] -- the statistics of ITS entry."""
  N = 'brax.training.networks'
  RS = 'brax.training.acme.running_statistics'
  f = U.func(N + '.make_policy_network')
  outer = fn(N, 'make_policy_network')
  apply_node = next((s_ for s_ in outer.node.body if isinstance(s_, ast.FunctionDef) and s_.name == 'apply'), None)
  if apply_node is None:
    raise AnalysisError('anchor make_policy_network.apply not found')
  module = Struct('MLP', {'apply': ('prim', 'mapply', lambda params, x: elemwise(lambda v: uf('mlp', params, v), x))})
  polp = symarr('pp', (2,))
  obs = {'state': symarr('os', (3,)), 'proprio': symarr('op', (3,))}
  stats = Struct('NestedMeanStd', {'mean': {'state': symarr('ms', (3,)), 'proprio': symarr('mp', (3,))},
                                   'std': {'state': symarr('ss', (3,)), 'proprio': symarr('sp', (3,))}}, home=RS)
  # the SUPPLIED statistics may be a plain NestedMeanStd or a full running state (count, summed variance) -- whatever its
  # count says, the observation is normalised with the mean / std it carries
  running = Struct('RunningStatisticsState', dict(stats.f, count=sym('cnt'),
                                                  summed_variance={'state': symarr('vs', (3,)), 'proprio': symarr('vp', (3,))}), home=RS)
  for carrier, st_ in (('NestedMeanStd', stats), ('RunningStatisticsState with a symbolic count', running)):
    for key in ('proprio', 'state'):
      env = {'v': {'preprocess_observations_fn': fn(RS, 'normalize'), 'policy_module': module, 'obs_key': key}, 'p': None}
      got = I.apply(Closure(apply_node, env, N, 'apply'), [st_, polp, obs], {})
      want = elemwise(lambda v: uf('mlp', polp, v), (obs[key] - stats.f['mean'][key]) / stats.f['std'][key])
      rep.check(same(got, want), 'R20.6', 'dict observations, policy key %r, %s: the network sees (obs[key] - mean[key]) / std[key]' % (key, carrier),
                lambda: 'the policy input is not its own entry normalised with its own statistics: ' + diff_report(got, want),
                where=f.where(apply_node), construct='running_statistics.normalize with nested mean / std; obs keys state, proprio')


def value_identity(rep, U):
  """R20.7: a distribution object stands for ITS configuration.  Python's default identity equality guarantees that wherever
  objects are looked up by == / hash (static jit arguments, caches, dict keys) one object is never served the trace / entry of
  another.  If the classes define value equality, every configured attribute (each `self.x = ...` of every class of the
  hierarchy) must take part in it -- otherwise two differently configured distributions are interchangeable for jit, and the
  scale floor / variance scale of the FIRST one is silently used for the second."""
  import ast
  D = 'brax.training.distribution'
  m = U.mod(D)
  f0 = U.func(D + '.NormalTanhDistribution.__init__')
  classes = m.classes
  def bases(c):
    out = []
    for b in classes[c].bases:
      n = b.id if isinstance(b, ast.Name) else b.attr if isinstance(b, ast.Attribute) else None
      if n in classes:
        out += [n] + bases(n)
    return out
  def methods(c):
    return {n.name: n for n in classes[c].body if isinstance(n, ast.FunctionDef)}
  def mro_method(c, name):
    for k in [c] + bases(c):
      if name in methods(k):
        return k, methods(k)[name]
    return None, None
  def reads(c, fnode, seen):
    """self attributes read by a method, through the self.methods it calls."""
    out = set()
    for n in ast.walk(fnode):
      if isinstance(n, ast.Attribute) and isinstance(n.value, ast.Call) and isinstance(n.value.func, ast.Name) and n.value.func.id == 'super':
        for k in bases(c):
          if n.attr in methods(k) and (k, n.attr) not in seen:
            seen.add((k, n.attr))
            out |= reads(c, methods(k)[n.attr], seen)
      if isinstance(n, ast.Attribute) and isinstance(n.value, ast.Name) and n.value.id in ('self', 'other'):
        k, meth = mro_method(c, n.attr)
        if meth is not None and (k, n.attr) not in seen:
          seen.add((k, n.attr))
          out |= reads(c, meth, seen)
        elif meth is None:
          out.add(n.attr)
      if isinstance(n, ast.Call) and isinstance(n.func, ast.Name) and n.func.id == 'vars' or (
          isinstance(n, ast.Attribute) and n.attr == '__dict__'):
        out.add('*')
    return out
  nchecked = 0
  for c in sorted(classes):
    if 'ParametricDistribution' not in [c] + bases(c):
      continue
    stored = set()
    for k in [c] + bases(c):
      init = methods(k).get('__init__')
      if init is not None:
        stored |= {t.attr for n in ast.walk(init) if isinstance(n, (ast.Assign, ast.AnnAssign, ast.AugAssign))
                   for t in (n.targets if isinstance(n, ast.Assign) else [n.target])
                   if isinstance(t, ast.Attribute) and isinstance(t.value, ast.Name) and t.value.id == 'self'}
    for special in ('__eq__',):      # a coarser __hash__ only collides; equality decides which entry is served
      k, meth = mro_method(c, special)
      nchecked += 1
      if meth is None:
        rep.ok('R20.7', '%s.%s is identity' % (c, special), where=f0.where(), construct='no %s in the hierarchy of %s' % (special, c))
        continue
      if isinstance(meth, ast.FunctionDef) is False:
        continue
      used = reads(c, meth, set())
      missing = sorted(stored - used) if '*' not in used else []
      rep.check(not missing, 'R20.7', '%s.%s covers every configured attribute' % (c, special),
                'value %s of %s ignores the configured attribute(s) %s: two differently configured distributions are equal / '
                'hash alike, so a jitted function that takes the distribution as a static argument (or any cache keyed by it) '
                'evaluates one with the other\'s parameters' % (special, c, ', '.join(missing)),
                where=(m.path, meth.lineno, '%s.%s.%s' % (D, k, special)), construct='stored: %s; compared: %s' % (sorted(stored), sorted(used)))
  if nchecked < 2:
    from braxlint.universe import AnalysisError
    raise AnalysisError('C20 R20.7: fewer than two distribution classes found')


class _OnlyFailures:
  """Further random-interpretation trials of an obligation already recorded: only a refutation is new information."""

  def __init__(self, rep):
    self.rep = rep

  def ok(self, *a, **k):
    pass

  def fail(self, *a, **k):
    self.rep.fail(*a, **k)

  def check(self, cond, rule, key, message, **k):
    if not cond:
      self.rep.check(cond, rule, key + ' (trial)', message, **k)


def run(U, rep, tier):
  I = new_interp(U.repo)
  policy_network_keys(I, rep, U)
  value_identity(rep, U)
  if tier == 'quick':
    grid = [((), 2)]
  else:
    grid = [(b, e) for e in range(1, 7) for b in ((), (2,), (2, 2))]
    rep.exhaustive = True
  for batch, E in grid:
    if E * max(1, int(np.prod(batch))) <= 2:
      checks(I, rep, U, batch, E)          # exact rational normal forms
    else:
      # sums of E rational terms with distinct denominators expand combinatorially: larger event sizes / batches are
      # decided by random interpretation (images in GF(p); an identity holds in every trial)
      for t in range(3):
        avn.field_mode(2000 + 17 * t)
        try:
          I2 = new_interp(U.repo)
          checks(I2, rep if t == 0 else _OnlyFailures(rep), U, batch, E)
        finally:
          avn.exact_mode()
  for E in ((2,) if tier == 'quick' else (1, 2, 3, 6)):
    if E <= 2:
      inference(I, rep, U, E)
    else:
      for t in range(3):
        avn.field_mode(2100 + 13 * t)
        try:
          inference(new_interp(U.repo), rep if t == 0 else _OnlyFailures(rep), U, E)
        finally:
          avn.exact_mode()
  policy_network_apply(I, rep, U)
  rep.stat('interpreter_calls', I.calls)
