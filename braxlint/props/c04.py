"""C04 -- internal forces obey Newton's third law: total linear momentum.

[AVN, law on the whole step] spring.pipeline.step and positional.pipeline.step are abstractly
interpreted as whole programs (real scan.py regrouping, real actuator / joint / collision /
integrator code; only the branchy trigonometric helpers link_to_joint_frame / axis_angle_ang and
the trailing world_to_joint / inverse read-back are opaque) on symbolic states of
  (a) a free-rooted chain  f-1-1  with actuators and joint limits, no contact pairs;
  (b) two free bodies with two contacts between them;
and the returned state must satisfy, as a polynomial identity,
      sum_i m_i xd_i'.vel  ==  sum_i m_i xd_i.vel + (sum_i m_i) g dt.
[STRUCT] R4.4: every site computing the effective mass is the same expression.
"""
import ast

import numpy as np

from braxlint import avn, guards, pred, scenario, symsys
from braxlint.avn import P_zeros, Rat, Struct, asarr, fn, same, symarr
from braxlint.avnlib import M, T, diff_report, new_interp, sym
from braxlint.props.c06 import _joint_contracts
from braxlint.universe import AnalysisError

LEVEL = 'other'
EXPLANATION = (
    'Static law check by algebraic value numbering of the whole pipeline step: the AST of '
    'spring/positional pipeline.step and everything it calls (actuator, joints, collisions, '
    'integrators, com, scan) is abstractly interpreted on symbolic states; the total linear '
    'momentum of the returned state equals the previous total plus total mass x gravity x dt as an '
    'identity of normal forms, i.e. for every state, control, joint force and contact impulse -- '
    'also when the simulation is stiff or unstable.  Every internal interaction must therefore '
    'cancel pairwise through the same mass.')
TRUSTED = ['python ast', 'AVN normal form with gate-preserving widening', 'opaque contracts for '
           'link_to_joint_frame / axis_angle_ang / world_to_joint read-back / kinematics.inverse / '
           'contact.get / com.inv_inertia (momentum does not depend on their values)']
ASSUMPTIONS = ['all intermediate values are finite (the NaN scrub in resolve_position is the identity)', 'instantiated topologies: chain f-1-1 and two free bodies; generalisation over model '
               'size rests on the uniformity of gather / segment_sum / scan regrouping',
               'global velocity damping is 0 (the property\'s quantifier)',
               'multi-body contact averaging is not decided; the rest clause (R4.5) is decided for one step from a '
               'consistent state, generalized pipeline without limit rows (iterative solver outside the fragment)']

K = 'brax.kinematics'
WIDEN = 12


def chain_system():
  n = 3
  sysd = symsys.system('f11', (-1, 0, 1), nq=9, nv=8, nu=2, vel_damping=0, ang_damping=sym('angdamp'))
  sysd.f['dof'] = Struct('DoF', {
      'motion': Struct('Motion', {'ang': symarr('da', (8, 3)), 'vel': symarr('dv', (8, 3))}, home='brax.base'),
      'limit': (symarr('lo', (8,)), symarr('hi', (8,)))})
  act = Struct('Actuator', {k: symarr(k, (2,)) for k in ('gain', 'gear', 'bias_q', 'bias_qd')})
  act.f.update({'ctrl_range': symarr('cr', (2, 2)), 'force_range': symarr('fr', (2, 2)),
                'q_id': np.array([7, 8]), 'qd_id': np.array([6, 7])})
  sysd.f['actuator'] = act
  st = symsys.state_maxcoord(n, q=symarr('q', (9,)), qd=symarr('qd', (8,)))
  return n, sysd, st, symarr('u', (2,)), None


def star_system():
  """Free root with three children (one of them with its own child): links with several children."""
  n = 5
  nq, nv = 7 + 4, 6 + 4
  sysd = symsys.system('f1111', (-1, 0, 0, 0, 2), nq=nq, nv=nv, nu=2, vel_damping=0, ang_damping=sym('angdamp'))
  sysd.f['dof'] = Struct('DoF', {
      'motion': Struct('Motion', {'ang': symarr('da', (nv, 3)), 'vel': symarr('dv', (nv, 3))}, home='brax.base'),
      'limit': (symarr('lo', (nv,)), symarr('hi', (nv,)))})
  act = Struct('Actuator', {k: symarr(k, (2,)) for k in ('gain', 'gear', 'bias_q', 'bias_qd')})
  act.f.update({'ctrl_range': symarr('cr', (2, 2)), 'force_range': symarr('fr', (2, 2)),
                'q_id': np.array([7, 9]), 'qd_id': np.array([6, 8])})
  sysd.f['actuator'] = act
  st = symsys.state_maxcoord(n, q=symarr('q', (nq,)), qd=symarr('qd', (nv,)))
  return n, sysd, st, symarr('u', (2,)), None


def forest_system():
  """Two articulated free-floating trees in one system: the second ROOT comes after a non-root link, so whatever assumes
  "roots first" (or one root) pairs a joint force with the wrong reaction."""
  n = 4
  nq, nv = 16, 14
  sysd = symsys.system('f1f1', (-1, 0, -1, 2), nq=nq, nv=nv, nu=2, vel_damping=0, ang_damping=sym('angdamp'))
  sysd.f['dof'] = Struct('DoF', {
      'motion': Struct('Motion', {'ang': symarr('da', (nv, 3)), 'vel': symarr('dv', (nv, 3))}, home='brax.base'),
      'limit': (symarr('lo', (nv,)), symarr('hi', (nv,)))})
  act = Struct('Actuator', {k: symarr(k, (2,)) for k in ('gain', 'gear', 'bias_q', 'bias_qd')})
  act.f.update({'ctrl_range': symarr('cr', (2, 2)), 'force_range': symarr('fr', (2, 2)),
                'q_id': np.array([7, 15]), 'qd_id': np.array([6, 13])})
  sysd.f['actuator'] = act
  st = symsys.state_maxcoord(n, q=symarr('q', (nq,)), qd=symarr('qd', (nv,)))
  return n, sysd, st, symarr('u', (2,)), None


def two_body_system():
  n = 2
  sysd = symsys.system('ff', (-1, -1), nq=14, nv=12, nu=0, vel_damping=0, ang_damping=sym('angdamp'))
  sysd.f['dof'] = Struct('DoF', {
      'motion': Struct('Motion', {'ang': symarr('da', (12, 3)), 'vel': symarr('dv', (12, 3))}, home='brax.base'),
      'limit': None})
  sysd.f['actuator'] = Struct('Actuator', {})
  st = symsys.state_maxcoord(n, q=symarr('q', (14,)), qd=symarr('qd', (12,)))
  c = symsys.contact(([0, 0], [1, 1]))
  return n, sysd, st, symarr('u', (0,)), c


def chain_contact_system():
  """The articulated chain with two self-contacts between links 0 and 2: joints, actuators, limits and
  (internal) contacts act in the same step, so every pairing has to cancel at once."""
  n, sysd, st, act, _ = chain_system()
  return n, sysd, st, act, symsys.contact(([0, 0], [2, 2]))


PJ = 'brax.positional.joints'
PC = 'brax.positional.collisions'


def positional_contracts(I, sysd, st, c):
  """Cut points of the positional step: the PBD leaf kernels are replaced by contracts that keep
  only their (separately verified, see leaf_laws) pair structure."""
  cnt = [0]

  def fresh(shape, tag):
    cnt[0] += 1
    return symarr('%s%d_' % (tag, cnt[0]), shape)

  def translation_update(pos_p, xi_p, i_inv_p, mass_inv_p, pos_c, xi_c, i_inv_c, mass_inv_c, dx):
    from braxlint.avnlib import _all_zero
    P = fresh((3,), 'P') if not _all_zero(dx) else P_zeros((3,))
    return (Struct('Transform', {'pos': -P * mass_inv_p, 'rot': fresh((4,), 'rp')}, home='brax.base'),
            Struct('Transform', {'pos': P * mass_inv_c, 'rot': fresh((4,), 'rc')}, home='brax.base'))

  def rotation_update(xi_p, i_inv_p, xi_c, i_inv_c, dq):
    return (Struct('Transform', {'pos': P_zeros((3,)), 'rot': fresh((4,), 'qp')}, home='brax.base'),
            Struct('Transform', {'pos': P_zeros((3,)), 'rot': fresh((4,), 'qc')}, home='brax.base'))

  def three_dof(x, limit, motion, joint_frame, parity):
    return Struct('Transform', {'pos': fresh((3,), 'dx'), 'rot': fresh((3,), 'dq')}, home='brax.base')

  I.contracts[(PJ, '_translation_update')] = translation_update
  I.contracts[(PJ, '_rotation_update')] = rotation_update
  I.contracts[(PJ, '_three_dof_joint_update')] = three_dof
  if c is not None:
    nc = len(c.f['link_idx'][0])
    lidx = np.stack([c.f['link_idx'][0], c.f['link_idx'][1]], axis=1)     # (nc, 2)
    k = 1 - sysd.f['spring_mass_scale']
    inv_mass = avn.elemwise(lambda a: 1 / (Rat.lift(a) ** k), sysd.f['link'].f['inertia'].f['mass'])
    cs = sysd.f['collide_scale']

    def translate(contact):
      P = fresh((nc, 3), 'Pc')
      w = np.empty((nc, 2), dtype=object)
      for a in range(nc):
        for b in range(2):
          w[a, b] = inv_mass[lidx[a, b]] if lidx[a, b] > -1 else Rat.lift(0)
      dp_p = Struct('Transform', {'pos': P * w[:, 0:1] * cs, 'rot': fresh((nc, 4), 'rtp')}, home='brax.base')
      dp_c = Struct('Transform', {'pos': -P * w[:, 1:2] * cs, 'rot': fresh((nc, 4), 'rtc')}, home='brax.base')
      return dp_p, dp_c, fresh((nc,), 'lam')

    def impulse(contact, dlambda):
      return (Struct('Force', {'ang': P_zeros((nc, 3)), 'vel': fresh((nc, 3), 'Pv')}, home='brax.base'),
              fresh((nc,), 'isc'))

    I.opaque[(PC, 'translate')] = translate
    I.opaque[(PC, 'impulse')] = impulse


def run_step(U, backend, build, widen=12, cut_points=True):
  I = new_interp(U.repo)
  I.widen_at = widen
  scenario.WIDEN[0] = widen if widen is not None else 10 ** 9
  _joint_contracts(I)
  n, sysd, st, act, c = build()
  # gravity REPLACED on the System after loading (sys.replace(gravity=...), gravity randomisation): the law is stated for
  # sys.gravity; the copy mjx keeps in sys.opt.gravity is the value at load time
  sysd.f['gravity'] = symarr('grepl', (3,))
  nq, nv = sysd.f['nq'], sysd.f['nv']
  # the state carries the effective mass computed by pipeline.init from the system
  k = 1 - sysd.f['spring_mass_scale']
  st.f['mass'] = avn.elemwise(lambda a: Rat.lift(a) ** k, sysd.f['link'].f['inertia'].f['mass'])
  I.contracts[('brax.contact', 'get')] = lambda s, x: c
  I.contracts[(K, 'world_to_joint')] = lambda s, x, xd: (T('jn', (n,)), M('jdn', (n,)), T('apn', (n,)), T('acn', (n,)))
  I.contracts[(K, 'inverse')] = lambda s, j, jd: (symarr('qn', (nq,)), symarr('qdn', (nv,)))
  I.contracts[('brax.com', 'inv_inertia')] = lambda s, x: symarr('Iinv', (n, 3, 3))
  if backend == 'positional' and cut_points:
    positional_contracts(I, sysd, st, c)
  out = I.apply(fn('brax.%s.pipeline' % backend, 'step'), [sysd, st, act], {})
  m = st.f['mass']
  dt, g = sysd.f['opt'].f['timestep'], sysd.f['gravity']
  p0 = sum((m[i] * st.f['xd_i'].f['vel'][i] for i in range(n)), P_zeros((3,)))
  p1 = sum((m[i] * out.f['xd_i'].f['vel'][i] for i in range(n)), P_zeros((3,)))
  # scenario: every intermediate value is finite (the NaN scrub `where(isnan(x), 0, x)` is the identity)
  finite = lambda nm: 0 if isinstance(nm, avn.Atom) and nm.kind == 'isnan' else None
  p1 = scenario.subst(p1, finite)
  return p1, p0 + m.sum() * g * dt, I


def leaf_laws(U, rep):
  """The pair structure assumed by the positional cut-point contracts, on the real kernels."""
  I = new_interp(U.repo)
  f = U.func(PJ + '._translation_update')
  mp, mc = sym('wp'), sym('wc')
  a = [T('ap'), T('xip'), symarr('Ip', (3, 3)), mp, T('ac'), T('xic'), symarr('Ic', (3, 3)), mc, symarr('dx', (3,))]
  tp, tc = I.apply(fn(PJ, '_translation_update'), a, {})
  rep.check(same(tp.f['pos'] * mc + tc.f['pos'] * mp, P_zeros((3,))), 'R4.3',
            '_translation_update: dx_p / w_p + dx_c / w_c == 0',
            lambda: 'the PBD translation correction is not an equal-and-opposite pair through the inverse masses: '
            + diff_report(tp.f['pos'] * mc, -tc.f['pos'] * mp), where=f.where(),
            construct='pos_p, pos_c = -p * mass_inv_p, p * mass_inv_c')
  f = U.func(PJ + '._rotation_update')
  rp, rc = I.apply(fn(PJ, '_rotation_update'), [T('xip'), symarr('Ip', (3, 3)), T('xic'), symarr('Ic', (3, 3)), symarr('dq', (3,))], {})
  rep.check(same(rp.f['pos'], P_zeros((3,))) and same(rc.f['pos'], P_zeros((3,))), 'R4.3',
            '_rotation_update moves no centre of mass', 'the PBD rotation correction translates a link',
            where=f.where())
  # contact position correction: dp_p.pos / w0 + dp_c.pos / w1 == 0, world side receives nothing
  for name, lidx in (('body-body', ([0], [1])), ('world-body', ([-1], [0]))):
    f = U.func(PC + '.resolve_position')

    def thunk(lidx=lidx):
      I = new_interp(U.repo)
      sysd = symsys.system('ff', (-1, -1))
      st = symsys.state_maxcoord(2)
      cb = symsys.contact(lidx)
      # the enclosing function's own prefix is interpreted, so the closure sees whatever locals the
      # current source defines; the inverse inertia (a model constant here) is a symbol
      I.contracts[('brax.com', 'inv_inertia')] = lambda s, x: symarr('Ii', (2, 3, 3))
      tr, _ = avn.nested_fn_auto(I, PC, 'resolve_position', 'translate',
                                 {'sys': sysd, 'state': st, 'x_i_prev': T('xp', (2,)), 'contact': cb})
      dp_p, dp_c, lam = I.apply(tr, [cb], {})
      k = 1 - sysd.f['spring_mass_scale']
      inv_mass = avn.elemwise(lambda a: 1 / (Rat.lift(a) ** k), sysd.f['link'].f['inertia'].f['mass'])
      w_ = [inv_mass[i] if i > -1 else Rat.lift(0) for i in (lidx[0][0], lidx[1][0])]
      if lidx[0][0] == -1:
        return dp_p.f['pos'][0], P_zeros((3,))
      return dp_p.f['pos'][0] * w_[1] + dp_c.f['pos'][0] * w_[0], P_zeros((3,))

    # decided by random interpretation (the identity is between large rational functions; a comparison of
    # widened exact normal forms would depend on how the kernel happens to be written)
    bad = None
    for t in range(4):
      avn.field_mode(900 + t, bool_default={0: 1, 1: 0}.get(t))       # gates: all open, all closed, then hashed
      try:
        got, want = thunk()
        if not same(got, want):
          bad = t
      finally:
        avn.exact_mode()
    what = ('a world-side contact correction is not masked to zero' if lidx[0][0] == -1 else
            'the contact position correction is not an equal-and-opposite pair through the inverse masses')
    rep.check(bad is None, 'R4.3', 'resolve_position.translate pair law [%s]' % name,
              what + ('' if bad is None else ' (random-interpretation trial %d)' % bad), where=f.where(),
              construct='dp_p_pos, dp_c_pos = p * mass_inv[0], -p * mass_inv[1] (+ static friction)  [4 GF(p) trials]')


def momentum(U, rep, tier, only=None):
  cases = [('spring', 'chain f-1-1, actuators, limits', chain_system),
           ('spring', 'two free bodies, two contacts', two_body_system),
           ('spring', 'star: free root with three children and a grandchild', star_system),
           ('spring', 'forest: two free-floating trees f-1, f-1 with actuators (a root listed after a child)', forest_system),
           ('positional', 'forest: two free-floating trees f-1, f-1 with actuators (a root listed after a child)', forest_system),
           ('positional', 'chain f-1-1, actuators, limits', chain_system),
           ('positional', 'star: free root with three children and a grandchild', star_system),
           ('positional', 'two free bodies, two contacts', two_body_system)]
  if tier == 'thorough':
    cases += [('spring', 'chain f-1-1 with actuators, limits AND two self-contacts between links 0 and 2', chain_contact_system),
              ('positional', 'chain f-1-1 with actuators, limits AND two self-contacts between links 0 and 2', chain_contact_system)]
  import os
  seed0 = int(os.environ.get('VERIF_SEED', '0') or 0)
  trials = 3 if tier == 'quick' else 12
  finite = lambda nm: 0 if nm.kind == 'isnan' else None
  for backend, name, build in cases:
    if only is not None and build.__name__ not in only:
      continue
    f = U.func('brax.%s.pipeline.step' % backend)
    bad = None
    calls = 0
    for t in range(trials):
      # first trial: every undecided gate open (contacts and limits active); then random gate values
      avn.field_mode(seed0 * 1000 + t, decide=finite, bool_default=1 if t == 0 else None)
      try:
        got, want, I = run_step(U, backend, build, None, cut_points=False)
        calls += I.calls
        if not same(got, want):
          bad = t
          break
      finally:
        avn.exact_mode()
    rep.check(bad is None, 'R4.1', '%s.pipeline.step momentum law [%s]' % (backend, name),
              'total linear momentum after the step is not previous + M g dt (random-interpretation trial %s of the '
              'whole step: the two sides differ in GF(p), hence as polynomials)' % bad,
              where=f.where(), construct="sum m xd_i'.vel == sum m xd_i.vel + (sum m) g dt  [%d GF(p) trials, real kernels]" % trials)
    rep.stat('interpreter_calls_%s_%s' % (backend, build.__name__), calls)
  rep.stat('random_interpretation_trials', trials)


class _Timeout(Exception):
  pass


def escalate(thunk, levels=(12, 80, 600, None), budget_s=150):
  """Widening only loses additive cancellation, never invents equalities: a law that holds at some
  widening level holds.  A mismatch is a verdict only at a (near-)exact level; otherwise retry with
  less widening within a time budget."""
  import signal
  last = None
  def on_alarm(*a):
    raise _Timeout()
  old = signal.signal(signal.SIGALRM, on_alarm)
  try:
    for w in levels:
      signal.alarm(budget_s)
      try:
        got, want, I = thunk(w)
      except _Timeout:
        break
      finally:
        signal.alarm(0)
      if same(got, want):
        return True, got, want, I, w
      last = (got, want, I, w)
  finally:
    signal.signal(signal.SIGALRM, old)
  if last is not None and (last[3] is None or last[3] >= 600):
    return (False,) + last
  return (None,) + (last or (None, None, None, None))


def one_mass(U, rep):
  """R4.4: the effective mass is computed by one expression everywhere."""
  want = '(sys.link.inertia.mass Pow (1 Sub sys.spring_mass_scale))'
  sites = []
  for q in sorted(U.pipeline_reach(('spring', 'positional'))):
    f = U.funcs[q]
    for s in guards.sites(U, f, {}):
      if s.kind == 'power' and pred.show(s.term) == 'sys.link.inertia.mass':
        sites.append((f, s))
  for f, s in sites:
    node = s.node
    ex = node.right if isinstance(node, ast.BinOp) else (node.args[1] if len(node.args) > 1 else None)
    t = pred.show(pred.Normalizer(f.mod).term(ex, pred.Env([a.arg for a in f.node.args.args], f.mod))) if ex is not None else ''
    rep.check(t == '(1 Sub sys.spring_mass_scale)', 'R4.4', 'effective mass|%s' % f.qname,
              'effective mass exponent is `%s`, expected 1 - sys.spring_mass_scale (impulse and delta-v must use one mass)' % t,
              where=f.where(node), construct=ast.unparse(node))
  if len(sites) < 5:
    raise AnalysisError('R4.4 found only %d effective-mass sites (floor 5)' % len(sites))


class _Hints:
  """R4.4 (every effective-mass site is the same expression) is a source-shape rule; the clause it protects -- impulse
  and delta-v go through ONE mass -- is decided on values by the whole-step momentum law R4.1, where the two scale
  parameters spring_mass_scale / spring_inertia_scale are distinct symbols.  A disagreement is a note."""

  def __init__(self, rep):
    self.rep = rep

  def check(self, cond, rule, key, message, **k):
    if not cond:
      self.rep.note('hint %s [%s]: %s' % (rule, key, message() if callable(message) else message))


REST_MODELS = [
    ('free root with a hinge child and a slide child, limited', [dict(parent=-1, joints=('f',)), dict(parent=0, joints=('h',)), dict(parent=0, joints=('s',))]),
    ('world-attached slide rail with a hinge child, limited', [dict(parent=-1, joints=('s',)), dict(parent=0, joints=('h',))]),
    ('world-attached hinge with a slide-hinge stack child, limited', [dict(parent=-1, joints=('h',)), dict(parent=0, joints=('s', 'h'))]),
    # round 11 (D11): the hinge listed BEFORE the slide -- the slide then moves along the axis carried by the hinge
    ('free root with a hinge-slide stack child, limited', [dict(parent=-1, joints=('f',)), dict(parent=0, joints=('h', 's'))]),
]


def rest(U, rep, tier, rule='R4.5', backends=('spring', 'positional', 'generalized'), models=None):
  """R4.5 (Newton's first law): a system at rest (qd = 0) in a joint configuration strictly inside its limits, without
  gravity, control, contact or joint springs, is still at rest after one step.  pipeline.init / step are executed by
  random interpretation on consistent states (x = forward(q)); the ranges are symbolic (they need not contain 0) and
  every comparison against a range end is decided as `inside`."""
  from braxlint.props import c05
  from braxlint import refkin
  import os
  s0 = int(os.environ.get('VERIF_SEED', '0') or 0)
  for backend in backends:
    f = U.func('brax.%s.pipeline.step' % backend)
    for name, links in (models or REST_MODELS):
      if backend == 'positional' and any(len(l['joints']) > 1 for l in links):
        # the positional 2-dof kernel reads the middle Euler angle through arccos * sign, outside the interpreted
        # fragment (as in C08): every trial would be undecided
        continue
      salt = [0]

      def body():
        limits = c05.has_limits(backend)
        M, sysd, tau = c05.build(links, limits=limits)
        nv = M.nv
        zero = np.array([Rat.lift(0)] * nv, dtype=object)
        sysd.f['dof'].f['stiffness'] = zero.copy()
        sysd = c05.with_gravity(sysd, P_zeros((3,)))
        if limits:
          lo, hi = sysd.f['dof'].f['limit']
          lo_k = {Rat.lift(x).key() for x in lo}
          hi_k = {Rat.lift(x).key() for x in hi}

          def decide(nm):
            if not isinstance(nm, avn.Atom):
              return None
            if nm.kind == 'any':
              return 1
            if nm.kind == 'isnan':
              return 0
            if nm.kind != 'bool' or nm[1] != '<':
              return None
            # the ranges lie on the positive side (0 < lo < q < hi, e.g. range="0.2 0.8"): a quantity that is exactly 0
            # -- the rotation angle of a slide, the offset of a hinge -- is OUTSIDE the range
            zero = (Rat.lift(0).key(),)
            if nm[2] in zero and (nm[3] in lo_k or nm[3] in hi_k):
              return 1          # 0 < lo, 0 < hi
            if nm[3] in zero and (nm[2] in lo_k or nm[2] in hi_k):
              return 0          # lo < 0, hi < 0
            if nm[3] in lo_k or nm[2] in hi_k:
              return 0          # x < lo, hi < x
            if nm[2] in lo_k or nm[3] in hi_k:
              return 1          # lo < x, x < hi
            return None
          avn.FIELD['decide'] = decide
        avn.EXPAND_CLIP[0] = (lo_k | hi_k) if limits else False      # a clip against a range end is a pair of comparisons
        # norms are the positive roots where the argument has one (|c q| / c = 1 for a unit q); elsewhere uninterpreted
        avn.FIELD['sqrt_axiom'] = 'soft'
        avn.FIELD['soft_hits'] = 0
        avn.FIELD['soft_salt'] = salt[0]
        try:
          out, _ = c05.simulate(U, backend, sysd, M.q, zero.copy(), zero.copy(), 1)
        finally:
          avn.EXPAND_CLIP[0] = False
        s_init, s1 = out
        bad = []
        for k in ('ang', 'vel'):
          if not same(s1.f['xd'].f[k], P_zeros((M.n, 3))):
            bad.append('xd.' + k)
        if not same(s1.f['qd'], zero):
          bad.append('qd')
        if not same(s1.f['x'].f['pos'], s_init.f['x'].f['pos']):
          bad.append('x.pos')
        sig = tuple(Rat.lift(v).fv for k_ in ('ang', 'vel') for v in asarr(s1.f['xd'].f[k_]).ravel()) + tuple(
            Rat.lift(v).fv for v in asarr(s1.f['qd']).ravel()) + tuple(
                (Rat.lift(a) - Rat.lift(b)).fv for a, b in zip(asarr(s1.f['x'].f['pos']).ravel(), asarr(s_init.f['x'].f['pos']).ravel()))
        return bad, avn.FIELD['soft_hits'], sig
      found = None
      undecided = 0
      for t in range(2 if tier == 'quick' else 4):
        # square roots without a root at the random point stay uninterpreted (sound for a law that holds).  A FAILING
        # trial is a verdict only if its outcome does not depend on them: no such root met, or the same outcome with
        # those atoms re-drawn (salt); otherwise another point is tried
        verdict = None
        for retry in range(12):
          sd = s0 * 100 + 40 + t + 1000 * retry
          salt[0] = 0
          bad, soft, sig = c05.trial(sd, body)
          if not bad:
            verdict = False
            break
          if soft:
            salt[0] = 1
            bad2, _, sig2 = c05.trial(sd, body)
            if sig2 != sig:
              continue
          verdict = bad
          break
        if verdict is None:
          undecided += 1
        elif verdict:
          found = verdict
          break
      if undecided:
        rep.note(rule + ' [%s, %s]: %d trial(s) undecided (every failing point depended on a value the interpreter leaves uninterpreted: '
                 'a square root without a root in GF(p), an inverse-trigonometric atom); not counted' % (backend, name, undecided))
        if not found:
          continue
      rep.check(not found, rule, '%s pipeline: a system at rest inside its limits stays at rest [%s]' % (backend, name),
                lambda: 'after one step from rest (no gravity, control, contact, joint springs; every coordinate strictly inside its '
                'symbolic range) the state moves: %s are not zero / unchanged' % ', '.join(found), where=f.where(),
                construct="init(q, 0) then step: xd' == 0, qd' == 0, x' == x  [ranges symbolic, need not contain 0]")


def run(U, rep, tier):
  # R4.8: the ranges the rest clause is stated for are the model's: `dof.limit` is the reference built from the mjModel
  # (a joint is limited iff its jnt_limited FLAG says so -- MuJoCo ignores the range of a joint with limited="false"; a
  # loader that infers "limited" from lo < hi makes a system at rest outside that ignored range start moving)
  from braxlint.props import c14 as _c14
  _c14.loader_fields(U, rep, rule='R4.8', prefix=('dof.limit',), label='loader:', floor=1)
  leaf_laws(U, rep)
  momentum(U, rep, tier)
  rest(U, rep, tier)
  # R4.6: the pipelines regroup links through scan.tree / scan.link_types / _take -- specified for every forest of the
  # bounded universe (shared with C01 R1.2)
  from braxlint.props import c01
  c01.scan_spec(U, rep, tier, rule='R4.6')
  # R4.7: at rest inside its limits the generalized pipeline's limit rows vanish -- also when a free link is listed
  # before / after / between the limited ones (q index != qd index); the solver is outside the fragment, its input is not
  # (shared with C06 R6.2)
  from braxlint.props import c06
  from braxlint.props.c16 import _Relabel
  c06.generalized_limits(U, _Relabel(rep, 'R4.7'))
  try:
    one_mass(U, _Hints(rep))
  except AnalysisError as e:
    rep.note('shape hints unavailable: %s' % e)
