"""C14 -- unsupported models are rejected, accepted models load consistently.

R14.1 [must-call]   every path to a return of each native pipeline.init calls
                    mjcf.validate_model(sys.mj_model), unless the path assumes
                    sys.mj_model is None.
R14.2 [FIN]         the path-condition table of validate_model's raises covers the
                    18 rows of specs/c14_validate.json (feature -> guard).
R14.4 [tables]      link-type alphabet / widths / dispatch tables agree; loader field
                    values equal the reference built from the mjModel layout
                    (load_model abstractly executed on mock models, braxlint/loader.py).
R14.6 [exhaustive]   System.q_idx / qd_idx / dof_link / dof_ranges / num_links equal the coordinate layout of the source
                    model for every link-type string of length <= 4 (5) and every type query.
R14.5 [abstract execution] mjcf._fuse_bodies leaves no jointless body behind (nested and sibling ones included) and keeps
                    every geom / site / jointed body at its pose -- executed on mock documents (shared with C13 R13.4).
"""
import ast
import json
import os

from braxlint import paths
from braxlint import pred
from braxlint.universe import AnalysisError, call_name, dotted, own_nodes

LEVEL = 'other'
EXPLANATION = (
    'Static rule check on the AST of /repo: (R14.1) must-call of validate_model on every '
    'entry->return path of the three native pipeline.init functions; (R14.2) every raise of '
    'validate_model is reduced to a canonical path condition (finite-domain predicate '
    'normalisation, loop variables bound to the whole iterated field) and compared with the '
    'table of declared-unsupported features; (R14.4) link-type alphabet, width tables, '
    'dispatch tables agree, and load_model -- abstractly executed on mock MuJoCo models with concrete '
    'integer / flag fields and symbolic real fields -- returns, field by field, the reference values '
    'built from the mjModel layout.  Decides the guard structure for all '
    'models; does not run MuJoCo or brax.')
TRUSTED = ['python ast', 'braxlint.pred predicate normaliser', 'specs/c14_validate.json (rows '
           'transcribed from the property statement)', 'braxlint/loader.py reference specification (field values '
           'confirmed by reading against MuJoCo mjModel documentation)']
ASSUMPTIONS = ['MuJoCo mjModel field semantics (jnt_type codes 0..3, trntype 0 = joint, qpos '
               'widths 7/4/1/1)', 'a raise of any exception type counts as rejection']

SPECS = os.path.join(os.path.dirname(os.path.dirname(os.path.dirname(os.path.abspath(__file__)))), 'specs')
NATIVE = ('generalized', 'spring', 'positional')
ALPHABET = {'f': (7, 6), '1': (1, 1), '2': (2, 2), '3': (3, 3)}


def _is_brax_call(call, mod):
  n = call_name(call, mod)
  return bool(n) and (n == 'brax' or n.startswith('brax.'))


def r14_1(U, rep):
  N = pred.Normalizer()
  for b in NATIVE:
    q = 'brax.%s.pipeline.init' % b
    f = U.func(q)
    N.mod = f.mod
    params = [a.arg for a in f.node.args.args]
    sysname = params[0]
    none_atoms = None
    ps = paths.enumerate_paths(f.node)
    bad = None
    nret = 0
    for p in ps:
      if p.exit == 'raise':
        continue
      nret += 1
      # must-call: validate_model(sys.mj_model) somewhere on the path to the return -- it raises for an
      # unsupported model wherever on the path it sits, so its position among the other calls is free
      first = None
      ok = False
      for c in p.calls():
        n = call_name(c, f.mod) or ''
        if n.endswith('.validate_model') or n == 'validate_model':
          arg = c.args[0] if c.args else None
          if arg is not None and dotted(arg) == [sysname, 'mj_model']:
            ok = True
            first = c
            break
      if not ok:
        # allowed only if the path assumes sys.mj_model is None
        env = pred.Env(params, f.mod)
        assumes_none = False
        for c in p.conds:
          if isinstance(c[0], ast.AST):
            t = pred.truthy(N.term(c[0], env))
            if not c[1]:
              t = pred.neg(t)
            for atom in (t[1] if t[0] == 'and' else [t]):
              if atom[0] == 'in' and atom[1] == ('f', sysname + '.mj_model'):
                assumes_none = True
        if not assumes_none:
          bad = (p, first)
          break
    key = '%s.pipeline.init' % b
    if bad is None:
      rep.ok('R14.1', key, construct='validate_model(%s.mj_model) called on each of the %d return paths'
             % (sysname, nret), where=f.where())
    else:
      p, first = bad
      rep.fail('R14.1', key,
               'a path to %s reaches %s without calling validate_model(%s.mj_model) '
               '(path conditions: %s)' % (
                   p.exit, ('`%s`' % ast.unparse(first.func)) if first is not None else 'the exit',
                   sysname, '; '.join('%s=%s' % (ast.unparse(c[0]), c[1]) for c in p.conds
                                      if isinstance(c[0], ast.AST)) or 'none'),
               where=f.where(first if first is not None else p.exit_node))


def r14_2(U, rep):
  f = U.func('brax.io.mjcf.validate_model')
  rows = pred.raise_table(f.node, f.mod)
  with open(os.path.join(SPECS, 'c14_validate.json')) as fh:
    spec = json.load(fh)['rows']
  rep.stat('validate_model_raises', len(rows))
  for r in spec:
    want = frozenset(r['cond'])
    hit = [x for x in rows if x['cond'] <= want]
    key = r['feature']
    if hit:
      rep.ok('R14.2', key, construct=' ∧ '.join(sorted(hit[0]['cond'])) + ' -> raise',
             where=(f.file, hit[0]['line'], f.qname))
    else:
      # nearest row for the report
      near = max(rows, key=lambda x: len(x['cond'] & want) - 0.01 * len(x['cond'] - want)) if rows else None
      rep.fail('R14.2', key,
               'no raise in validate_model is guarded by (a subset of) the condition for '
               'unsupported feature "%s"' % key,
               where=(f.file, near['line'] if near else f.line, f.qname),
               expected=' ∧ '.join(sorted(want)),
               found=' ∧ '.join(sorted(near['cond'])) if near else 'no raise at all')


def _dict_literals_with_f(fnode):
  for n in own_nodes(fnode):
    if isinstance(n, ast.Dict) and n.keys and all(
        isinstance(k, ast.Constant) and isinstance(k.value, str) for k in n.keys):
      keys = [k.value for k in n.keys]
      if 'f' in keys and all(len(k) == 1 for k in keys):
        yield n, keys


def r14_4_tables(U, rep):
  base = U.mod('brax.base')
  for name, col in (('Q_WIDTHS', 0), ('QD_WIDTHS', 1)):
    node = base.consts.get(name)
    if node is None or not isinstance(node, ast.Dict):
      raise AnalysisError('anchor brax.base.%s is not a dict literal' % name)
    try:
      got = {ast.literal_eval(k): ast.literal_eval(v) for k, v in zip(node.keys, node.values)}
    except ValueError:
      raise AnalysisError('brax.base.%s is not a literal table' % name)
    want = {k: v[col] for k, v in ALPHABET.items()}
    rep.check(got == want, 'R14.4', 'base.' + name,
              'width table %s = %r differs from MuJoCo coordinate widths %r' % (name, got, want),
              where=(base.path, node.lineno, 'brax.base'), construct=ast.unparse(node))
  # dispatch tables keyed by link type: a SOURCE-SHAPE observation (a table may legitimately be built in steps --
  # {'f': g}.update({t: h for t in '123'}) -- and the whole-pipeline interpretations of C01 / C02 / C05 / C08 execute
  # every dispatch with every link type); reported as a localisation hint only, never a verdict
  n = 0
  for q, f in sorted(U.funcs.items()):
    for node, keys in _dict_literals_with_f(f.node):
      n += 1
      if not (set(keys) == set(ALPHABET) and len(keys) == len(set(keys))):
        rep.note('hint R14.4 [dispatch:%s]: the literal link-type table has keys %r (alphabet %r)' % (q, sorted(keys), sorted(ALPHABET)))
  rep.stat('dispatch_tables', n)


def loader_fields(U, rep, rule='R14.4', prefix=None, label='field:', floor=None):
  """Definition match ON VALUES: brax.io.mjcf.load_model is abstractly executed (braxlint/loader.py) on mock MuJoCo
  models whose integer / flag fields are concrete and whose real-valued fields are symbolic; every field of the
  System it returns equals the reference built from the mjModel layout -- however the loader is written."""
  from braxlint import loader
  f = U.func('brax.io.mjcf.load_model')
  res = loader.compare_all(U.repo, only=prefix)
  by = {}
  for mock_name, path, ok in res:
    by.setdefault(path, []).append((mock_name, ok))
  if len([p for p in by if not p.startswith('structure')]) < (floor if floor is not None else 8 if prefix else 40) and all(ok for v in by.values() for _, ok in v):
    raise AnalysisError('%s: only %d loader fields compared' % (rule, len(by)))
  for path in sorted(by):
    bad = [m for m, ok in by[path] if not ok]
    if path.startswith('structure: load_model raises'):
      rep.fail(rule, label + 'loads', 'the loader fails on a supported model: %s' % path[len('structure: '):], where=f.where(),
               construct='mock model: %s' % bad[0])
      continue
    if path.startswith('structure'):
      rep.fail(rule, label + 'structure', 'the loader makes a selection / mask / branch depend on real-valued model data; in the '
               'reference every such decision is a function of the integer and flag fields (joint types, ids, *limited, '
               'biastype, trntype) only: %s' % path, where=f.where(), construct='mock model: %s' % bad[0])
      continue
    rep.check(not bad, rule, label + path,
              'the loaded `%s` is not the reference value built from the mjModel (mock model: %s)' % (path, bad[0] if bad else ''),
              where=f.where(), construct='%d mock models (integer / flag fields concrete, real fields symbolic)' % len(by[path]))
  rep.stat('loader_comparisons', len(res))


def r14_4_fields(U, rep):
  loader_fields(U, rep)


def index_helpers(U, rep, tier):
  """R14.6 [exhaustive, abstract execution]: the System helpers that map links to coordinates -- q_idx, qd_idx, dof_link,
  dof_ranges, num_links -- are executed for EVERY link-type string of length <= 4 (thorough: 5) over the alphabet and every
  queried type subset, and equal the layout of the source model: link i owns q[qadr_i : qadr_i + nq_i] and
  qd[dadr_i : dadr_i + nv_i] with the addresses accumulated in link order (MuJoCo's jnt_qposadr / jnt_dofadr)."""
  import itertools
  from braxlint import avn
  from braxlint.avn import Struct, asarr, Rat
  from braxlint.avnlib import new_interp
  I = new_interp(U.repo)
  f = U.func('brax.base.System.q_idx')
  W = ALPHABET
  maxlen = 4 if tier == 'quick' else 5
  queries = ['f', '1', '2', '3', '123', 'f123', '13', 'f2']
  bad = None
  n = 0
  ints = lambda v: [int(Rat.lift(x).constval()) for x in asarr(v).ravel()]
  for L in range(1, maxlen + 1):
    for lt in itertools.product('f123', repeat=L):
      lt = ''.join(lt)
      sysd = Struct('System', {'link_types': lt, 'link_parents': tuple(range(-1, L - 1))}, home='brax.base')
      qadr, dadr, qa, da = [], [], 0, 0
      for t in lt:
        qadr.append(qa)
        dadr.append(da)
        qa += W[t][0]
        da += W[t][1]
      for query in queries:
        n += 1
        want_q = [k for i, t in enumerate(lt) if t in query for k in range(qadr[i], qadr[i] + W[t][0])]
        want_d = [k for i, t in enumerate(lt) if t in query for k in range(dadr[i], dadr[i] + W[t][1])]
        got_q = ints(I.apply(I.attr(sysd, 'q_idx'), [query], {}))
        got_d = ints(I.apply(I.attr(sysd, 'qd_idx'), [query], {}))
        if got_q != want_q and bad is None:
          bad = ('q_idx(%r)' % query, lt, got_q, want_q)
        if got_d != want_d and bad is None:
          bad = ('qd_idx(%r)' % query, lt, got_d, want_d)
      dl = ints(I.apply(I.attr(sysd, 'dof_link'), [], {}))
      want_dl = [i for i, t in enumerate(lt) for _ in range(W[t][1])]
      if dl != want_dl and bad is None:
        bad = ('dof_link()', lt, dl, want_dl)
      dr = I.apply(I.attr(sysd, 'dof_ranges'), [], {})
      want_dr = [list(range(dadr[i], dadr[i] + W[t][1])) for i, t in enumerate(lt)]
      if [list(map(int, r)) for r in dr] != want_dr and bad is None:
        bad = ('dof_ranges()', lt, dr, want_dr)
      if int(I.apply(I.attr(sysd, 'num_links'), [], {})) != L and bad is None:
        bad = ('num_links()', lt, None, L)
  rep.check(bad is None, 'R14.6', 'System.q_idx / qd_idx / dof_link / dof_ranges / num_links == the coordinate layout of the source model',
            lambda: 'System.%s on link_types=%r returns %r, the source model\'s layout gives %r' % bad, where=f.where(),
            construct='every link-type string of length <= %d x %d type queries (%d instances)' % (maxlen, len(queries), n))


class _HintsOnly:
  def __init__(self, rep):
    self.rep = rep

  def ok(self, *a, **k):
    pass

  def fail(self, rule, key, message, **k):
    self.rep.note('hint %s [%s]: %s' % (rule, key, message))

  def check(self, cond, rule, key, message, **k):
    if not cond:
      self.fail(rule, key, message() if callable(message) else message)

  def note(self, m):
    self.rep.note(m)

  def stat(self, *a):
    pass


def r14_1_semantic(U, rep):
  """R14.1 on values: pipeline.init of each native pipeline is EXECUTED (random interpretation) on a small symbolic system
  that carries a marker object as sys.mj_model, with mjcf.validate_model replaced by a recorder: the recorder must have been
  called with exactly that marker -- however the call is reached (inline, through a helper, before or after other work).  With
  mj_model None nothing is validated and init still returns."""
  from braxlint import avn
  from braxlint.avn import fn, HostObj
  from braxlint.props import c05

  class Marker(HostObj):
    pass
  links = [dict(parent=-1, joints=('f',)), dict(parent=0, joints=('h',))]
  for b in NATIVE:
    f = U.func('brax.%s.pipeline.init' % b)
    for with_model in (True, False):
      def body():
        M, sysd, tau = c05.build(links, limits=False)
        marker = Marker() if with_model else None
        sysd.f['mj_model'] = marker
        I = c05.new_interp(U.repo, reset=False)
        seen = []
        I.contracts[('brax.io.mjcf', 'validate_model')] = lambda mj: seen.append(mj)
        I.contracts[('brax.contact', 'get')] = lambda s_, x: None
        I.apply(fn('brax.%s.pipeline' % b, 'init'), [sysd, M.q, M.qd], {})
        return seen, marker
      try:
        seen, marker = c05.trial(4200, body)
      except avn.OutOfFragment as e:
        rep.note('R14.1 [%s.pipeline.init] undecided on values (%s): the path rule decides' % (b, e))
        r14_1(U, rep)
        return
      if with_model:
        rep.check(len(seen) >= 1 and all(x is marker for x in seen), 'R14.1', '%s.pipeline.init validates the model it is given' % b,
                  'init of the %s pipeline returns without having called mjcf.validate_model on sys.mj_model (called with: %s)' % (
                      b, [type(x).__name__ for x in seen] or 'nothing'), where=f.where(),
                  construct='sys.mj_model = <marker>; mjcf.validate_model recorded')
      else:
        rep.check(seen == [], 'R14.1', '%s.pipeline.init with mj_model None validates nothing and returns' % b,
                  'init validates something although sys.mj_model is None', where=f.where())
  r14_1(U, _HintsOnly(rep))


def run(U, rep, tier):
  index_helpers(U, rep, tier)
  r14_1_semantic(U, rep)
  r14_2(U, rep)
  r14_4_tables(U, rep)
  r14_4_fields(U, rep)
  # R14.5: an accepted document reaches MuJoCo with every jointless body fused away (one joint type per remaining body:
  # the loader's link tables assume it) and every geom / site / jointed body where the document put it (shared with C13)
  from braxlint.props import c13
  c13.geometry_preserved(U, rep, tier, rule='R14.5', nonunit=False)
