"""C14 -- unsupported models are rejected, accepted models load consistently.

R14.1 [must-call]   every path through each native pipeline.init calls
                    mjcf.validate_model(sys.mj_model) before any other brax call,
                    unless the path assumes sys.mj_model is None.
R14.2 [FIN]         the path-condition table of validate_model's raises covers the
                    18 rows of specs/c14_validate.json (feature -> guard).
R14.4 [tables]      link-type alphabet / widths / dispatch tables agree; loader field
                    provenance equals specs/c14_fields.json.
"""
import ast
import json
import os

from braxlint import paths
from braxlint import pred
from braxlint.universe import AnalysisError, call_name, dotted, own_nodes

LEVEL = 'other'
EXPLANATION = (
    'Static rule check on the AST of /repo: (R14.1) must-call of validate_model on every '
    'entry->return path of the three native pipeline.init functions; (R14.2) every raise of '
    'validate_model is reduced to a canonical path condition (finite-domain predicate '
    'normalisation, loop variables bound to the whole iterated field) and compared with the '
    'table of declared-unsupported features; (R14.4) link-type alphabet, width tables, '
    'dispatch tables and the def-use provenance of the System/Link/DoF/Actuator fields built '
    'by load_model are compared with the reference table.  Decides the guard structure for all '
    'models; does not run MuJoCo or brax.')
TRUSTED = ['python ast', 'braxlint.pred predicate normaliser', 'specs/c14_validate.json (rows '
           'transcribed from the property statement)', 'specs/c14_fields.json (field provenance '
           'confirmed by reading against MuJoCo mjModel documentation)']
ASSUMPTIONS = ['MuJoCo mjModel field semantics (jnt_type codes 0..3, trntype 0 = joint, qpos '
               'widths 7/4/1/1)', 'a raise of any exception type counts as rejection']

SPECS = os.path.join(os.path.dirname(os.path.dirname(os.path.dirname(os.path.abspath(__file__)))), 'specs')
NATIVE = ('generalized', 'spring', 'positional')
ALPHABET = {'f': (7, 6), '1': (1, 1), '2': (2, 2), '3': (3, 3)}


def _is_brax_call(call, mod):
  n = call_name(call, mod)
  return bool(n) and (n == 'brax' or n.startswith('brax.'))


def r14_1(U, rep):
  N = pred.Normalizer()
  for b in NATIVE:
    q = 'brax.%s.pipeline.init' % b
    f = U.func(q)
    N.mod = f.mod
    params = [a.arg for a in f.node.args.args]
    sysname = params[0]
    none_atoms = None
    ps = paths.enumerate_paths(f.node)
    bad = None
    nret = 0
    for p in ps:
      if p.exit == 'raise':
        continue
      nret += 1
      first = None
      for c in p.calls():
        if _is_brax_call(c, f.mod) or (dotted(c.func) and dotted(c.func)[-1] == 'validate_model'):
          first = c
          break
      ok = False
      if first is not None:
        n = call_name(first, f.mod) or ''
        if n.endswith('.validate_model') or n == 'validate_model':
          arg = first.args[0] if first.args else None
          if arg is not None and dotted(arg) == [sysname, 'mj_model']:
            ok = True
      if not ok:
        # allowed only if the path assumes sys.mj_model is None
        env = pred.Env(params, f.mod)
        assumes_none = False
        for c in p.conds:
          if isinstance(c[0], ast.AST):
            t = pred.truthy(N.term(c[0], env))
            if not c[1]:
              t = pred.neg(t)
            for atom in (t[1] if t[0] == 'and' else [t]):
              if atom[0] == 'in' and atom[1] == ('f', sysname + '.mj_model'):
                assumes_none = True
        if not assumes_none:
          bad = (p, first)
          break
    key = '%s.pipeline.init' % b
    if bad is None:
      rep.ok('R14.1', key, construct='validate_model(%s.mj_model) first brax call on %d return paths'
             % (sysname, nret), where=f.where())
    else:
      p, first = bad
      rep.fail('R14.1', key,
               'a path to %s reaches %s without first calling validate_model(%s.mj_model) '
               '(path conditions: %s)' % (
                   p.exit, ('`%s`' % ast.unparse(first.func)) if first is not None else 'the exit',
                   sysname, '; '.join('%s=%s' % (ast.unparse(c[0]), c[1]) for c in p.conds
                                      if isinstance(c[0], ast.AST)) or 'none'),
               where=f.where(first if first is not None else p.exit_node))


def r14_2(U, rep):
  f = U.func('brax.io.mjcf.validate_model')
  rows = pred.raise_table(f.node, f.mod)
  with open(os.path.join(SPECS, 'c14_validate.json')) as fh:
    spec = json.load(fh)['rows']
  rep.stat('validate_model_raises', len(rows))
  for r in spec:
    want = frozenset(r['cond'])
    hit = [x for x in rows if x['cond'] <= want]
    key = r['feature']
    if hit:
      rep.ok('R14.2', key, construct=' ∧ '.join(sorted(hit[0]['cond'])) + ' -> raise',
             where=(f.file, hit[0]['line'], f.qname))
    else:
      # nearest row for the report
      near = max(rows, key=lambda x: len(x['cond'] & want) - 0.01 * len(x['cond'] - want)) if rows else None
      rep.fail('R14.2', key,
               'no raise in validate_model is guarded by (a subset of) the condition for '
               'unsupported feature "%s"' % key,
               where=(f.file, near['line'] if near else f.line, f.qname),
               expected=' ∧ '.join(sorted(want)),
               found=' ∧ '.join(sorted(near['cond'])) if near else 'no raise at all')


def _dict_literals_with_f(fnode):
  for n in own_nodes(fnode):
    if isinstance(n, ast.Dict) and n.keys and all(
        isinstance(k, ast.Constant) and isinstance(k.value, str) for k in n.keys):
      keys = [k.value for k in n.keys]
      if 'f' in keys and all(len(k) == 1 for k in keys):
        yield n, keys


def r14_4_tables(U, rep):
  base = U.mod('brax.base')
  for name, col in (('Q_WIDTHS', 0), ('QD_WIDTHS', 1)):
    node = base.consts.get(name)
    if node is None or not isinstance(node, ast.Dict):
      raise AnalysisError('anchor brax.base.%s is not a dict literal' % name)
    try:
      got = {ast.literal_eval(k): ast.literal_eval(v) for k, v in zip(node.keys, node.values)}
    except ValueError:
      raise AnalysisError('brax.base.%s is not a literal table' % name)
    want = {k: v[col] for k, v in ALPHABET.items()}
    rep.check(got == want, 'R14.4', 'base.' + name,
              'width table %s = %r differs from MuJoCo coordinate widths %r' % (name, got, want),
              where=(base.path, node.lineno, 'brax.base'), construct=ast.unparse(node))
  # dispatch tables keyed by link type anywhere in the analysed universe
  n = 0
  for q, f in sorted(U.funcs.items()):
    for node, keys in _dict_literals_with_f(f.node):
      n += 1
      rep.check(set(keys) == set(ALPHABET) and len(keys) == len(set(keys)), 'R14.4',
                'dispatch:' + q, 'link-type dispatch table has keys %r, alphabet is %r' % (
                    sorted(keys), sorted(ALPHABET)), where=f.where(node),
                construct='{' + ', '.join(repr(k) for k in keys) + '}')
  if n < 5:
    raise AnalysisError('R14.4: only %d link-type dispatch tables found (floor 5)' % n)
  rep.stat('dispatch_tables', n)


class _Prov:
  """Collects canonical provenance rows from load_model."""

  def __init__(self, f):
    self.rows = {}
    self.f = f

    def on_assign(s, pc, env, N):
      tg = s.targets[0] if isinstance(s, ast.Assign) else s.target
      if isinstance(tg, ast.Name) and tg.id in ('typ', 'motion', 'limit', 'stiffness') and pc:
        val = env.get(tg.id)
        self.add('%s | %s' % (tg.id, ' ∧ '.join(sorted(pred.atoms_of(pc)))), val, s)
      if isinstance(tg, ast.Subscript) and isinstance(tg.value, ast.Attribute):
        base = N.term(tg.value, env)
        idx = N.index(tg.slice, env)
        d = dotted(tg.value)
        self.add('store %s[%s]' % ('.'.join(d) if d else pred.show(base), pred.show(idx)),
                 N.term(s.value, env), s)
      if isinstance(tg, ast.Subscript) and isinstance(tg.value, ast.Name) is False:
        pass

    def on_expr(s, pc, env, N):
      v = s.value
      if isinstance(v, ast.Call) and isinstance(v.func, ast.Attribute) and v.func.attr == 'append' \
          and isinstance(v.func.value, ast.Name) and v.args:
        self.add('append %s' % v.func.value.id, N.term(v.args[0], env), s, multi=True)

    self.env = pred.sym_walk(f.node, f.mod, on_assign=on_assign, on_expr=on_expr,
                             drop_raise_negations=False)

  def add(self, key, term, node, multi=False):
    s = pred.show(term)
    if multi and key in self.rows and self.rows[key][0] != s:
      k = 2
      while '%s #%d' % (key, k) in self.rows:
        k += 1
      key = '%s #%d' % (key, k)
    self.rows[key] = (s, node.lineno)


def _find_calls(term, name, out):
  if isinstance(term, tuple):
    if term and term[0] == 'call' and term[1].split('.')[-1] == name:
      out.append(term)
    for x in term:
      if isinstance(x, (tuple, frozenset)):
        _find_calls(tuple(x) if isinstance(x, frozenset) else x, name, out)
  return out


def provenance_rows(U):
  f = U.func('brax.io.mjcf.load_model')
  P = _Prov(f)
  rows = dict(P.rows)
  sysv = P.env.get('sys')
  if sysv is None:
    raise AnalysisError('load_model: no local `sys`')
  for cname in ('System', 'Link', 'DoF', 'Actuator', 'Inertia'):
    calls = _find_calls(sysv, cname, [])
    if not calls:
      raise AnalysisError('load_model: constructor %s(...) not found in the returned system' % cname)
    c = calls[0]
    if c[2]:
      raise AnalysisError('load_model: positional arguments to %s(...) are not modelled' % cname)
    for k, v in c[3]:
      if k == '**':
        if v[0] == 'sub' and v[1][0] == 'dict':
          for dk, dv in v[1][1]:
            if dk[0] == 'c':
              rows['%s.%s' % (cname, dk[1])] = (pred.show(('sub', dv, v[2])), f.line)
        else:
          rows['%s.**' % cname] = (pred.show(v), f.line)
      else:
        s = pred.show(v)
        if len(s) < 400:
          rows['%s.%s' % (cname, k)] = (s, f.line)
  # Transforms inside Link
  link = _find_calls(sysv, 'Link', [])[0]
  for k, v in link[3]:
    if k in ('transform', 'joint'):
      t = _find_calls(v, 'Transform', [])
      if t:
        for kk, vv in t[0][3]:
          rows['Link.%s.%s' % (k, kk)] = (pred.show(vv), f.line)
  inertia = _find_calls(sysv, 'Inertia', [])[0]
  for k, v in inertia[3]:
    if k == 'transform':
      t = _find_calls(v, 'Transform', [])
      if t:
        for kk, vv in t[0][3]:
          rows['Inertia.transform.%s' % kk] = (pred.show(vv), f.line)
  # the slice applied to the whole link tree (world body dropped)
  lk = [v for k, v in _find_calls(sysv, 'System', [])[0][3] if k == 'link']
  if lk:
    t = lk[0]
    rows['System.link (wrapper)'] = (pred.show(t).split('brax.base.Link(')[0] + 'Link(...)' +
                                     pred.show(t).rsplit(')', 1)[-1], f.line)
  return rows, f


def r14_4_fields(U, rep):
  rows, f = provenance_rows(U)
  with open(os.path.join(SPECS, 'c14_fields.json')) as fh:
    spec = json.load(fh)['rows']
  rep.stat('provenance_rows_extracted', len(rows))
  for key, want in sorted(spec.items()):
    alts = want if isinstance(want, list) else [want]
    got = rows.get(key)
    if got is None:
      # multi rows may be renumbered; look for the value under any numbered sibling
      base = key.split(' #')[0]
      sib = [v for k, v in rows.items() if k.split(' #')[0] == base and v[0] in alts]
      if sib:
        got = sib[0]
    if got is not None and got[0] in alts:
      rep.ok('R14.4', 'field:' + key, construct=got[0][:200], where=(f.file, got[1], f.qname))
    else:
      rep.fail('R14.4', 'field:' + key,
               'loader field `%s` is not built from the reference source' % key,
               where=(f.file, got[1] if got else f.line, f.qname), expected=' | '.join(alts),
               found=got[0] if got else 'row not found')


def run(U, rep, tier):
  r14_1(U, rep)
  r14_2(U, rep)
  r14_4_tables(U, rep)
  r14_4_fields(U, rep)
