"""C12 -- the generalized integrator is consistent: conserved quantities drift only O(dt).

The drift of an invariant E over a fixed horizon T is (T / dt) x (local error per step); it vanishes
with dt iff the local error is O(dt^2), i.e. iff the first-order coefficient of
      dt  |->  E(step_dt(q, qd))
vanishes identically.  That coefficient is a rational function of the model parameters and the state and
is decided statically:
R12.1 [RI + forward-mode AD in the abstract domain] generalized.pipeline.init / step are abstractly
      interpreted from their AST on symbolic conservative models (no damping, limits, actuators or
      contacts; joint springs, armature, rotated bodies, offset anchors / centres of mass, stacks) with the
      time step dt = 0 + eps in GF(p)[eps]/(eps^2) (dual numbers), so every value carries its exact
      dt-derivative at dt = 0.  The total mechanical energy of the RETURNED state -- computed from first
      principles by braxlint/refkin.py (kinetic energy of all bodies + armature, gravitational and
      joint-spring potential), not from brax's mass matrix -- must have zero dt-derivative:
            d/d(dt) E(step_dt(s)) |_{dt=0}  ==  0       for every model and state s.
R12.2 same for a free-floating model's total linear momentum:  d/d(dt) P(step_dt(s)) |_0 == M_total g.
(Whether the position update consumes the new or the old velocity is NOT part of this property: explicit and
semi-implicit Euler differ at O(dt^2) per step and both drift O(dt); that ordering is decided by C02 R2.4.)
That local O(dt^2) consistency implies 'the drift halves when dt is halved' is the standard convergence
theorem for one-step methods (smooth right-hand side, fixed horizon); it is argued, not enumerated.
"""
import os

import numpy as np

from braxlint import avn, refkin
from braxlint.avn import Dual, Rat, Struct, asarr, dual_parts, fn, same, symarr
from braxlint.avnlib import new_interp, sym
from braxlint.props import c05
from braxlint.props.c01 import F, H, S
from braxlint.universe import AnalysisError

LEVEL = 'other'
EXPLANATION = (
    'Static consistency check of the generalized integrator: pipeline.step is abstractly interpreted from its '
    'AST on symbolic conservative models with the time step a dual number (dt = 0 + eps), which yields the exact '
    'first-order coefficient in dt of the returned state; the first-principles total energy (and, for '
    'free-floating models, the total linear momentum minus M g t) of the returned state has a vanishing '
    'first-order coefficient as an identity in all model parameters, joint coordinates and velocities '
    '(random interpretation in GF(2^61-1)).  A local error of O(dt^2) in the invariants is necessary and '
    'sufficient for their drift over a fixed horizon to vanish with dt.')
TRUSTED = ['python ast', 'AVN interpreter', 'dual-number arithmetic in GF(p)[eps]/(eps^2)', 'reference energy / momentum in braxlint/refkin.py',
           'convergence theorem for one-step methods (local O(dt^2) <=> global O(dt) drift over a fixed horizon)']
ASSUMPTIONS = ['instantiated topologies (<= 4 links, stacks of <= 2 joints); generalisation rests on scan.py being interpreted as is',
               'the numeric drift ratio over dt, dt/2, dt/4 is a consequence (convergence theorem), not measured',
               'exact mass-matrix inverse (matrix_inv_iterations = 0), as in the property\'s quantifier']

MODELS = [
    ('free-floating: free root with hinge and slide children', [dict(parent=-1, joints=F), dict(parent=0, joints=H), dict(parent=0, joints=S)], True),
    ('double pendulum with a slide (world-attached, rotated bodies, springs)', [dict(parent=-1, joints=H), dict(parent=0, joints=S), dict(parent=1, joints=H)], False),
]
MODELS.append(('double pendulum whose lower body has a hinge followed by a spring-loaded slide (joint stack)',
               [dict(parent=-1, joints=H), dict(parent=0, joints=H + S)], False))
MODELS.append(('two trees: a free body listed before a sprung fixed-base double pendulum',
               [dict(parent=-1, joints=F), dict(parent=-1, joints=H), dict(parent=1, joints=H)], False))
MODELS.append(('two trees: a sprung fixed-base pendulum listed BEFORE a free body with a sprung flap',
               [dict(parent=-1, joints=H), dict(parent=-1, joints=F), dict(parent=1, joints=H)], False))
MODELS_THOROUGH = [
    ('free-floating chain with a hinge-slide stack', [dict(parent=-1, joints=F), dict(parent=0, joints=H + S), dict(parent=1, joints=H)], True),
    ('world-attached slide-hinge stack with a hinge child', [dict(parent=-1, joints=S + H), dict(parent=0, joints=H)], False),
]


def conservative(links):
  """Symbolic conservative model: no damping / limits / actuators; springs on hinge / slide dofs."""
  M, sysd, tau = c05.build(links)
  nv = M.nv
  sysd.f['dof'].f['damping'] = np.array([Rat.lift(0)] * nv, dtype=object)
  sysd.f['dof'].f['limit'] = None
  tau = np.array([Rat.lift(0)] * nv, dtype=object)
  # sys.opt.gravity keeps the value at load time: the model under test has its gravity REPLACED afterwards
  # (sys.replace(gravity=...)), and the invariants are stated for sys.gravity
  opt = sysd.f['opt']
  sysd.f['opt'] = Struct('Opt', dict(opt.f, gravity=symarr('gload', (3,))))
  return M, sysd, tau


def at_state(M, q, qd):
  """A view of the reference model at another state (sines / cosines through the interpreter's primitives,
  which carry the dt-derivative)."""
  import copy
  V = copy.copy(M)
  V.q, V.qd = asarr(q), asarr(qd)
  V.trig = {}
  for d, qi in M.q_index.items():
    if M.dofs[d][1] == 'h':
      half = Rat.lift(V.q[qi]) / 2
      V.trig[d] = (avn.uf('sin', half), avn.uf('cos', half))
  return V


def invariants(M, sysd, q, qd):
  """(total energy, total linear momentum, total mass) of the reference model at (q, qd)."""
  V = at_state(M, q, qd)
  g = asarr(sysd.f['gravity'])
  twoT = V.kinetic_energy_x2(V.qd)
  pot = Rat.lift(0)
  mom = np.array([Rat.lift(0)] * 3, dtype=object)
  for i, (c, vc, w, Iw) in enumerate(V.com_motion(V.qd)):
    pot = pot - M.mass[i] * np.dot(g, c)
    mom = mom + M.mass[i] * vc
  k = sysd.f['dof'].f['stiffness']
  for d, qi in M.q_index.items():
    pot = pot + k[d] * V.q[qi] * V.q[qi] / 2
  return twoT / 2 + pot, mom, sum(M.mass, Rat.lift(0))


def trial(U, links, seed, max_tries=80, before=None):
  """before: another model stepped FIRST in the same session (the same process state: module-level caches of the analysed
  program survive from one model to the next)."""
  for t in range(max_tries):
    avn.field_mode(seed * 104729 + t, decide=lambda nm: 1 if nm.kind == 'any' else None)
    avn.FIELD['sqrt_axiom'] = True
    avn.FIELD['dual'] = {'dt': Dual(0, 1)}
    avn.set_repo(U.repo)
    avn.reset_atoms()
    try:
      if before is not None:
        Mb, sysb, taub = conservative(before)
        try:
          c05.simulate(U, 'generalized', sysb, Mb.q, Mb.qd, taub, 1)
        except IndexError:
          pass
      M, sysd, tau = conservative(links)
      if dual_parts(sysd.f['opt'].f['timestep']) != (0, 1):
        raise AnalysisError('C12: the time-step symbol is not the dual variable')
      states, calls = c05.simulate(U, 'generalized', sysd, M.q, M.qd, tau, 1)
      s0, s1 = states
      E0, P0, mtot = invariants(M, sysd, s0.f['q'], s0.f['qd'])
      E1, P1, _ = invariants(M, sysd, s1.f['q'], s1.f['qd'])
      g = asarr(sysd.f['gravity'])
      out = {'E0': dual_parts(E0), 'E1': dual_parts(E1), 'P0': [dual_parts(x) for x in P0], 'P1': [dual_parts(x) for x in P1],
             'Mg': [dual_parts(mtot * gi)[0] for gi in g], 'calls': calls}
      # the velocity must actually change at first order (otherwise the test is vacuous)
      out['moves'] = any(dual_parts(x)[1] != 0 for x in asarr(s1.f['qd']))
      return out
    except avn.NonResidue:
      continue
    finally:
      avn.exact_mode()
  raise AnalysisError('C12: no random point with all square-root arguments quadratic residues in %d tries' % max_tries)


def run(U, rep, tier):
  # R12.3: the recursions of the step run through scan.tree / scan.link_types / _take: specified for every forest of the
  # bounded universe (shared with C01 R1.2) -- the instantiated models are a few tree shapes
  from braxlint.props import c01
  c01.scan_spec(U, rep, tier, rule='R12.3')
  f = U.func('brax.generalized.integrator.integrate')
  s0 = int(os.environ.get('VERIF_SEED', '0') or 0)
  ntr = 2 if tier == 'quick' else 5
  calls = 0
  # the last instance steps a BRANCHED tree first and then, in the same session, a chain with the same link types and
  # other parents: a statement "for all models" also covers the second model of a process
  seq = ('a serial chain of three hinges stepped AFTER a branched tree with the same link types',
         [dict(parent=-1, joints=H), dict(parent=0, joints=H), dict(parent=1, joints=H)], False,
         [dict(parent=-1, joints=H), dict(parent=0, joints=H), dict(parent=0, joints=H)])
  for inst in [m_ + (None,) for m_ in MODELS + (MODELS_THOROUGH if tier == 'thorough' else [])] + [seq]:
    name, links, floating, before = inst
    badE = badP = None
    vac = False
    for t in range(ntr):
      try:
        r = trial(U, links, s0 * 50 + t, before=before)
      except IndexError as e:
        rep.fail('R12.1', 'energy is conserved to first order in dt [%s]' % name, 'the step indexes an array out of bounds on this '
                 'model (%s): JAX clamps / drops silently and the result is not the step of this model' % e, where=f.where())
        badE = 'oob'
        break
      calls += r['calls']
      if r['E1'][0] != r['E0'][0] or r['E0'][1] != 0:
        raise AnalysisError('C12: the energy of the state at dt = 0 is not the initial energy (reference model inconsistent)')
      if r['E1'][1] != 0 and badE is None:
        badE = t
      if floating and any(p1[1] != mg for p1, mg in zip(r['P1'], r['Mg'])) and badP is None:
        badP = t
      vac = vac or not r['moves']
    if vac:
      raise AnalysisError('C12 [%s]: the velocity has no first-order change in dt: vacuous instance' % name)
    if badE == 'oob':
      continue
    rep.check(badE is None, 'R12.1', 'energy is conserved to first order in dt [%s]' % name,
              'd/d(dt) of the total mechanical energy of the returned state at dt = 0 is not identically zero '
              '(random-interpretation trial %s): the local energy error is O(dt), so the drift over a fixed horizon does not '
              'vanish with the step size' % badE, where=f.where(),
              construct='dt = 0 + eps (dual number); E = sum 1/2 m|v_com|^2 + 1/2 w.Iw + 1/2 armature qd^2 - sum m g.com + 1/2 k q^2  [%d GF(p) trials]' % ntr)
    if floating:
      rep.check(badP is None, 'R12.2', 'linear momentum minus M g t is conserved to first order in dt [%s]' % name,
                'd/d(dt) of the total linear momentum of the returned state at dt = 0 is not M_total * gravity '
                '(random-interpretation trial %s)' % badP, where=f.where(), construct='P = sum m v_com; dP/d(dt)|0 == (sum m) g')
  rep.stat('interpreter_calls', calls)
