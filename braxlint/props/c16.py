"""C16 -- bundled environments honour the Env contract and stay numerically finite.

R16.1 library conformance: every call (in the env modules, the native pipelines' reach and the
      training wrappers) whose callee resolves into an installed third-party module exists
      there and binds the call's positional count / keyword names (inspect.signature).
R16.2 pytree stability: metrics / info keys written in step are created in reset; step returns
      state.replace(...) of existing State fields.
R16.3 reset passes a zero constructor as `done`.
R16.4 purity: no host randomness / time / environment / global or attribute writes in
      reset/step/_get_obs; every jax.random sampler's key derives from the rng parameter.
R16.5 observation_size from reset(...).obs; action_size is sys.act_size() or a literal equal to
      the number of actuators in the class's XML asset.
R16.6 registry <-> classes <-> backends.
R16.7 unit-quaternion typestate at every state sink of the native pipelines.
"""
import ast
import importlib
import inspect
import os
import warnings
import xml.etree.ElementTree as ET

from braxlint import pred
from braxlint import typestate as ts
from braxlint.universe import AnalysisError, call_name, dotted, own_nodes

LEVEL = 'other'
EXPLANATION = (
    'Static rule check on the AST of the 11 registered physics environments, PipelineEnv, the '
    'training wrappers and the three native pipelines: call-site conformance against the '
    'signatures of the installed libraries (the failure mode of a bundled environment that '
    'cannot even be stepped), pytree-structure stability between reset and step, constant '
    'provenance of done, an effect (purity) analysis with PRNG-key provenance, size/registry/'
    'backend agreement, and a unit-quaternion typestate analysis (abstract interpretation with '
    'callee summaries) proving that every state a native init/step returns carries normalised '
    'link rotations on every path.')
TRUSTED = ['python ast', 'inspect.signature of the installed jax / numpy / mujoco / flax (R16.1 only; '
           'brax itself is never imported)', 'typestate transfer functions (braxlint/typestate.py)',
           'MuJoCo normalises body quaternions at compile time']
ASSUMPTIONS = ['finiteness over 1000-step histories is numeric and not decided',
               'the incoming state of step carries unit rotations (inductive hypothesis; init is checked)']

NATIVE = ('generalized', 'spring', 'positional')
STATE_FIELDS = ('pipeline_state', 'obs', 'reward', 'done', 'metrics', 'info')
SAMPLERS = ('uniform', 'normal', 'randint', 'bernoulli', 'choice', 'permutation', 'categorical',
            'truncated_normal', 'gumbel', 'exponential', 'beta', 'gamma', 'laplace', 'bits', 'ball',
            'multivariate_normal', 'orthogonal', 'rademacher', 'shuffle', 'cauchy', 'dirichlet', 't')


def registry(U):
  """name -> (module name, class name) from brax.envs._envs."""
  m = U.mod('brax.envs')
  node = m.consts.get('_envs')
  if not isinstance(node, ast.Dict):
    raise AnalysisError('anchor brax.envs._envs is not a dict literal')
  out = {}
  for k, v in zip(node.keys, node.values):
    d = dotted(v)
    if not (isinstance(k, ast.Constant) and d and len(d) == 2 and d[0] in m.alias):
      raise AnalysisError('brax.envs._envs entry %s is not `module.Class`' % ast.unparse(v))
    out[k.value] = (m.alias[d[0]], d[1])
  return out


def physics_envs(U):
  reg = registry(U)
  return {k: v for k, v in reg.items() if k != 'fast'}


def method(U, modname, cname, name):
  return U.funcs.get('%s.%s.%s' % (modname, cname, name))


# ------------------------------------------------------------------ R16.1
_RESOLVE_CACHE = {}


def _resolve(dotted_name):
  if dotted_name in _RESOLVE_CACHE:
    return _RESOLVE_CACHE[dotted_name]
  parts = dotted_name.split('.')
  res = None
  for i in range(len(parts), 0, -1):
    try:
      with warnings.catch_warnings():
        warnings.simplefilter('ignore')
        m = importlib.import_module('.'.join(parts[:i]))
    except Exception:  # pylint: disable=broad-except
      continue
    o = m
    try:
      for p in parts[i:]:
        o = getattr(o, p)
      res = ('ok', o)
    except AttributeError:
      res = ('missing', None)
    except Exception:  # pylint: disable=broad-except
      res = None
    break
  _RESOLVE_CACHE[dotted_name] = res
  return res


THIRD_PARTY = ('jax', 'numpy', 'mujoco', 'flax', 'jaxopt', 'optax', 'functools', 'itertools')


def r16_1(U, rep, scope, tier):
  checked = hits = 0
  os.environ.setdefault('JAX_PLATFORMS', 'cpu')
  for q in sorted(scope):
    f = U.funcs[q]
    local = {a.arg for a in ast.walk(f.node) if isinstance(a, ast.arg)}
    for n in own_nodes(f.node):
      if isinstance(n, (ast.Assign, ast.For)):
        pass
    for n in own_nodes(f.node):
      if not isinstance(n, ast.Call):
        continue
      d = dotted(n.func)
      if not d or d[0] not in f.mod.alias or d[0] in local:
        continue
      full = '.'.join(f.mod.alias[d[0]].split('.') + d[1:])
      if not full.startswith(THIRD_PARTY) or full.startswith('brax'):
        continue
      r = _resolve(full)
      if r is None:
        continue
      key = '%s|%s' % (q, full)
      if r[0] == 'missing':
        hits += 1
        rep.fail('R16.1', key + '|missing', 'installed library has no attribute `%s`' % full,
                 where=f.where(n), construct=ast.unparse(n)[:160])
        continue
      o = r[1]
      if any(isinstance(a, ast.Starred) for a in n.args) or any(k.arg is None for k in n.keywords):
        continue
      if inspect.isclass(o) or not callable(o):
        continue
      try:
        sig = inspect.signature(o)
      except (TypeError, ValueError):
        continue
      checked += 1
      try:
        sig.bind(*[None] * len(n.args), **{k.arg: None for k in n.keywords})
        rep.ok('R16.1', key, construct='%s(%d positional%s)' % (full, len(n.args), ''.join(
            ', %s=' % k.arg for k in n.keywords)), where=f.where(n), nontrivial=bool(n.keywords))
      except TypeError as e:
        hits += 1
        bad = [k.arg for k in n.keywords if k.arg not in sig.parameters]
        rep.fail('R16.1', '%s|%s(%s=)' % (q, full, ','.join(bad)) if bad else key + '|arity',
                 'call does not bind the installed signature %s%s: %s' % (full, sig, e),
                 where=f.where(n), construct=ast.unparse(n)[:200])
  rep.stat('library_calls_checked', checked)
  if checked < 150:
    raise AnalysisError('R16.1 resolved only %d third-party call sites (floor 150)' % checked)


# ------------------------------------------------------------ R16.2 / R16.3
def _dict_keys(node):
  if isinstance(node, ast.Dict):
    ks = []
    for k in node.keys:
      if not (isinstance(k, ast.Constant) and isinstance(k.value, str)):
        return None
      ks.append(k.value)
    return ks
  if isinstance(node, ast.Call) and dotted(node.func) == ['dict'] and not node.args:
    return [k.arg for k in node.keywords]
  return None


def _local_def(fnode, name):
  """Last simple assignment `name = expr` in a function body (own statements)."""
  val = None
  for n in own_nodes(fnode):
    if isinstance(n, ast.Assign) and len(n.targets) == 1 and isinstance(n.targets[0], ast.Name) \
        and n.targets[0].id == name:
      val = n.value
  return val


def _state_ctor(fnode):
  for n in own_nodes(fnode):
    if isinstance(n, ast.Return) and isinstance(n.value, ast.Call):
      d = dotted(n.value.func)
      if d and d[-1] == 'State':
        return n.value
  return None


def _ctor_arg(call, name):
  idx = STATE_FIELDS.index(name)
  for k in call.keywords:
    if k.arg == name:
      return k.value
  if len(call.args) > idx:
    return call.args[idx]
  return None


def _eval_slice(U, f, expr):
  """Keys of the dict an expression of function f evaluates to, by interpreting the statements it depends on (backward
  slice over local names) with every value the slice does not define replaced by a fresh symbol: the KEY SET of a
  metrics / info dict is host data even when it is built by a comprehension, dict(zip(...)), update() ..."""
  from braxlint import avn
  from braxlint.avn import Struct
  from braxlint.avnlib import new_interp, sym
  need = {n.id for n in ast.walk(expr) if isinstance(n, ast.Name)}
  keep = []
  for s_ in reversed(f.node.body):
    tg = set()
    for x in ([s_] if isinstance(s_, (ast.Assign, ast.AugAssign, ast.AnnAssign)) else
              [y for y in ast.walk(s_) if isinstance(y, (ast.Assign, ast.AugAssign, ast.AnnAssign))] if isinstance(s_, (ast.If, ast.For, ast.With)) else []):
      for t in (x.targets if isinstance(x, ast.Assign) else [x.target]):
        tg |= _assigned(t)
    mut = isinstance(s_, ast.Expr) and isinstance(s_.value, ast.Call) and isinstance(s_.value.func, ast.Attribute) and \
        isinstance(s_.value.func.value, ast.Name) and s_.value.func.value.id in need      # x.update(...), x.setdefault(...)
    sub = isinstance(s_, ast.Assign) and isinstance(s_.targets[0], ast.Subscript) and isinstance(s_.targets[0].value, ast.Name) \
        and s_.targets[0].value.id in need
    if (tg & need) or mut or sub:
      keep.append(s_)
      need |= {n.id for n in ast.walk(s_) if isinstance(n, ast.Name) and isinstance(n.ctx, ast.Load)}
  I = new_interp(U.repo)
  fresh = {}

  class Env(dict):
    def __missing__(self, k):
      raise KeyError(k)
  env = {'v': {}, 'p': None}
  mock = lambda tag: Struct('Mock', {'__missing__': lambda a, tag=tag: sym('%s_%s' % (tag, a))})
  for p_ in [a.arg for a in f.node.args.args]:
    env['v'][p_] = mock(p_)
  base_lookup = I.lookup

  def lookup(name, e, mod):
    try:
      return base_lookup(name, e, mod)
    except avn.OutOfFragment:
      if name not in fresh:
        fresh[name] = sym('free_' + name)
      return fresh[name]
  I.lookup = lookup
  try:
    for s_ in reversed(keep):
      try:
        I.stmt(s_, env, f.mod.name)
      except avn.OutOfFragment:
        # a statement of the slice that cannot be interpreted defines its targets as fresh symbols
        for x in ast.walk(s_):
          if isinstance(x, ast.Name) and isinstance(x.ctx, ast.Store):
            env['v'][x.id] = sym('opaque_' + x.id)
    return I.ev(expr, env, f.mod.name)
  except (avn.OutOfFragment, AnalysisError):
    return None


def _eval_keys(U, f, expr):
  v = _eval_slice(U, f, expr)
  return sorted(v.keys()) if isinstance(v, dict) and all(isinstance(k, str) for k in v) else None


def r16_2_3(U, rep, envs):
  for ename, (modname, cname) in sorted(envs.items()):
    reset, step = method(U, modname, cname, 'reset'), method(U, modname, cname, 'step')
    if reset is None or step is None:
      raise AnalysisError('environment %s has no reset/step' % cname)
    ctor = _state_ctor(reset.node)
    if ctor is None:
      raise AnalysisError('%s.reset does not return State(...)' % cname)
    created = {}
    for fld in ('metrics', 'info'):
      a = _ctor_arg(ctor, fld)
      keys = []
      if a is not None:
        if isinstance(a, ast.Name):
          dnode = _local_def(reset.node, a.id)
          keys = _dict_keys(dnode) if dnode is not None else None
          # later in-place additions in reset
          for n in own_nodes(reset.node):
            if isinstance(n, ast.Assign) and isinstance(n.targets[0], ast.Subscript) and \
                isinstance(n.targets[0].value, ast.Name) and n.targets[0].value.id == a.id and \
                isinstance(n.targets[0].slice, ast.Constant) and keys is not None:
              keys.append(n.targets[0].slice.value)
        else:
          keys = _dict_keys(a)
        if keys is None:
          keys = _eval_keys(U, reset, a)         # not a literal: evaluate the (sliced) expression
        d_self = dotted(a) if isinstance(a, ast.Attribute) else None
        if d_self and d_self[0] == 'self':
          # R16.12: the dict handed out by reset is an ATTRIBUTE OF THE ENV: step logs into state.metrics / state.info in
          # place (state.metrics.update(...), State.replace is shallow), so un-jitted steps write into the env's own dict and
          # a later reset(key) depends on the call history
          rep.fail('R16.12', 'fresh:%s.reset.%s' % (cname, fld), '%s.reset hands out `%s` -- an attribute of the env -- as state.%s: '
                   'step updates that dict in place, so reset is no longer a function of its key' % (cname, ast.unparse(a), fld),
                   where=reset.where(a), construct=ast.unparse(a))
          init = method(U, modname, cname, '__init__')
          dnode = None
          if init is not None:
            for n in own_nodes(init.node):
              if isinstance(n, ast.Assign) and any(dotted(t_) == d_self for t_ in n.targets if isinstance(t_, ast.Attribute)):
                dnode = n.value
          keys = (_dict_keys(dnode) if dnode is not None else None) or []
        if keys is None:
          raise AnalysisError('%s.reset: cannot enumerate %s keys' % (cname, fld))
      created[fld] = set(keys)
    # writes in step
    written = {'metrics': set(), 'info': set()}
    sname = step.node.args.args[1].arg
    for n in own_nodes(step.node):
      if isinstance(n, ast.Call) and isinstance(n.func, ast.Attribute) and n.func.attr == 'update':
        d = dotted(n.func.value)
        if d and len(d) == 2 and d[0] == sname and d[1] in written:
          for k in n.keywords:
            if k.arg is None:
              raise AnalysisError('%s.step: %s.update(**...) is not modelled' % (cname, d[1]))
            written[d[1]].add(k.arg)
          for a in n.args:
            ks = _dict_keys(a)
            if ks is None:
              raise AnalysisError('%s.step: %s.update(<non-literal>)' % (cname, d[1]))
            written[d[1]].update(ks)
      if isinstance(n, ast.Assign) and isinstance(n.targets[0], ast.Subscript):
        d = dotted(n.targets[0].value)
        if d and len(d) == 2 and d[0] == sname and d[1] in written and isinstance(n.targets[0].slice, ast.Constant):
          written[d[1]].add(n.targets[0].slice.value)
    for fld in ('metrics', 'info'):
      extra = written[fld] - created[fld]
      rep.check(not extra, 'R16.2', '%s.%s keys' % (cname, fld),
                '%s.step writes %s keys %s that reset does not create (pytree structure changes under '
                'scan / where_done)' % (cname, fld, sorted(extra)), where=step.where(),
                construct='reset creates %d, step writes %d' % (len(created[fld]), len(written[fld])))
    # step returns state.replace(<State fields>)
    ok = True
    nret = 0
    for n in own_nodes(step.node):
      if isinstance(n, ast.Return):
        nret += 1
        v = n.value
        hops = 0
        while isinstance(v, ast.Name) and hops < 4:      # `new_state = state.replace(...); return new_state`
          d_ = _local_def(step.node, v.id)
          if d_ is None:
            break
          v, hops = d_, hops + 1
        if not (isinstance(v, ast.Call) and isinstance(v.func, ast.Attribute) and v.func.attr == 'replace'
                and all(k.arg in STATE_FIELDS for k in v.keywords)):
          ok = False
        else:
          base = v.func.value          # state, or a chain state.replace(...).replace(...), or a local bound to one
          hops = 0
          while hops < 6:
            if isinstance(base, ast.Name) and base.id != sname:
              d_ = _local_def(step.node, base.id)
              if d_ is None:
                break
              base = d_
            elif isinstance(base, ast.Call) and isinstance(base.func, ast.Attribute) and base.func.attr == 'replace':
              base = base.func.value
            else:
              break
            hops += 1
          if dotted(base) != [sname]:
            ok = False
    rep.check(ok and nret >= 1, 'R16.2', '%s.step returns state.replace(...)' % cname,
              '%s.step does not return state.replace(<existing State fields>)' % cname, where=step.where())
    # R16.3 done is a zero constructor
    donev = _ctor_arg(ctor, 'done')
    N = pred.Normalizer(reset.mod)
    env = pred.sym_walk(reset.node, reset.mod)
    t = N.term(donev, env) if donev is not None else None
    zero = False
    if t is not None:
      base = t
      while base[0] == 'sub':
        base = base[1]
      if base[0] == 'call' and base[1] in ('jax.numpy.zeros', 'jax.numpy.zeros_like', 'numpy.zeros'):
        zero = True
      if base[0] == 'call' and base[1] in ('jax.numpy.array', 'jax.numpy.float32', 'jax.numpy.asarray'):
        zero = False
      if pred.is_const(base) and base[1] in (0, 0.0):
        zero = True
    if not zero and donev is not None:
      # not one of the literal idioms: evaluate the (sliced) expression -- the VALUE must be the constant 0
      from braxlint.avn import Rat, asarr
      v = _eval_slice(U, reset, donev)
      try:
        zero = v is not None and all(Rat.lift(x).is_const() and Rat.lift(x).constval() == 0 for x in asarr(v).ravel())
      except Exception:  # pylint: disable=broad-except
        zero = False
    rep.check(zero, 'R16.3', '%s.reset done = 0' % cname, '%s.reset does not start with done = 0: %s' % (
        cname, pred.show(t) if t is not None else 'no done argument'), where=reset.where(ctor),
              construct=pred.show(t) if t is not None else '')


# ------------------------------------------------------------------ R16.4
IMPURE_PREFIX = ('numpy.random', 'random.', 'time.', 'datetime.', 'os.environ', 'os.getenv', 'secrets.',
                 'uuid.')


def _env_methods(U, modname, cname):
  """reset/step/_get_obs plus every other method of the class they call (closure)."""
  todo, seen = ['reset', 'step', '_get_obs'], []
  while todo:
    m = todo.pop()
    f = method(U, modname, cname, m)
    if f is None or f in seen:
      continue
    seen.append(f)
    for n in own_nodes(f.node):
      if isinstance(n, ast.Call) and isinstance(n.func, ast.Attribute) and dotted(n.func.value) == ['self']:
        todo.append(n.func.attr)
  return seen


def r16_4(U, rep, envs):
  nsamp = 0
  for ename, (modname, cname) in sorted(envs.items()):
    for f in _env_methods(U, modname, cname):
      bad = []
      params = [a.arg for a in f.node.args.args]
      for n in ast.walk(f.node):
        if isinstance(n, (ast.Global, ast.Nonlocal)):
          bad.append((n, 'global/nonlocal statement'))
        if isinstance(n, (ast.Assign, ast.AugAssign, ast.AnnAssign)):
          tgts = n.targets if isinstance(n, ast.Assign) else [n.target]
          for t in tgts:
            d = dotted(t) if isinstance(t, ast.Attribute) else None
            if d and d[0] == 'self':
              bad.append((n, 'write to self.%s' % '.'.join(d[1:])))
        if isinstance(n, ast.Call):
          name = call_name(n, f.mod) or ''
          if name.startswith(IMPURE_PREFIX) or name in ('print', 'input', 'open'):
            bad.append((n, 'impure call %s' % name))
      key = '%s.%s' % (cname, f.node.name)
      if bad:
        n, why = bad[0]
        rep.fail('R16.4', 'pure:' + key, '%s is not a pure function of its arguments: %s' % (key, why),
                 where=f.where(n), construct=ast.unparse(n)[:160])
      else:
        rep.ok('R16.4', 'pure:' + key, construct='no host randomness / time / global or attribute writes',
               where=f.where())
      # PRNG key provenance
      if f.node.name != 'reset':
        continue
      rng = params[1] if len(params) > 1 else None
      derived = {rng}
      changed = True
      while changed:
        changed = False
        def is_key(v):
          """v is computed from the reset key only through split / fold_in, indexing, renaming, tupling."""
          if isinstance(v, ast.Call):
            name = call_name(v, f.mod) or ''
            return name in ('jax.random.split', 'jax.random.fold_in') and bool(v.args) and is_key(v.args[0])
          if isinstance(v, ast.Subscript):
            return is_key(v.value)
          if isinstance(v, ast.Name):
            return v.id in derived
          if isinstance(v, (ast.Tuple, ast.List)):
            return bool(v.elts) and all(is_key(e) for e in v.elts)
          return False
        for n in own_nodes(f.node):
          if isinstance(n, ast.Assign) and is_key(n.value):
            for t in n.targets:
              for x in ast.walk(t):
                if isinstance(x, ast.Name) and x.id not in derived:
                  derived.add(x.id)
                  changed = True
      for n in own_nodes(f.node):
        if isinstance(n, ast.Call):
          name = call_name(n, f.mod) or ''
          if name.startswith('jax.random.') and name.rsplit('.', 1)[1] in SAMPLERS:
            nsamp += 1
            karg = n.args[0] if n.args else next((k.value for k in n.keywords if k.arg == 'key'), None)
            ok = karg is not None and is_key(karg)
            rep.check(ok, 'R16.4', 'key:%s.%s:%s' % (cname, f.node.name, ast.unparse(karg) if karg is not None else '?'),
                      'sampler key `%s` does not derive from the reset key `%s` through split' % (
                          ast.unparse(karg) if karg is not None else '?', rng), where=f.where(n),
                      construct=ast.unparse(n)[:160])
          if name in ('jax.random.PRNGKey', 'jax.random.key'):
            rep.fail('R16.4', 'key:%s.%s:literal' % (cname, f.node.name),
                     'reset builds a fresh PRNG key instead of using its argument', where=f.where(n),
                     construct=ast.unparse(n)[:120])
  rep.stat('sampler_call_sites', nsamp)
  if nsamp < 15:
    raise AnalysisError('R16.4 sees only %d jax.random sampler calls in reset (floor 15)' % nsamp)


# ---------------------------------------------------------- R16.5 / R16.6
def r16_5_6(U, rep, envs):
  base = U.mod('brax.envs.base')
  penv = 'brax.envs.base.PipelineEnv'
  obs = U.func(penv + '.observation_size')
  src = ast.unparse(obs.node)
  calls_reset = any(isinstance(n, ast.Call) and isinstance(n.func, ast.Attribute) and n.func.attr == 'reset'
                    for n in own_nodes(obs.node))
  uses_obs = any(isinstance(n, ast.Attribute) and n.attr == 'obs' for n in own_nodes(obs.node))
  shape_last = any(isinstance(n, ast.Subscript) and isinstance(n.value, ast.Attribute) and n.value.attr == 'shape'
                   and ast.unparse(n.slice) == '-1' for n in own_nodes(obs.node))
  rep.check(calls_reset and uses_obs and shape_last, 'R16.5', 'PipelineEnv.observation_size = reset(...).obs.shape[-1]',
            'observation_size is no longer derived from the observation reset returns', where=obs.where())
  act = U.func(penv + '.action_size')
  ok = any(isinstance(n, ast.Return) and isinstance(n.value, ast.Call) and dotted(n.value.func) == ['self', 'sys', 'act_size']
           for n in own_nodes(act.node))
  rep.check(ok, 'R16.5', 'PipelineEnv.action_size = sys.act_size()', 'action_size is not sys.act_size()', where=act.where())
  # pipeline table
  init = U.func(penv + '.__init__')
  table = None
  for n in own_nodes(init.node):
    if isinstance(n, ast.Dict) and n.keys and all(isinstance(k, ast.Constant) for k in n.keys):
      table = n
  keys = [k.value for k in table.keys] if table is not None else []
  mods = {}
  if table is not None:
    for k, v in zip(table.keys, table.values):
      d = dotted(v)
      mods[k.value] = base.alias.get(d[0]) if d else None
  want = {'generalized': 'brax.generalized.pipeline', 'spring': 'brax.spring.pipeline',
          'positional': 'brax.positional.pipeline', 'mjx': 'brax.mjx.pipeline'}
  rep.check(mods == want, 'R16.6', 'PipelineEnv backend table', 'backend table maps %r, expected %r' % (mods, want),
            where=init.where(table) if table is not None else init.where())
  rejects = any(isinstance(n, ast.If) and isinstance(n.test, ast.Compare) and isinstance(n.test.ops[0], ast.NotIn)
                and any(isinstance(s, ast.Raise) for s in n.body) for n in own_nodes(init.node))
  rep.check(rejects, 'R16.6', 'PipelineEnv rejects unknown backends', 'unknown backends are no longer rejected',
            where=init.where())
  for mname, callee in (('pipeline_init', 'init'), ('pipeline_step', 'step')):
    f = U.func(penv + '.' + mname)
    found = False
    for n in ast.walk(f.node):
      if isinstance(n, ast.Call) and dotted(n.func) == ['self', '_pipeline', callee] and n.args and \
          dotted(n.args[0]) == ['self', 'sys']:
        found = True
    rep.check(found, 'R16.6', 'PipelineEnv.%s -> self._pipeline.%s(self.sys, ...)' % (mname, callee),
              '%s does not call the selected backend\'s %s with self.sys' % (mname, callee), where=f.where())
  # registry and per-class constructor / action size
  for ename, (modname, cname) in sorted(envs.items()):
    m = U.mod(modname)
    if cname not in m.classes:
      rep.fail('R16.6', 'registry:' + ename, 'registered class %s.%s does not exist' % (modname, cname),
               where=(U.mod('brax.envs').path, 1, 'brax.envs'))
      continue
    cinit = method(U, modname, cname, '__init__')
    fwd = False
    asset = None
    if cinit is not None:
      for n in ast.walk(cinit.node):
        if isinstance(n, ast.Call) and isinstance(n.func, ast.Attribute) and n.func.attr == '__init__' and \
            isinstance(n.func.value, ast.Call) and dotted(n.func.value.func) == ['super']:
          for k in n.keywords:
            if k.arg == 'backend' and isinstance(k.value, ast.Name) and k.value.id == 'backend':
              fwd = True
            if k.arg is None:
              # **kwargs may carry backend only if the class does not name it
              if 'backend' not in [a.arg for a in cinit.node.args.args + cinit.node.args.kwonlyargs]:
                fwd = True
        if isinstance(n, ast.Constant) and isinstance(n.value, str) and n.value.endswith('.xml') and 'assets' in n.value:
          asset = n.value
    rep.check(fwd, 'R16.6', 'registry:%s forwards backend' % ename,
              '%s.__init__ does not forward `backend` to PipelineEnv' % cname,
              where=cinit.where() if cinit else (m.path, 1, modname))
    over = method(U, modname, cname, 'action_size')
    if over is not None:
      lit = None
      for n in own_nodes(over.node):
        if isinstance(n, ast.Return) and isinstance(n.value, ast.Constant):
          lit = n.value.value
      nact = None
      if asset:
        p = os.path.join(U.repo, 'brax', asset)
        try:
          root = ET.parse(p).getroot()
          nact = sum(len(list(a)) for a in root.iter('actuator'))
        except (OSError, ET.ParseError):
          raise AnalysisError('cannot read asset %s' % p)
      rep.check(lit is not None and lit == nact, 'R16.5', '%s.action_size literal = #actuators in %s' % (cname, asset),
                '%s.action_size returns %r but the asset defines %r actuators' % (cname, lit, nact), where=over.where())
    oover = method(U, modname, cname, 'observation_size')
    if oover is not None:
      rep.fail('R16.5', '%s.observation_size override' % cname, 'observation_size is overridden and no longer '
               'derived from reset', where=oover.where())


# ------------------------------------------------------------------ R16.7
def r16_7(U, rep):
  T = ts.TS(U)
  for b in NATIVE:
    for fn in ('init', 'step'):
      f = U.func('brax.%s.pipeline.%s' % (b, fn))
      args = [T.default_param(f, a.arg) for a in f.node.args.args]
      T.trace = []
      r = T.summary(f, args)
      if not (isinstance(r, tuple) and r[0] == 'state'):
        raise AnalysisError('typestate: %s does not return a State (%r)' % (f.qname, r))
      fields = ('x',) if b == 'generalized' else ('x', 'x_i')
      for fld in fields:
        v = ts.sget(r, fld) if fld in r[2] else None
        key = '%s.pipeline.%s -> state.%s.rot' % (b, fn, fld)
        if v == ts.U:
          rep.ok('R16.7', key, construct='UNIT on every return path', where=f.where())
        else:
          why = '; '.join('%s:%s %s' % t for t in T.trace[:3])
          rep.fail('R16.7', key, 'link rotations returned in state.%s are not normalised on every path '
                   '(typestate %r)%s' % (fld, v, (' -- ANY sources: ' + why) if why else ''), where=f.where())
  f = U.func('brax.kinematics.forward')
  r = T.summary(f, [('sys',), ts.O, ts.O])
  rep.check(isinstance(r, tuple) and r[0] == 'tuple' and r[1] and r[1][0] == ts.U, 'R16.7', 'kinematics.forward -> x.rot',
            'kinematics.forward no longer returns normalised link rotations', where=f.where())
  f = U.func('brax.generalized.integrator._integrate_q_free')
  r = T.summary(f, [('sys',), ts.O, ts.O])
  rep.check(isinstance(r, tuple) and r[0] == 'cat' and r[1] and r[1][-1] == ts.U, 'R16.7',
            '_integrate_q_free -> q[3:7]', 'the free-joint quaternion is not renormalised after integration',
            where=f.where())


def scope_r16_1(U, envs):
  scope = set(U.pipeline_reach())
  for ename, (modname, cname) in envs.items():
    scope |= {q for q, f in U.funcs.items() if f.mod.name == modname}
  for m in ('brax.envs.base', 'brax.envs.wrappers.training', 'brax.fluid', 'brax.envs'):
    scope |= {q for q, f in U.funcs.items() if f.mod.name == m}
  return scope


# ------------------------------------------------------------------ R16.8
def _assigned(t):
  if isinstance(t, ast.Name):
    return {t.id}
  if isinstance(t, (ast.Tuple, ast.List)):
    return set().union(*[_assigned(e) for e in t.elts]) if t.elts else set()
  return set()


def _done_slice(fnode, given=('pipeline_state', 'pipeline_state0', 'state', 'action', 'self')):
  """Top-level statements of `step` that `done` depends on (backward slice over local names); the
  names in `given` are inputs of the slice (the new pipeline state is a symbol)."""
  need, keep = {'done'}, []
  for s_ in reversed(fnode.body):
    tg = set()
    compound = isinstance(s_, (ast.If, ast.For, ast.While, ast.With, ast.Try))
    if isinstance(s_, ast.Assign):
      for t in s_.targets:
        tg |= _assigned(t)
    elif isinstance(s_, ast.AugAssign):
      tg = _assigned(s_.target)
    elif compound:
      # a compound statement (e.g. `if self._terminate_when_unhealthy: done = ...`) is kept whole
      for x in ast.walk(s_):
        if isinstance(x, ast.Assign):
          for t in x.targets:
            tg |= _assigned(t)
        elif isinstance(x, (ast.AugAssign, ast.AnnAssign)):
          tg |= _assigned(x.target)
    tg -= set(given)
    if tg & need:
      keep.append(s_)
      if compound:
        # may assign on some paths only: the names stay needed from above as well
        need |= {n.id for n in ast.walk(s_) if isinstance(n, ast.Name) and isinstance(n.ctx, ast.Load)}
        continue
      if not isinstance(s_, ast.AugAssign):
        need -= tg
      need |= {n.id for n in ast.walk(s_.value) if isinstance(n, ast.Name)}
  return list(reversed(keep)), need


def r16_8(U, rep, envs):
  """Termination is the documented interval test: with terminate_when_unhealthy, done == 0 when every
  monitored quantity is strictly inside its healthy range and done == 1 as soon as one of them leaves it
  on either side.  [FIN] decided on the slice of `step` that defines `done`, abstractly interpreted with
  symbolic range bounds; the comparisons are decided by sign facts, scenario by scenario."""
  from braxlint import avn
  from braxlint.avn import Rat, Struct, symarr
  from braxlint.avnlib import T, new_interp, sym
  from braxlint.props.c06 import sign_decide
  from braxlint import scenario
  nchecked = 0
  for envname, (modname, cname) in sorted(envs.items()):
    init, step = method(U, modname, cname, '__init__'), method(U, modname, cname, 'step')
    if init is None or step is None:
      continue
    ranges = sorted({t.attr for n in ast.walk(init.node) if isinstance(n, ast.Assign) for t in n.targets
                     if isinstance(t, ast.Attribute) and dotted(t) and dotted(t)[0] == 'self' and t.attr.startswith('_healthy_')
                     and t.attr.endswith('_range')})
    if not ranges:
      continue
    nchecked += 1
    stmts, free = _done_slice(step.node)
    I = new_interp(U.repo)
    # every other configuration attribute of the env (reward weights, ...) is a fresh symbol
    attrs = {'_terminate_when_unhealthy': True, '__missing__': lambda a: sym('cfg' + a)}
    bounds = {}
    for r in ranges:
      lo, hi = sym('lo' + r), sym('hi' + r)
      attrs[r] = (lo, hi)
      bounds[Rat.lift(lo).key()] = (r, 'lo')
      bounds[Rat.lift(hi).key()] = (r, 'hi')
    selfv = Struct('Env', attrs)
    ps = Struct('PipelineState', {'x': T('x', (3,)), 'xd': T('xd', (3,)), 'q': symarr('q', (7,)), 'qd': symarr('qd', (6,))})
    env = {'v': {'self': selfv, 'pipeline_state': ps, 'pipeline_state0': ps, 'state': Struct('State', {'pipeline_state': ps}),
                 'action': symarr('act', (3,))}, 'p': None}
    try:
      for s_ in stmts:
        I.stmt(s_, env, step.mod.name)
      done = Rat.lift(env['v']['done'])
    except AnalysisError as e:
      raise AnalysisError('R16.8 %s: cannot interpret the termination slice of step: %s' % (envname, e))
    # monitored (quantity, range) pairs from the comparison atoms of done
    atoms = {nm for mono in done.n.t for nm, _ in mono if avn._is_bool_name(nm)} | {
        nm for mono in done.d.t for nm, _ in mono if avn._is_bool_name(nm)}
    mon = {}
    for a in atoms:
      ent = avn.ATOM_ARGS.get(a)
      if not ent or ent[1][0] != '<':
        continue
      _, l_, r_ = ent[1]
      for bound, other in ((l_, r_), (r_, l_)):
        kb = Rat.lift(bound).key()
        if kb in bounds:
          mon.setdefault((Rat.lift(other).key(), bounds[kb][0]), Rat.lift(other))
    seen_ranges = {r for (_, r) in mon}
    rep.check(seen_ranges == set(ranges), 'R16.8', '%s: every healthy range gates termination' % envname,
              'done does not depend on %s' % ', '.join(sorted(set(ranges) - seen_ranges)), where=step.where(),
              construct='ranges %s; %d monitored comparisons' % (', '.join(ranges), len(mon)))

    def facts(out=None, side=None):
      f = {}
      for (kx, r), x in mon.items():
        lo, hi = attrs[r]
        below = out == (kx, r) and side == 'below'
        above = out == (kx, r) and side == 'above'
        f[(x - lo).key()] = '-' if below else '+'
        f[(hi - x).key()] = '-' if above else '+'
      return f

    val = lambda f: scenario.subst(done, sign_decide(f))
    inside = val(facts())
    bad = []
    if not (inside.is_const() and inside.constval() == 0):
      bad.append('all quantities strictly inside their ranges -> done = %r (expected 0)' % (inside,))
    for key in sorted(mon, key=repr):
      for side in ('below', 'above'):
        v = val(facts(key, side))
        if not (v.is_const() and v.constval() == 1):
          bad.append('a quantity %s its %s -> done = %r (expected 1)' % (side, key[1], v))
    rep.check(not bad, 'R16.8', '%s: done == [some monitored quantity outside its healthy range]' % envname,
              lambda: 'the termination predicate is not the interval test: ' + '; '.join(bad[:3]), where=step.where(),
              construct='%d scenarios decided by sign facts' % (1 + 2 * len(mon)))
  if nchecked < 4:
    raise AnalysisError('R16.8 found only %d environments with healthy ranges (floor 4: ant, hopper, humanoid, walker2d)' % nchecked)


def r16_11(U, rep, envs):
  """R16.11 [dataflow]: `state.metrics` is a LOG: step writes it (metrics.update(...)) and never reads it back.  The
  auto-reset wrapper restores pipeline_state and obs only, and `state.replace` shares the metrics dict between a state and
  its successor, so a reward / observation / termination computed from a logged value is not a function of (reset key,
  actions) any more."""
  n = 0
  for ename, (modname, cname) in sorted(envs.items()):
    for f in _env_methods(U, modname, cname):
      if f.node.name != 'step':
        continue
      n += 1
      params = [a.arg for a in f.node.args.args]
      st = params[1] if len(params) > 1 else None
      aliases = set()
      for node in ast.walk(f.node):
        if isinstance(node, ast.Assign) and isinstance(node.value, ast.Attribute) and dotted(node.value) == [st, 'metrics']:
          aliases |= {t.id for t in node.targets if isinstance(t, ast.Name)}
      bad = None
      for node in ast.walk(f.node):
        is_metrics = lambda e: (isinstance(e, ast.Attribute) and dotted(e) == [st, 'metrics']) or (isinstance(e, ast.Name) and e.id in aliases)
        if isinstance(node, ast.Subscript) and is_metrics(node.value) and isinstance(node.ctx, ast.Load):
          bad = node
        if isinstance(node, ast.Call) and isinstance(node.func, ast.Attribute) and is_metrics(node.func.value) and node.func.attr in (
            'get', 'items', 'values', 'pop', 'copy', '__getitem__'):
          bad = node
        if isinstance(node, ast.Dict) and any(k is None and is_metrics(v) for k, v in zip(node.keys, node.values)):
          pass          # {**state.metrics, ...}: carrying the log over is not reading it into the dynamics
      key = '%s.step' % cname
      rep.check(bad is None, 'R16.11', 'metrics are write-only in ' + key,
                lambda: '%s reads a logged value back (`%s`): reward / observation / termination would depend on state the wrappers '
                'neither restore nor copy' % (key, ast.unparse(bad)[:80]), where=f.where(bad) if bad is not None else f.where(),
                construct='no Load of state.metrics[...] / .get / .items / .values in step')
  if n < 11:
    raise AnalysisError('R16.11 saw only %d environment step functions (floor 11)' % n)


class _Relabel:
  """Forwards obligations to a report under another rule label (a rule shared with another property)."""

  def __init__(self, rep, rule, only=None):
    # only: forward just the obligations of these original rules (a function that decides several rules at once)
    self.rep, self.rule, self.only, self.failed = rep, rule, only, 0

  def ok(self, rule, key, *a, **k):
    if self.only is not None and rule not in self.only:
      return None
    return self.rep.ok(self.rule, '%s %s' % (rule, key), *a, **k)

  def fail(self, rule, key, *a, **k):
    if self.only is not None and rule not in self.only:
      return None
    self.failed += 1
    return self.rep.fail(self.rule, '%s %s' % (rule, key), *a, **k)

  def check(self, cond, rule, key, *a, **k):
    if self.only is not None and rule not in self.only:
      return cond
    if not cond:
      self.failed += 1
    return self.rep.check(cond, self.rule, '%s %s' % (rule, key), *a, **k)

  def note(self, m):
    return self.rep.note(m)

  def stat(self, k, v):
    return self.rep.stat('r16_9_' + k, v)


def run(U, rep, tier):
  # R16.9: a NECESSARY condition of "observations, rewards and states stay finite": no division / root / log / inverse
  # trigonometric site reachable from the native pipelines is unguarded (the site classification of C03 R3.1-R3.3)
  from braxlint.props import c03
  c03.r3_sites(U, _Relabel(rep, 'R16.9'), tier)
  # R16.10: environments are observed THROUGH training.wrap: the wrappers keep `done` a 0/1 flag and restore states by
  # selection (a blend with a done count of 2 leaves link rotations non-unit) -- the per-step laws of C15 R15.1 / R15.2
  from braxlint.props import c15
  c15.episode_wrapper(U, _Relabel(rep, 'R16.10'), tier)
  c15.autoreset_wrapper(U, _Relabel(rep, 'R16.10'), tier)
  envs = physics_envs(U)
  if len(envs) < 11:
    raise AnalysisError('registry lists only %d physics environments (floor 11)' % len(envs))
  rep.stat('environments', sorted(envs))
  r16_2_3(U, rep, envs)
  r16_4(U, rep, envs)
  r16_5_6(U, rep, envs)
  r16_7(U, rep)
  r16_8(U, rep, envs)
  r16_11(U, rep, envs)
  r16_1(U, rep, scope_r16_1(U, envs), tier)
