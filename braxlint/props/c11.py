"""C11 -- actuators produce the modelled joint force on the actuated joint only.

[AVN, definition match] actuator.to_tau is compared with
  tau = scatter_add(0_nv, qd_id, gear * clip(gain*clip(ctrl, c_lo, c_hi)
                     + gear*(q[q_id]*bias_q + qd[qd_id]*bias_qd), f_lo, f_hi))
with several actuators sharing one joint, and with the act_size()==0 variant.
Loader rows (q_id/qd_id/ranges/bias masks) are decided under C14 R14.4 and re-checked here.
"""
import json
import os

import numpy as np

from braxlint import avn
from braxlint.avn import P_zeros, Rat, Struct, fn, same, symarr, uf
from braxlint.avnlib import diff_report, new_interp
from braxlint.props import c14

LEVEL = 'other'
EXPLANATION = (
    'Static equivalence with the stated reference formula: to_tau\'s AST is reduced to a normal '
    'form over symbolic ctrl, q, qd and actuator parameters (clip is an uninterpreted atom keyed '
    'by its argument normal forms, so clipping order, gear-in-bias, q_id vs qd_id indexing, '
    'scatter-ADD and exact zeros elsewhere are all part of the normal form) and compared with the '
    'reference force law for index patterns with 0, 1 and several actuators per joint.')
TRUSTED = ['python ast', 'braxlint.avn normal form', 'semantics of clip / .at[].add / zeros',
           'reference formula B.3 transcribed from the property statement']
ASSUMPTIONS = ['index arrays q_id/qd_id are concrete per instantiation; generalisation over model '
               'size rests on the uniformity of gather / scatter-add']

MOD = 'brax.actuator'


def instance(I, q_id, qd_id, nq, nv):
  nu = len(q_id)
  act = Struct('Actuator', {k: symarr(k, (nu,)) for k in ('gain', 'gear', 'bias_q', 'bias_qd')})
  act.f['ctrl_range'] = symarr('cr', (nu, 2))
  act.f['force_range'] = symarr('fr', (nu, 2))
  act.f['q_id'] = np.array(q_id, dtype=int)
  act.f['qd_id'] = np.array(qd_id, dtype=int)
  # the mjx.Model fields a System inherits and an actuator routine may consult: every actuated joint is a hinge here (the
  # force law is the same for hinge and slide joints: length = gear * q with the RAW coordinate, as MuJoCo computes it)
  sysd = Struct('System', {'actuator': act, 'nu': nu, 'nv': nv, 'nq': nq, 'njnt': nv,
                           'jnt_type': np.array([3] * max(nv, 1), dtype=int),
                           'actuator_trnid': np.stack([np.array(qd_id, dtype=int), np.full(nu, -1)], axis=1) if nu else np.zeros((0, 2), dtype=int),
                           'actuator_trntype': np.zeros(nu, dtype=int)})
  ctrl, q, qd = symarr('u', (nu,)), symarr('q', (nq,)), symarr('qd', (nv,))
  tau = I.apply(fn(MOD, 'to_tau'), [sysd, ctrl, q, qd], {})
  A = act.f
  ref = P_zeros((nv,))
  for i in range(nu):
    u = uf('clip', ctrl[i], A['ctrl_range'][i, 0], A['ctrl_range'][i, 1])
    bias = A['gear'][i] * (q[q_id[i]] * A['bias_q'][i] + qd[qd_id[i]] * A['bias_qd'][i])
    frc = uf('clip', A['gain'][i] * u + bias, A['force_range'][i, 0], A['force_range'][i, 1]) * A['gear'][i]
    ref[qd_id[i]] = ref[qd_id[i]] + frc
  return tau, ref


def force_law(U, rep, tier, rule='R11.1'):
  f = U.func(MOD + '.to_tau')
  I = new_interp(U.repo)
  avn.STRUCT_HOME['System'] = 'brax.base'
  cases = [
      ('one actuator', [2], [1], 4, 3),
      ('two actuators on one joint + one elsewhere', [0, 2, 2], [1, 3, 3], 4, 4),
      ('free root offset (q_id != qd_id)', [7, 8], [6, 7], 9, 8),
  ]
  if tier == 'thorough':
    cases += [
        ('three actuators on one joint', [1, 1, 1], [0, 0, 0], 2, 2),
        ('slide+hinge stack', [7, 8, 9, 8], [6, 7, 8, 7], 10, 9),
        ('permuted actuator order', [3, 1, 2], [2, 0, 1], 4, 3),
    ]
  for name, q_id, qd_id, nq, nv in cases:
    tau, ref = instance(I, q_id, qd_id, nq, nv)
    if same(tau, ref):
      rep.ok(rule, name, construct='to_tau == scatter_add(gear*clip(gain*clip(ctrl)+bias))', where=f.where())
    else:
      rep.fail(rule, name, 'to_tau differs from the actuator force law: ' + diff_report(tau, ref),
               where=f.where(), construct='to_tau')
  # no actuators: exactly zero
  sysd = Struct('System', {'actuator': Struct('Actuator', {}), 'nu': 0, 'nv': 3, 'nq': 3})
  tau = I.apply(fn(MOD, 'to_tau'), [sysd, symarr('u', (0,)), symarr('q', (3,)), symarr('qd', (3,))], {})
  rep.check(same(tau, P_zeros((3,))), rule, 'no actuators -> zeros(nv)',
            'to_tau without actuators is not the zero vector of size nv', where=f.where())


def run(U, rep, tier):
  force_law(U, rep, tier)
  f = U.func(MOD + '.to_tau')
  # the loader's actuator table, decided on values: load_model is abstractly executed on mock MuJoCo models
  # (integer / flag fields concrete, real fields symbolic) and every Actuator field is compared with the reference
  c14.loader_fields(U, rep, rule='R11.2', prefix='actuator.', label='loader:Actuator.')
