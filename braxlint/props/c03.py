"""C03 -- simulation is differentiable: gradients are finite.

"No singular primitive is reachable unguarded" over the functions reachable from the
three native pipelines' init/step:

R3.1 every division whose denominator is not CONST/PARAM is GUARDED(eps) / SAFE, or is a
     listed exception (specs/c03_exceptions.json: construct + reason + multiplicity).
R3.2 norm / sqrt / non-integer power / log on a non-configuration argument only inside the
     gradient-safe helpers or as a listed exception.
R3.3 inverse trig only through math.safe_arccos / safe_arcsin on a clip(., -1, 1) argument.
R3.4 helper integrity: safe_norm, normalize, the two custom JVPs, inv_3x3, orthogonals.
"""
import ast
import collections
import json
import os

import numpy as np
from fractions import Fraction

from braxlint import scenario, avn, guards, pred
from braxlint.avn import Poly, Rat, Struct, asarr, elemwise, fn, same, symarr, uf
from braxlint.avnlib import MA, diff_report, new_interp, sym
from braxlint.universe import AnalysisError, call_name, dotted, num_val, own_nodes

LEVEL = 'other'
EXPLANATION = (
    'Static rule check over every function reachable from generalized/spring/positional '
    'pipeline.init/step (call graph over the AST): each division, norm, sqrt, fractional power, '
    'log and inverse-trig site is located, its operand is inlined through local def-use to a '
    'canonical term over the function parameters and classified CONST / PARAM (configuration '
    'only) / GUARDED(eps>0) / SAFE (clip/maximum with positive bound) / BARE.  BARE sites must be '
    'listed exceptions with a reason and a multiplicity.  The gradient-safe helpers themselves '
    '(safe_norm, normalize, safe_arccos/arcsin JVPs, inv_3x3, orthogonals) are compared with their '
    'contracts by algebraic value numbering.  A guard that is deleted or made non-positive turns a '
    'site BARE and is reported with file:line; a changed positive epsilon is not.')
TRUSTED = ['python ast', 'call-graph over-approximation (name based)', 'specs/c03_exceptions.json '
           '(each entry confirmed by reading, with the reason stated)', 'AVN normal form for helper contracts']
ASSUMPTIONS = ['equality with finite differences is not decided (numeric)',
               'NaN through the unselected arm of jp.where at switching points is excluded by the property',
               'MuJoCo validates solref/solimp so solver-parameter denominators are non-zero']

SPECS = os.path.join(os.path.dirname(os.path.dirname(os.path.dirname(os.path.abspath(__file__)))), 'specs')
HELPERS = ('brax.math.safe_norm', 'brax.math.normalize', 'brax.math.safe_arccos', 'brax.math.safe_arcsin',
           'brax.math._safe_arccos_jvp', 'brax.math._safe_arcsin_jvp')
DIV_FLOOR = 40


def site_key(s):
  return '%s|%s|%s' % (s.kind, s.func.qname, pred.show_abs(s.term, 3))


def collect(U, funcs):
  cache = {}
  out = []
  for q in sorted(funcs):
    out += guards.sites(U, U.funcs[q], cache)
  return out


def _exponent_may_drop_below_one(ex):
  """exponent terms `e - c` (c > 0) or non-integer constants below 1."""
  if pred.is_const(ex) and isinstance(ex[1], (int, float)):
    return ex[1] < 1 and float(ex[1]) != int(ex[1])
  if ex[0] == 'bin' and ex[1] == 'Sub' and pred.is_const(ex[3]) and isinstance(ex[3][1], (int, float)) and ex[3][1] > 0:
    return True
  return False


def r3_sites(U, rep, tier):
  R = U.pipeline_reach()
  scope = set(R)
  scope |= {q for q in U.funcs if q.startswith('brax.math.')}
  if tier == 'thorough':
    scope |= {q for q in U.funcs if q.split('.')[1] in ('kinematics', 'com', 'contact', 'actuator', 'fluid', 'scan')}
  rep.stat('functions_in_scope', len(scope))
  rep.stat('functions_reachable_from_pipelines', len(R))
  sites = collect(U, scope)
  with open(os.path.join(SPECS, 'c03_exceptions.json')) as fh:
    exc = {e['key']: e for e in json.load(fh)['exceptions']}
  used = collections.Counter()
  pending = []
  ndiv = 0
  counts = collections.Counter()
  for s in sites:
    in_helper = s.func.qname in HELPERS
    where = s.func.where(s.node)
    key = site_key(s)
    if s.kind == 'div':
      ndiv += 1
      counts[s.cls] += 1
      if s.cls in ('CONST', 'PARAM', 'GUARDED', 'SAFE'):
        rep.ok('R3.1', key, construct='%s denominator%s' % (s.cls, (' eps=%g' % s.eps) if s.eps else ''),
               where=where, nontrivial=s.cls != 'CONST')
        continue
      if in_helper:
        rep.ok('R3.1', key, construct='division inside a gradient-safe helper (contract decided by R3.4)', where=where)
        continue
      rule = 'R3.1'
      what = 'division by a state-dependent denominator without a positive epsilon / clip guard'
    else:
      cls = guards.classify(s.term)[0]
      if s.kind == 'power' and cls not in ('CONST', 'PARAM', 'SAFE') and (exc.get(key) or {}).get('class') != 'PARAM' \
          and s.exp is not None and _exponent_may_drop_below_one(s.exp):
        # x ** (p - c): for a state-dependent base that can be 0 the derivative is 0 * inf whenever p - c < 1 -- the listed
        # power sites of the tree raise such bases to the configuration exponent itself (p >= 1), never to p - 1
        rep.fail('R3.2', key, 'a state-dependent base is raised to `%s`, an exponent that can be below 1 (the derivative at a zero '
                 'base is 0 * inf = NaN)' % pred.show(s.exp), where=where, construct=ast.unparse(s.node)[:200])
        continue
      if cls in ('CONST', 'PARAM', 'SAFE') and s.kind in ('power', 'sqrt', 'norm', 'log'):
        rep.ok('R3.2', key, construct='%s of %s argument' % (s.kind, cls), where=where)
        continue
      if in_helper:
        rep.ok('R3.2', key, construct='%s inside gradient-safe helper (contract checked by R3.4)' % s.kind,
               where=where)
        continue
      rule = 'R3.3' if s.kind in ('arccos', 'arcsin') else 'R3.2'
      what = {'norm': 'jp.linalg.norm of a state-dependent vector (gradient 0/0 at zero): use math.safe_norm',
              'sqrt': 'jp.sqrt of a state-dependent argument not bounded away from 0',
              'power': 'fractional power of a state-dependent argument',
              'log': 'jp.log of a state-dependent argument',
              'arccos': 'bare jp.arccos: use math.safe_arccos(jp.clip(., -1, 1))',
              'arcsin': 'bare jp.arcsin: use math.safe_arcsin(jp.clip(., -1, 1))'}[s.kind]
    e = exc.get(key)
    used[key] += 1
    if e is not None and used[key] <= e.get('count', 1):
      rep.ok(rule, key, construct='listed exception (%s): %s' % (e.get('class', 'BARE'), e['reason']), where=where)
    else:
      pending.append((s, rule, key, what, where, e))
  # second level: a listed site whose operand was REWRITTEN (re-associated, temp introduced, ...) no longer has
  # its exact key; it is still the listed site as long as the function does not contain more unguarded sites
  # of that kind than the table lists for it.  An ADDED bare site exceeds the budget and is reported.
  budget = collections.Counter()
  for k_, e_ in exc.items():
    kind_, fq_ = k_.split('|')[0], k_.split('|')[1]
    budget[(kind_, fq_)] += e_.get('count', 1) - min(used.get(k_, 0), e_.get('count', 1))
  for s, rule, key, what, where, e in pending:
    slot = (s.kind, s.func.qname)
    if budget[slot] > 0:
      budget[slot] -= 1
      rep.ok(rule, key, construct='listed exception of %s (operand rewritten; the function has no more unguarded %s sites than the '
             'table lists)' % (s.func.qname, s.kind), where=where)
      continue
    msg = what
    if e is not None:
      msg += ' (exception table allows %d such site(s) in this function, found more)' % e.get('count', 1)
    rep.fail(rule, key, msg, where=where, construct=ast.unparse(s.node)[:200], found=s.text[:400])
  rep.stat('division_sites', ndiv)
  rep.stat('division_classes', dict(counts))
  if ndiv < DIV_FLOOR:
    raise AnalysisError('R3.1 sees only %d division sites (floor %d): the scanner lost the code' % (ndiv, DIV_FLOOR))
  # R3.3: safe_arccos/safe_arcsin call sites take a clipped argument
  n33 = 0
  for q in sorted(scope):
    f = U.funcs[q]
    if q in HELPERS:
      continue
    for n in own_nodes(f.node):
      if isinstance(n, ast.Call):
        name = call_name(n, f.mod) or ''
        if name in ('brax.math.safe_arccos', 'brax.math.safe_arcsin') or (
            f.mod.name == 'brax.math' and name in ('safe_arccos', 'safe_arcsin')):
          n33 += 1
          arg = n.args[0] if n.args else None
          ok = False
          if isinstance(arg, ast.Call) and (call_name(arg, f.mod) or '').endswith('.clip') and len(arg.args) >= 3:
            lo, hi = num_val(arg.args[1]), num_val(arg.args[2])
            ok = lo is not None and hi is not None and lo >= -1 and hi <= 1
          rep.check(ok, 'R3.3', 'clip|%s|%s' % (q, name.rsplit('.', 1)[-1]),
                    'argument of %s is not clipped to [-1, 1]' % name.rsplit('.', 1)[-1], where=f.where(n),
                    construct=ast.unparse(n)[:160])
  if n33 < 1:
    raise AnalysisError('R3.3: no safe_arccos/safe_arcsin call site found (floor 1)')


def _clip_bounds(U, qname):
  f = U.func(qname)
  for n in own_nodes(f.node):
    if isinstance(n, ast.Call) and (call_name(n, f.mod) or '').endswith('.clip') and len(n.args) >= 3:
      try:
        I0 = avn.Interp()
        lo = I0.ev(n.args[1], {'v': {}, 'p': None}, f.mod.name)
        hi = I0.ev(n.args[2], {'v': {}, 'p': None}, f.mod.name)
        lo, hi = avn.exact(lo), avn.exact(hi)
      except Exception:  # pylint: disable=broad-except
        return None, None, n
      return lo, hi, n
  return None, None, None


def _const_ratio(r):
  """c if the rational function r equals the constant c (numerator = c * denominator as polynomials), else None."""
  r = Rat.lift(r)
  if r.is_const():
    return r.constval()
  if not r.d.t or not r.n.t:
    return None
  mono, b = next(iter(r.d.t.items()))
  a = r.n.t.get(mono)
  if a is None:
    return None
  c = a / b
  return c if r.same(Rat.lift(c)) else None


def _atoms_in(v):
  """All atoms occurring in a value, transitively through the arguments of uninterpreted atoms."""
  out, stack = set(), []
  for x in asarr(v).ravel():
    r = Rat.lift(x)
    stack += [nm for p_ in (r.n, r.d) for mono in p_.t for nm, _ in mono]
  while stack:
    a = stack.pop()
    if a in out or not isinstance(a, avn.Atom):
      continue
    out.add(a)
    for arg in avn.ATOM_ARGS.get(a, (None, ()))[1]:
      if isinstance(arg, Rat):
        stack += [nm for p_ in (arg.n, arg.d) for mono in p_.t for nm, _ in mono]
      elif isinstance(arg, np.ndarray):
        for y in arg.ravel():
          r = Rat.lift(y)
          stack += [nm for p_ in (r.n, r.d) for mono in p_.t for nm, _ in mono]
  return out


def r3_4(U, rep):
  # the helpers are interpreted with `allclose` / `any` kept symbolic; the primitive table is global: restored afterwards
  saved = {k: avn.JNP[k] for k in ('allclose', 'any')}
  try:
    _r3_4(U, rep)
  finally:
    avn.JNP.update(saved)


def _r3_4(U, rep):
  I = new_interp(U.repo, contracts=False)
  avn.JNP['allclose'] = lambda x, y, **k: uf('allclose', asarr(x), y)
  avn.JNP['any'] = lambda x, **k: uf('any', asarr(x))
  # safe_norm
  f = U.func('brax.math.safe_norm')
  x = symarr('x', (3,))
  got = I.apply(fn(MA, 'safe_norm'), [x], {})
  z = uf('allclose', x, 0.0)
  want = uf('sqrt', ((x + z) * (x + z)).sum()) * (1 - z)
  rep.check(same(got, want), 'R3.4', 'safe_norm = norm(x + z)(1 - z), z = allclose(x, 0)',
            'safe_norm no longer swaps a zero input before taking the norm: ' + diff_report(got, want),
            where=f.where())
  # normalize: x / (n + eps [n == 0]) with eps > 0 -- decided on values, however the guard is spelled
  f = U.func('brax.math.normalize')
  I2 = new_interp(U.repo, contracts=False)
  n_ = sym('n')
  I2.contracts[(MA, 'safe_norm')] = lambda v, axis=None: n_
  res = I2.apply(fn(MA, 'normalize'), [x], {})
  okn, why = False, 'normalize does not return (direction, norm)'
  if isinstance(res, tuple) and len(res) == 2 and same(res[1], n_):
    r0 = Rat.lift(asarr(res[0])[0])
    zatoms = [nm for p_ in (r0.n, r0.d) for mono in p_.t for nm, _ in mono if avn._is_bool_name(nm)]
    at_zero = scenario.subst(asarr(res[0]), scenario.atoms_false([], atoms_one=zatoms))       # every [n == 0]-type gate open
    off_zero = scenario.subst(asarr(res[0]), scenario.atoms_false(zatoms))
    why = 'away from zero norm normalize is not x / norm'
    if same(off_zero, x / n_):
      den = x[0] / Rat.lift(at_zero[0]) - n_        # the denominator used at zero norm, minus the norm
      why = 'at zero norm the denominator is not norm + (a positive constant)'
      eps = _const_ratio(den)
      if eps is not None and eps > 0 and same(at_zero, x / (n_ + Rat.lift(eps))):
        okn = True
  rep.check(okn, 'R3.4', 'normalize = (x / (safe_norm(x) + eps [norm==0]), safe_norm(x)), eps > 0',
            'normalize differs from its contract: ' + why, where=f.where())
  # JVPs
  for name, sign in (('arccos', -1), ('arcsin', 1)):
    prim, jvp = 'brax.math.safe_' + name, 'brax.math._safe_%s_jvp' % name
    fp = U.func(prim)
    decos = [ast.unparse(d) for d in fp.node.decorator_list]
    rep.check(any(d.endswith('custom_jvp') for d in decos), 'R3.4', 'safe_%s is a custom_jvp' % name,
              'safe_%s lost its @custom_jvp decorator' % name, where=fp.where())
    fj = None
    for q, f2 in U.funcs.items():
      if f2.mod.name == 'brax.math' and any(ast.unparse(d) == 'safe_%s.defjvp' % name for d in f2.node.decorator_list):
        fj = f2
    rep.check(fj is not None, 'R3.4', 'safe_%s.defjvp registered' % name, 'no function is registered with '
              '@safe_%s.defjvp' % name, where=fp.where())
    if fj is None:
      continue
    # the JVP is interpreted (helpers it calls included) and the clip bounds are read off its normal form
    I3 = new_interp(U.repo, contracts=False)
    I3.contracts[(MA, 'safe_' + name)] = lambda v: uf(name, v)
    xv, xd = sym('x'), sym('xdot')
    res = I3.apply(fn(MA, fj.node.name), [(xv,), (xd,)], {})
    lo = hi = cat = None
    if isinstance(res, tuple) and len(res) == 2:
      for at in avn.free_symbols(asarr(res[1])) | _atoms_in(asarr(res[1])):
        # clip(x, lo, hi) is represented as min(max(x, lo), hi) (arguments sorted)
        if isinstance(at, avn.Atom) and at.kind == 'min':
          a_ = [Rat.lift(v_) for v_ in avn.ATOM_ARGS[at][1]]
          his = [v_ for v_ in a_ if v_.is_const()]
          inner = [v_ for v_ in a_ if not v_.is_const()]
          if len(his) == 1 and len(inner) == 1:
            mx = [n_ for n_ in avn.free_symbols(asarr([inner[0]])) | _atoms_in(asarr([inner[0]]))
                  if isinstance(n_, avn.Atom) and n_.kind == 'max' and inner[0].same(Rat(avn.Poly.sym(n_)))]
            if mx:
              b_ = [Rat.lift(v_) for v_ in avn.ATOM_ARGS[mx[0]][1]]
              los = [v_ for v_ in b_ if v_.is_const()]
              xs = [v_ for v_ in b_ if not v_.is_const()]
              if len(los) == 1 and len(xs) == 1 and xs[0].same(xv):
                lo, hi = float(los[0].constval()), float(his[0].constval())
                cat = at
    okb = lo is not None and -1 < lo < 0 < hi < 1
    rep.check(okb, 'R3.4', 'safe_%s JVP clips strictly inside (-1, 1)' % name,
              'the JVP of safe_%s does not clip its argument strictly inside (-1, 1): bounds %r, %r' % (name, lo, hi),
              where=fj.where())
    if okb:
      c = Rat(avn.Poly.sym(cat))
      want_t = Rat.lift(sign) * xd / uf('sqrt', 1 - c * c)
      okj = isinstance(res, tuple) and len(res) == 2 and same(res[0], uf(name, xv))
      # sqrt(1 - c**2.0): pow with float exponent 2.0 is handled as integer power
      okj = okj and same(res[1], want_t)
      rep.check(okj, 'R3.4', 'safe_%s JVP = %s xdot / sqrt(1 - clip(x)^2)' % (name, '+' if sign > 0 else '-'),
                'JVP of safe_%s differs from d/dx %s with clipping: %s' % (name, name, diff_report(res[1] if isinstance(res, tuple) and len(res) == 2 else res, want_t)),
                where=fj.where())
  # inv_3x3 divides by det + eps
  f = U.func('brax.math.inv_3x3')
  ds = [s for s in guards.sites(U, f, {}) if s.kind == 'div']
  rep.check(bool(ds) and all(s.cls == 'GUARDED' for s in ds), 'R3.4', 'inv_3x3 divides by det + eps',
            'inv_3x3 divides by an unguarded determinant', where=f.where(), construct=ds[0].text if ds else '')
  # orthogonals: result multiplied by any(a)
  f = U.func('brax.math.orthogonals')
  I4 = new_interp(U.repo)
  a = symarr('a', (3,))
  b, c_ = I4.apply(fn(MA, 'orthogonals'), [a], {})
  any_key = avn.atom_key('any', (a,))
  def vanishes(v):
    for r in asarr(v).ravel():
      r = Rat.lift(r)
      if any(not any(nm == any_key for nm, _ in mono) for mono in r.n.t):
        return False
    return True
  rep.check(vanishes(b) and vanishes(c_), 'R3.4', 'orthogonals(a) carries the factor any(a)',
            'orthogonals no longer zeroes its result for a zero input vector', where=f.where())


def r3_5(U, rep, tier):
  """R3.5: the gradient AT REST is the right one, not merely finite.  generalized.integrator._integrate_q_free is
  interpreted at angular velocity w = 0 + eps v (dual numbers: exactly what forward-mode differentiation propagates
  at the point w = 0) with the epsilon guards of the source read as c * eta for a formal infinitesimal eta (Laurent
  series, class avn.Germ): in the limit eta -> 0 the first-order change of the integrated quaternion must be the
  derivative of the exponential map,  d rot' = rot (x) (0, dt/2 v)  -- what central differences measure."""
  from braxlint import refkin
  f = U.func('brax.generalized.integrator._integrate_q_free')
  bad = None
  trials = 3 if tier == 'quick' else 8
  done = 0
  for t in range(40):
    if done >= trials or bad:
      break
    def decide(nm):
      if not isinstance(nm, avn.Atom):
        return None
      if nm.kind in ('allclose', 'all', 'any', 'bool'):
        # a comparison of a value whose image at the expansion point is exactly 0 (dual / infinitesimal parts aside)
        args = avn.ATOM_ARGS.get(nm)
        if nm.kind == 'allclose' and args is not None:
          vals = [avn.dual_parts(x)[0] for x in asarr(args[0]).ravel()]
          if all(not isinstance(v, avn.Germ) for v in vals):
            return int(all(v == 0 for v in vals))
      return None
    avn.field_mode(7000 + t, decide=decide)
    avn.FIELD['sqrt_axiom'] = 'soft'
    avn.FIELD['soft_hits'] = 0
    avn.FIELD['eta'] = Fraction(1, 10 ** 5)
    v = [2 + (7919 * (t + 1) * (k + 3)) % 1000003 for k in range(3)]
    for k in range(3):
      avn.FIELD['dual']['w%d' % k] = avn.Dual(0, v[k])
    try:
      I = new_interp(U.repo)
      rot = refkin.unit_quat('r')
      pos, vel = symarr('p', (3,)), symarr('vl', (3,))
      w = np.array([sym('w%d' % k) for k in range(3)], dtype=object)
      dt = sym('dt')
      sysd = Struct('System', {'opt': Struct('Opt', {'timestep': dt})}, home='brax.base')
      q = np.concatenate([pos, rot])
      qd = np.concatenate([vel, w])
      out = asarr(I.apply(fn('brax.generalized.integrator', '_integrate_q_free'), [sysd, q, qd], {}))
      if avn.FIELD['soft_hits']:
        # a square root without a root in GF(p) entered the run: only a PASS would be a verdict; try another point
        pass
      ref = refkin.qmul(rot, np.array([Rat.lift(0)] + [Rat.lift(dt) * Rat.lift(x) / 2 for x in v], dtype=object))
      ok = True
      for k in range(4):
        fv = Rat.lift(out[3 + k]).fv
        if isinstance(fv, avn.Germ):
          fv = fv.standard()
        a_, b_ = (fv.a, fv.b) if isinstance(fv, avn.Dual) else (fv, 0)
        want0, want1 = Rat.lift(rot[k]).fv, Rat.lift(ref[k]).fv
        if a_ != want0 and (avn.FIELD['p'] - a_) % avn.FIELD['p'] == want0:
          a_, b_ = (-a_) % avn.FIELD['p'], (-b_) % avn.FIELD['p']      # q and -q: the other root of the renormalisation
        if a_ != want0 or b_ != want1:
          ok = False
      if ok or not avn.FIELD['soft_hits']:
        done += 1
        if not ok:
          bad = t
    except avn.NonResidue:
      continue
    except avn.OutOfFragment as e:
      # the integration is written with a construct the Laurent-series domain does not model: no verdict from this rule
      rep.note('R3.5 undecided: %s' % e)
      return
    finally:
      avn.exact_mode()
  if done < trials and not bad:
    raise AnalysisError('R3.5: fewer than %d conclusive random points in 40 tries' % trials)
  rep.check(bad is None, 'R3.5', 'free-joint quaternion integration: derivative at zero angular velocity',
            'at angular velocity exactly 0 the derivative of the integrated quaternion with respect to the angular velocity is not '
            'rot (x) (0, dt/2 v) in the limit of a vanishing guard: automatic differentiation at rest returns a finite but WRONG '
            'gradient (random-interpretation point %s)' % bad, where=f.where(),
            construct="w = 0 + eps v (dual), guards c -> c eta (Laurent series), eta -> 0:  d rot' == rot (x) (0, dt/2 v)")


def r3_5b(U, rep, tier):
  """R3.5 (second site): positional.integrator.project_xd at a link that did NOT move during the step.  With the new pose
  a first-order perturbation of the previous one -- x.pos = x_prev.pos + eps u, x.rot = (1, eps w / 2) (x) x_prev.rot (dual
  numbers) -- the projected velocity must be exactly vel = u / dt, ang = w / dt to first order: what automatic
  differentiation returns at rest must be the derivative of the finite-rotation formula, not that of a constant branch."""
  from braxlint import refkin
  f = U.func('brax.positional.integrator.project_xd')
  bad = None
  done = 0
  trials = 3 if tier == 'quick' else 8
  for t in range(40):
    if done >= trials or bad:
      break
    avn.field_mode(7300 + t)
    avn.FIELD['sqrt_axiom'] = 'soft'
    avn.FIELD['soft_hits'] = 0
    v = [2 + (104729 * (t + 1) * (k + 5)) % 1000003 for k in range(6)]
    for k in range(6):
      avn.FIELD['dual']['pw%d' % k] = avn.Dual(0, v[k])
    try:
      I = new_interp(U.repo)
      prev_rot = refkin.unit_quat('pr')
      prev_pos = symarr('pp', (3,))
      w = np.array([sym('pw%d' % k) for k in range(3)], dtype=object)
      u = np.array([sym('pw%d' % (3 + k)) for k in range(3)], dtype=object)
      rot = refkin.qmul(np.array([Rat.lift(1)] + [Rat.lift(x) / 2 for x in w], dtype=object), prev_rot)
      dt = sym('dt')
      sysd = Struct('System', {'opt': Struct('Opt', {'timestep': dt})}, home='brax.base')
      x = Struct('Transform', {'pos': (prev_pos + u)[None], 'rot': rot[None]}, home='brax.base')
      xp = Struct('Transform', {'pos': prev_pos[None], 'rot': prev_rot[None]}, home='brax.base')
      out = I.apply(fn('brax.positional.integrator', 'project_xd'), [sysd, x, xp], {})
      idt = 1 / Rat.lift(dt)
      ok = True
      for name, vec, src in (('ang', asarr(out.f['ang'])[0], v[0:3]), ('vel', asarr(out.f['vel'])[0], v[3:6])):
        for k in range(3):
          a_, b_ = avn.dual_parts(vec[k])
          if isinstance(a_, avn.Germ) or a_ != 0 or b_ != (Rat.lift(src[k]) * idt).fv:
            ok = False
      if ok or not avn.FIELD['soft_hits']:
        done += 1
        if not ok:
          bad = t
    except avn.NonResidue:
      continue
    except avn.OutOfFragment as e:
      rep.note('R3.5 (project_xd) undecided: %s' % e)
      return
    finally:
      avn.exact_mode()
  if done < trials and not bad:
    raise AnalysisError('R3.5 (project_xd): fewer than %d conclusive random points in 40 tries' % trials)
  rep.check(bad is None, 'R3.5', 'positional project_xd: derivative at a link that did not move',
            'for a link whose pose did not change during the step, the derivative of the projected velocity with respect to the new '
            'pose is not (u / dt, w / dt): automatic differentiation at rest returns a finite but WRONG gradient '
            '(random-interpretation point %s)' % bad, where=f.where(),
            construct='x = x_prev perturbed to first order (dual numbers): xd.vel == u / dt, xd.ang == w / dt')


def r3_6(U, rep):
  """R3.6 [call-site configuration] every iterative jaxopt solver constructed in code reachable from the pipelines is
  differentiated by UNROLLING (implicit_diff=False): brax runs it for a handful of iterations, so the iterate it returns is
  not the optimum, and implicit differentiation would return the gradient of a different function than the one computed
  (finite, but not the finite-difference derivative whenever a constraint is active)."""
  R = set(U.pipeline_reach())
  sites = []
  for q in sorted(R):
    f = U.funcs[q]
    for n in own_nodes(f.node):
      if isinstance(n, ast.Call):
        name = call_name(n, f.mod) or ''
        if name.startswith('jaxopt.') and name.rsplit('.', 1)[1][:1].isupper():
          sites.append((f, n, name))
  if not sites:
    rep.note('R3.6: no jaxopt solver is constructed in pipeline-reachable code any more')
    return
  for f, n, name in sites:
    kw = {k.arg: k.value for k in n.keywords if k.arg}
    v = kw.get('implicit_diff')
    ok = isinstance(v, ast.Constant) and v.value is False
    rep.check(ok, 'R3.6', '%s in %s is differentiated by unrolling' % (name, f.qname),
              '%s is constructed without implicit_diff=False: the gradient of the pipeline step would be that of the exact optimum, '
              'not of the truncated iterate the step returns' % name, where=f.where(n), construct=ast.unparse(n)[:120])


def run(U, rep, tier):
  r3_6(U, rep)
  r3_sites(U, rep, tier)
  r3_4(U, rep)
  r3_5(U, rep, tier)
  r3_5b(U, rep, tier)
  r3_7(U, rep)
  r3_8(U, rep, tier)
  r3_9(U, rep)


def r3_7(U, rep):
  """R3.7 [AVN, dataflow]: the differentiation inputs enter the maximal-coordinate pipelines unchanged -- `init` stores the
  q, qd it is given (and x, xd = forward(q, qd)).  `kinematics.inverse` recovers joint angles through arccos * sign /
  arctan2 of projections, which has no derivative at the zero-angle configuration of a multi-dof stack (the clipped
  arccos argument is exactly 1 there): a step can only report such coordinates, but an init that passes the GIVEN q through
  that read-back makes the gradient w.r.t. the initial joint positions wrong at q = 0, the singular input the property
  names (shared execution with C08 R8.2)."""
  from braxlint.props import c08
  from braxlint.props.c16 import _Relabel
  c08.r8_2(U, _Relabel(rep, 'R3.7'), entries=('init',))


def r3_8(U, rep, tier):
  """R3.8 [interpreter event, RI]: "finite for every mix of hinge / slide stacks": kinematics.inverse -- the read-back at the
  end of every spring / positional step -- is executed for EVERY stack pattern of 1-3 hinge / slide joints (orthonormal axes
  by construction, generic symbolic joint transform and motion), and no arctan2 may be evaluated at the origin: its value
  there is 0 by convention but its derivative is 0/0, and the NaN survives every later mask (0 * NaN).  The arguments are
  identically zero only when the code hands a zero vector where a frame axis is expected (an absent rotational part
  completed with zeros instead of the identity frame), which no input can avoid."""
  import itertools
  from braxlint import refkin, symsys
  from braxlint.avnlib import M as Mo, T as Tr
  KIN = 'brax.kinematics'
  f = U.func(KIN + '.inverse')
  pats = [''.join(p) for n in (1, 2, 3) for p in itertools.product('hs', repeat=n)]
  for pat in pats:
    n = len(pat)
    ev = None
    for t in range(40):
      avn.field_mode(1700 + t, decide=lambda nm: 1 if nm.kind == 'any' else None)
      avn.FIELD['sqrt_axiom'] = 'soft'
      try:
        I = new_interp(U.repo)
        qv = refkin.unit_quat('tq')
        R = [refkin.rot(np.array([Rat.lift(int(i == k)) for i in range(3)], dtype=object), qv) for k in range(3)]
        z = np.array([Rat.lift(0)] * 3, dtype=object)
        ang = np.stack([R[k] if c == 'h' else z for k, c in enumerate(pat)])
        vel = np.stack([R[k] if c == 's' else z for k, c in enumerate(pat)])
        sysd = symsys.system(str(n), (-1,), nq=n, nv=n)
        sysd.f['dof'] = Struct('DoF', {'motion': Struct('Motion', {'ang': ang, 'vel': vel}, home='brax.base'), 'limit': None})
        del avn.SINGULAR[:]
        I.apply(fn(KIN, 'inverse'), [sysd, Tr('j', (1,)), Mo('jd', (1,))], {})
        ev = sorted(set(avn.SINGULAR))
        break
      except avn.NonResidue:
        continue
      finally:
        avn.exact_mode()
    if ev is None:
      raise AnalysisError('R3.8: no admissible random point for the stack %s' % pat)
    kinds = ' - '.join('hinge' if c == 'h' else 'slide' for c in pat)
    rep.check(not ev, 'R3.8', 'kinematics.inverse evaluates no arctan2 at the origin [stack %s]' % kinds,
              lambda ev=ev: 'for a %s stack the joint read-back evaluates %s (in %s): the derivative there is 0/0, so every '
              'gradient through a spring / positional step of such a model is NaN' % (kinds, ev[0][0], ' <- '.join(reversed(ev[0][1]))),
              where=f.where(), construct='stack pattern %s, orthonormal axes, generic j / jd' % pat)


def r3_9(U, rep):
  """R3.9 [STRUCT, site rule]: no sign-magnitude recomposition `sign(x) * g(|x|)` of a differentiated quantity in code
  reachable from the pipelines.  Autodiff gives d sign = 0 and d|x| = sign(x), hence derivative 0 at x = 0 -- where the
  function such a recomposition replaces (a clip, a saturation, the identity) has derivative 1: the gradient w.r.t. a
  control whose force is exactly zero (ctrl = 0, a servo at its target) is finite but wrong.  A function that takes both
  the sign and the absolute value of the SAME operand is reported; |x| * x (fluid drag) or a sign used with another
  operand (the Euler-chart sign of kinematics) are not."""
  scope = sorted(U.pipeline_reach())
  n = hits = 0
  for q in scope:
    f = U.funcs[q]
    ops = {'sign': {}, 'abs': {}}
    for node in own_nodes(f.node):
      if isinstance(node, ast.Call) and node.args:
        name = (call_name(node, f.mod) or '').rsplit('.', 1)[-1]
        if name in ('sign', 'abs', 'absolute', 'fabs'):
          ops['sign' if name == 'sign' else 'abs'].setdefault(ast.unparse(node.args[0]).replace(' ', ''), node)
    n += 1
    for operand in sorted(set(ops['sign']) & set(ops['abs'])):
      hits += 1
      rep.fail('R3.9', 'sign-magnitude|%s|%s' % (q, operand), '%s takes both sign(%s) and abs(%s): a sign-magnitude recomposition has '
               'autodiff derivative 0 at %s = 0 (d sign = 0, d|x| = sign(0) = 0) where the saturation / identity it stands for has '
               'derivative 1' % (q, operand, operand, operand), where=f.where(ops['sign'][operand]), construct=ast.unparse(ops['sign'][operand]))
  rep.check(hits == 0 and n >= 100, 'R3.9', 'no sign-magnitude recomposition in differentiated code',
            '%d recomposition(s) found / only %d functions scanned' % (hits, n), where=U.func('brax.generalized.pipeline.step').where(),
            construct='%d functions reachable from the pipelines' % n)
