"""[FIN] predicate normaliser: guards that touch data only through comparisons with
constants are turned into canonical terms so that equivalent spellings coincide:

  x != c | not (x == c) | x not in [c]                 -> x notin {c}
  (A != c).any() | np.any(A != c) | any(i != c for i in A) | not (A == c).all()
                                                       -> any(A notin {c})
  A.any()                                              -> any(A notin {0})
  c in A                                               -> any(A in {c})

Terms are nested tuples; show() renders a deterministic string.  Local single
assignments are inlined (def-use), loop variables are bound to the element of the
iterated field, groupby loops to the grouped field.  Anything the normaliser does
not understand becomes an opaque ('raw', text) term (still deterministic).
"""
import ast

from braxlint.universe import AnalysisError, dotted

INF = float('inf')


def C(v):
  return ('c', v)


def _const_of(t):
  if t[0] == 'c':
    return t[1]
  raise ValueError


def is_const(t):
  return isinstance(t, tuple) and t and t[0] == 'c'


class Env:

  def __init__(self, params, mod=None, parent=None, opaque=()):
    self.v = {}
    self.params = set(params)
    self.mod = mod
    self.parent = parent
    self.opaque = frozenset(opaque) | (parent.opaque if parent is not None else frozenset())

  def get(self, name):
    if name in self.opaque:
      return ('f', name)
    e = self
    while e is not None:
      if name in e.v:
        return e.v[name]
      e = e.parent
    return None

  def child(self):
    c = Env(self.params, self.mod, self)
    return c

  def set(self, name, t):
    self.v[name] = t

  def set_outer(self, name, t):
    """Rebind where the name is already bound (in-place updates inside a branch)."""
    e = self
    while e is not None:
      if name in e.v:
        e.v[name] = t
        return
      e = e.parent
    self.v[name] = t

  def is_param(self, name):
    e = self
    while e is not None:
      if name in e.params:
        return True
      e = e.parent
    return False


def neg(p):
  k = p[0]
  if k == 'in':
    return ('notin', p[1], p[2])
  if k == 'notin':
    return ('in', p[1], p[2])
  if k == 'lt':   # a < b  -> b <= a
    return ('le', p[2], p[1])
  if k == 'le':
    return ('lt', p[2], p[1])
  if k == 'eq':
    return ('ne', p[1])
  if k == 'ne':
    return ('eq', p[1])
  if k == 'any':
    return ('none', p[1])
  if k == 'none':
    return ('any', p[1])
  if k == 'and':
    return mk_or([neg(x) for x in p[1]])
  if k == 'or':
    return mk_and([neg(x) for x in p[1]])
  if k == 'not':
    return p[1]
  if k == 'c':
    return C(not p[1])
  return ('not', p)


def _merge(atoms, conj):
  """Merge in/notin atoms on the same subject inside a conjunction (conj=True) or
  disjunction."""
  by = {}
  out = []
  for a in atoms:
    if a[0] in ('in', 'notin'):
      by.setdefault(a[1], []).append(a)
    else:
      out.append(a)
  for subj, lst in by.items():
    ins = [a[2] for a in lst if a[0] == 'in']
    nots = [a[2] for a in lst if a[0] == 'notin']
    if conj:
      if ins:
        s = frozenset.intersection(*ins)
        for n in nots:
          s = s - n
        out.append(('in', subj, s))
      else:
        out.append(('notin', subj, frozenset.union(*nots)))
    else:
      if nots:
        s = frozenset.intersection(*nots)
        for i in ins:
          s = s - i
        out.append(('notin', subj, s))
      else:
        out.append(('in', subj, frozenset.union(*ins)))
  return out


def mk_and(ps):
  flat = []
  for p in ps:
    if p[0] == 'and':
      flat.extend(p[1])
    elif p == C(True):
      continue
    else:
      flat.append(p)
  flat = _merge(flat, True)
  if any(p == C(False) for p in flat):
    return C(False)
  s = frozenset(flat)
  if not s:
    return C(True)
  if len(s) == 1:
    return next(iter(s))
  return ('and', s)


def mk_or(ps):
  flat = []
  for p in ps:
    if p[0] == 'or':
      flat.extend(p[1])
    elif p == C(False):
      continue
    else:
      flat.append(p)
  flat = _merge(flat, False)
  s = frozenset(flat)
  if not s:
    return C(False)
  if len(s) == 1:
    return next(iter(s))
  return ('or', s)


PRED_KINDS = ('in', 'notin', 'lt', 'le', 'eq', 'ne', 'any', 'none', 'and', 'or', 'not')


def is_pred(t):
  return isinstance(t, tuple) and t and t[0] in PRED_KINDS


def truthy(t):
  """A term used in boolean position."""
  if is_pred(t):
    return t
  if is_const(t):
    return C(bool(t[1]))
  return ('notin', t, frozenset([0]))


def any_of(t):
  """`.any()` of an (elementwise) term."""
  p = truthy(t)
  if p[0] == 'c':
    return p
  return ('any', p)


def all_of(t):
  p = truthy(t)
  if p[0] == 'c':
    return p
  return ('none', neg(p))


def _is_python_int(node):
  """int(...) around the shifted operand (or a literal): the shift is done on an unbounded Python int."""
  return isinstance(node, ast.Constant) or (isinstance(node, ast.Call) and isinstance(node.func, ast.Name) and node.func.id == 'int')


def _leaf_fields(t):
  if isinstance(t, tuple) and t:
    if t[0] == 'f':
      yield t[1]
      return
    for x in t[1:]:
      yield from _leaf_fields(x)


class Normalizer:

  def __init__(self, mod=None):
    self.mod = mod

  # ------------------------------------------------------------------ terms
  def term(self, e, env):
    t = type(e)
    if t is ast.Constant:
      return C(e.value)
    if t is ast.Name:
      v = env.get(e.id)
      if v is not None:
        return v
      if env.is_param(e.id):
        return ('f', e.id)
      if e.id in ('True', 'False'):
        return C(e.id == 'True')
      return ('name', self._alias(e.id))
    if t is ast.Attribute:
      b = self.term(e.value, env)
      while b[0] == 'replace':
        hit = [v for k, v in b[2] if k == e.attr]
        if hit:
          return hit[0]
        b = b[1]
      if b[0] == 'f':
        return ('f', b[1] + '.' + e.attr)
      if b[0] == 'name':
        full = b[1] + '.' + e.attr
        if full in ('numpy.inf', 'jax.numpy.inf', 'math.inf'):
          return C(INF)
        return ('name', full)
      return ('attr', b, e.attr)
    if t is ast.UnaryOp:
      if isinstance(e.op, (ast.Not, ast.Invert)):
        return neg(truthy(self.term(e.operand, env)))
      v = self.term(e.operand, env)
      if isinstance(e.op, ast.USub):
        if is_const(v) and isinstance(v[1], (int, float)):
          return C(-v[1])
        return ('neg', v)
      return v
    if t is ast.BoolOp:
      ps = [truthy(self.term(v, env)) for v in e.values]
      return mk_and(ps) if isinstance(e.op, ast.And) else mk_or(ps)
    if t is ast.Compare:
      left = self.term(e.left, env)
      ps = []
      for op, c in zip(e.ops, e.comparators):
        right = self.term(c, env)
        ps.append(self.compare(op, left, right))
        left = right
      return mk_and(ps)
    if t in (ast.Tuple, ast.List):
      return ('tup', tuple(self.term(x, env) for x in e.elts))
    if t is ast.Dict:
      return ('dict', tuple(sorted(((self.term(k, env), self.term(v, env))
                                    for k, v in zip(e.keys, e.values)), key=repr)))
    if t is ast.Subscript:
      return self.subscript(self.term(e.value, env), self.index(e.slice, env))
    if t is ast.BinOp:
      l, r = self.term(e.left, env), self.term(e.right, env)
      op = type(e.op).__name__
      if op == 'LShift' and is_const(r) and isinstance(r[1], int) and r[1] >= 32 and not _is_python_int(e.left):
        # numpy fixed-width integers (the mjModel id / bit-mask fields are int32): a shift by the full width or more
        # gives 0, not a 64-bit value -- only a Python int (int(...)) shifts exactly
        fields = [x for x in _leaf_fields(l)]
        if fields and all(str(x).startswith('mj.') for x in fields):
          return ('c', 0)
      if op == 'BitOr':
        if is_const(l) and l[1] == 0:
          return r
        if is_const(r) and r[1] == 0:
          return l
      if op in ('BitAnd',) and is_pred(l) and is_pred(r):
        return mk_and([l, r])
      if op in ('BitOr',) and is_pred(l) and is_pred(r):
        return mk_or([l, r])
      if op in ('Add', 'Mult', 'BitOr', 'BitAnd'):
        l, r = sorted([l, r], key=repr)
      return ('bin', op, l, r)
    if t is ast.Call:
      return self.call(e, env)
    if t in (ast.ListComp, ast.GeneratorExp):
      return self.comp(e, env)
    if t is ast.IfExp:
      return ('ifexp', truthy(self.term(e.test, env)), self.term(e.body, env),
              self.term(e.orelse, env))
    if t is ast.JoinedStr:
      return ('raw', '<fstring>')
    if t is ast.Lambda:
      return ('raw', 'lambda:' + ast.unparse(e.body))
    if t is ast.Starred:
      return self.term(e.value, env)
    return ('raw', ast.unparse(e))

  def _alias(self, name):
    if self.mod is not None and name in self.mod.alias:
      return self.mod.alias[name]
    return name

  def index(self, s, env):
    if isinstance(s, ast.Slice):
      f = lambda x: None if x is None else self.term(x, env)
      return ('slice', f(s.lower), f(s.upper), f(s.step))
    if isinstance(s, ast.Tuple):
      return ('idx', tuple(self.index(x, env) for x in s.elts))
    return self.term(s, env)

  def subscript(self, base, idx):
    # element view of the loop index: F[i] with i the loop index -> elem(F)
    if idx == ('loopidx',):
      return ('elem', base)
    if idx[0] == 'idx' and idx[1] and idx[1][0] == ('loopidx',):
      rest = idx[1][1:]
      inner = ('elem', base)
      if len(rest) == 1:
        return self.subscript(inner, rest[0])
      return ('sub', inner, ('idx', rest))
    # slicing distributes over elementwise arithmetic with a constant
    if base[0] == 'bin' and idx[0] == 'slice' and (is_const(base[2]) or is_const(base[3])):
      l = base[2] if is_const(base[2]) else self.subscript(base[2], idx)
      r = base[3] if is_const(base[3]) else self.subscript(base[3], idx)
      return ('bin', base[1], l, r)
    # (X[a:b])[k] -> X[a+k]
    if (base[0] == 'sub' and base[2][0] == 'slice' and is_const(idx)
        and isinstance(idx[1], int) and idx[1] >= 0 and base[2][3] is None):
      lo = base[2][1]
      lo = 0 if lo is None else (lo[1] if is_const(lo) else None)
      if lo is not None:
        return ('sub', base[1], C(lo + idx[1]))
    if base[0] == 'tup' and is_const(idx) and isinstance(idx[1], int) and -len(base[1]) <= idx[1] < len(base[1]):
      return base[1][idx[1]]
    if base[0] == 'dict' and is_const(idx):
      for k, v in base[1]:
        if k == idx:
          return v
    return ('sub', base, idx)

  def compare(self, op, l, r):
    t = type(op)
    if t in (ast.Eq, ast.NotEq):
      if is_const(r) and not is_const(l):
        p = ('in', l, frozenset([r[1]]))
      elif is_const(l) and not is_const(r):
        p = ('in', r, frozenset([l[1]]))
      elif is_const(l) and is_const(r):
        p = C(l[1] == r[1])
      else:
        p = ('eq', frozenset([l, r]))
      return p if t is ast.Eq else neg(p)
    if t in (ast.In, ast.NotIn):
      if r[0] == 'tup' and all(is_const(x) for x in r[1]):
        p = ('in', l, frozenset(x[1] for x in r[1]))
      elif is_const(l):
        p = ('any', ('in', r, frozenset([l[1]])))
      else:
        p = ('contains', r, l)
      return p if t is ast.In else neg(p)
    if t is ast.Lt:
      return ('lt', l, r)
    if t is ast.LtE:
      return ('le', l, r)
    if t is ast.Gt:
      return ('lt', r, l)
    if t is ast.GtE:
      return ('le', r, l)
    if t is ast.Is:
      return ('in', l, frozenset([repr(r)])) if True else None
    if t is ast.IsNot:
      return ('notin', l, frozenset([repr(r)]))
    raise AnalysisError('comparison operator %s' % t.__name__)

  def call(self, e, env):
    d = dotted(e.func)
    name = None
    if d:
      head = self._alias(d[0]) if env.get(d[0]) is None and not env.is_param(d[0]) else None
      if head is not None:
        name = '.'.join([head] + d[1:])
    args = e.args
    # method calls on terms
    is_module_fn = bool(d) and name is not None and self.mod is not None and d[0] in self.mod.alias
    if isinstance(e.func, ast.Attribute) and not is_module_fn and (
        name is None or not name.startswith(('numpy', 'jax', 'itertools', 'math'))):
      recv = self.term(e.func.value, env)
      m = e.func.attr
      if m == 'any' and not args:
        return any_of(recv)
      if m == 'all' and not args:
        return all_of(recv)
      if m in ('copy', 'astype', 'squeeze', 'flatten', 'ravel', 'tolist'):
        return recv
      if m == 'replace' and not args:
        return ('replace', recv, tuple(sorted((k.arg or '**', self.term(k.value, env)) for k in e.keywords)))
      return ('mcall', recv, m, tuple(self.term(a, env) for a in args))
    if name in ('numpy.any', 'jax.numpy.any', 'any'):
      return any_of(self.term(args[0], env))
    if name in ('numpy.all', 'jax.numpy.all', 'all'):
      return all_of(self.term(args[0], env))
    if name in ('numpy.allclose', 'jax.numpy.allclose', 'numpy.array_equal', 'jax.numpy.array_equal', 'numpy.array_equiv') \
        and len(args) >= 2:
      # all elements equal (allclose: up to a round-off tolerance, which no guard of this code base relies on)
      return all_of(self.compare(ast.Eq(), self.term(args[0], env), self.term(args[1], env)))
    if name in ('numpy.array', 'numpy.asarray', 'jax.numpy.array', 'list', 'tuple'):
      return self.term(args[0], env) if args else ('tup', ())
    if name in ('numpy.isin', 'jax.numpy.isin', 'numpy.in1d') and len(args) == 2 and not e.keywords:
      return self.compare(ast.In(), self.term(args[0], env), self.term(args[1], env))
    if name in ('numpy.isinf', 'jax.numpy.isinf'):
      return ('in', ('abs', self.term(args[0], env)), frozenset([INF]))
    if name in ('numpy.isfinite', 'jax.numpy.isfinite'):
      return ('notin', ('abs', self.term(args[0], env)), frozenset([INF]))
    if name in ('numpy.logical_not', 'jax.numpy.logical_not'):
      return neg(truthy(self.term(args[0], env)))
    if name in ('numpy.logical_and', 'jax.numpy.logical_and'):
      return mk_and([truthy(self.term(a, env)) for a in args])
    if name in ('numpy.logical_or', 'jax.numpy.logical_or'):
      return mk_or([truthy(self.term(a, env)) for a in args])
    if name in ('jax.tree.map', 'jax.tree_util.tree_map', 'jax.tree_map') and args:
      f = args[0]
      if isinstance(f, ast.Lambda) and not f.args.vararg and len(f.args.args) == len(args) - 1:
        env2 = env.child()
        for pa, x in zip(f.args.args, args[1:]):
          env2.set(pa.arg, self.term(x, env))
        return self.term(f.body, env2)
      if isinstance(f, ast.Lambda) and f.args.vararg and not f.args.args:
        env2 = env.child()
        env2.set(f.args.vararg.arg, ('tup', tuple(self.term(x, env) for x in args[1:])))
        return self.term(f.body, env2)
      ft = self.term(f, env)
      if ft[0] == 'name' and ft[1] in ('jax.numpy.array', 'numpy.array', 'jax.numpy.asarray'):
        return self.term(args[1], env)
    if name == 'len':
      return ('len', self.term(args[0], env))
    if name in ('int', 'float', 'bool'):
      return self.term(args[0], env)
    if isinstance(e.func, ast.Name):
      bound = env.get(e.func.id)
      if bound is not None and bound[0] == 'raw' and bound[1].startswith('lambda:'):
        return ('call', 'lambda', tuple(self.term(a, env) for a in args), ())
    fname = name or ast.unparse(e.func)
    return ('call', fname, tuple(self.term(a, env) for a in args),
            tuple(sorted((k.arg or '**', self.term(k.value, env)) for k in e.keywords)))

  def comp(self, e, env):
    """[elt for v in it if c] under elementwise semantics: v := it."""
    env2 = env.child()
    conds = []
    for g in e.generators:
      it = self.iter_term(g.iter, env2)
      self.bind_target(g.target, it, env2, loop=False)
      for c in g.ifs:
        conds.append(truthy(self.term(c, env2)))
    elt = self.term(e.elt, env2)
    if conds:
      return ('filter', elt, mk_and(conds))
    return elt

  # --------------------------------------------------------- loops / binding
  def iter_term(self, it, env):
    """Term describing the iterated collection."""
    if isinstance(it, ast.Call):
      d = dotted(it.func)
      name = '.'.join([self._alias(d[0])] + d[1:]) if d else None
      if name == 'zip':
        return ('zip', tuple(self.iter_term(a, env) for a in it.args))
      if name == 'enumerate':
        return ('enum', self.iter_term(it.args[0], env))
      if name == 'itertools.groupby':
        inner = self.iter_term(it.args[0], env)
        key = None
        for k in it.keywords:
          if k.arg == 'key':
            key = k.value
        if len(it.args) > 1:
          key = it.args[1]
        ki = None
        if isinstance(key, ast.Lambda) and isinstance(key.body, ast.Subscript):
          c = self.term(key.body.slice, Env(()))
          if is_const(c):
            ki = c[1]
        if inner[0] == 'zip' and ki is not None and 0 <= ki < len(inner[1]):
          by = inner[1][ki]
          return ('groupby', tuple(('grp', x, by) for x in inner[1]), by)
        return ('groupby_raw', inner, ('raw', ast.unparse(key) if key is not None else ''))
      if name in ('list', 'tuple', 'iter'):
        return self.iter_term(it.args[0], env)
    return self.term(it, env)

  def bind_target(self, tgt, it, env, loop=True):
    """Bind loop/comprehension targets to element terms of `it`."""
    wrap = (lambda x: ('elem', x)) if loop else (lambda x: x)
    if isinstance(tgt, ast.Name):
      if it[0] == 'enum':
        raise AnalysisError('enumerate bound to a single name')
      env.set(tgt.id, wrap(it) if it[0] not in ('zip', 'groupby') else ('raw', 'tuple-of-' + show(it)))
      return
    if isinstance(tgt, (ast.Tuple, ast.List)):
      n = len(tgt.elts)
      if it[0] == 'zip' and len(it[1]) == n:
        for x, sub in zip(tgt.elts, it[1]):
          self.bind_target(x, sub, env, loop)
        return
      if it[0] == 'enum' and n == 2:
        if isinstance(tgt.elts[0], ast.Name):
          env.set(tgt.elts[0].id, ('loopidx',))
        self.bind_target(tgt.elts[1], it[1], env, loop)
        return
      if it[0] == 'groupby' and n == 2:
        # (key, group): group iterates tuples of the zipped fields restricted to the group
        if isinstance(tgt.elts[0], ast.Name):
          env.set(tgt.elts[0].id, ('elem', it[2]))
        if isinstance(tgt.elts[1], ast.Name):
          env.set(tgt.elts[1].id, ('zip', it[1]))
        return
      if it[0] == 'sub' or it[0] == 'elem' or it[0] == 'f':
        # unpacking a row: k-th component
        for k, x in enumerate(tgt.elts):
          if isinstance(x, ast.Name):
            env.set(x.id, self.subscript(wrap(it), C(k)))
        return
    # unknown iteration shape: the loop variables become opaque per-iteration symbols
    for x in ast.walk(tgt):
      if isinstance(x, ast.Name):
        env.set(x.id, ('f', x.id))


def show_abs(t, depth=3):
  """Depth-limited rendering: subterms below `depth` become an ellipsis."""
  def cut(x, d):
    if isinstance(x, frozenset):
      return frozenset(cut(y, d) for y in x)
    if not isinstance(x, tuple) or not x:
      return x
    if not isinstance(x[0], str):
      return tuple(cut(y, d) for y in x)
    if x[0] in ('c', 'f', 'name', 'loopidx'):
      return x
    if d <= 0:
      return ('raw', '…')
    if x[0] == 'call':
      return ('call', x[1], tuple(cut(y, d - 1) for y in x[2]), tuple((k, cut(v, d - 1)) for k, v in x[3]))
    if x[0] == 'replace':
      return ('replace', cut(x[1], d - 1), tuple((k, cut(v, d - 1)) for k, v in x[2]))
    return (x[0],) + tuple(cut(y, d - 1) if isinstance(y, (tuple, frozenset)) else y for y in x[1:])
  return show(cut(t, depth))


def show(t):
  if t is None:
    return ''
  if not isinstance(t, tuple):
    return repr(t)
  k = t[0]
  if k == 'c':
    v = t[1]
    if isinstance(v, float) and abs(v) != INF and v == v and v == int(v):
      v = int(v)
    return repr(v)
  if k == 'f':
    return t[1]
  if k == 'name':
    return t[1]
  if k in ('in', 'notin'):
    vals = sorted(t[2], key=repr)
    norm_vals = []
    for v in vals:
      if isinstance(v, float) and abs(v) != INF and v == int(v):
        v = int(v)
      if isinstance(v, bool):
        v = int(v)
      norm_vals.append(repr(v))
    return '%s %s {%s}' % (show(t[1]), '∈' if k == 'in' else '∉', ','.join(sorted(set(norm_vals))))
  if k == 'lt':
    return '%s < %s' % (show(t[1]), show(t[2]))
  if k == 'le':
    return '%s <= %s' % (show(t[1]), show(t[2]))
  if k in ('eq', 'ne'):
    return (' == ' if k == 'eq' else ' != ').join(sorted(show(x) for x in t[1]))
  if k in ('and', 'or'):
    return '(' + (' ∧ ' if k == 'and' else ' ∨ ').join(sorted(show(x) for x in t[1])) + ')'
  if k == 'any':
    return '∃[%s]' % show(t[1])
  if k == 'none':
    return '¬∃[%s]' % show(t[1])
  if k == 'not':
    return '¬(%s)' % show(t[1])
  if k == 'elem':
    return show(t[1]) + '[*]'
  if k == 'grp':
    return 'group(%s by %s)' % (show(t[1]), show(t[2]))
  if k == 'sub':
    return '%s[%s]' % (show(t[1]), show(t[2]))
  if k == 'idx':
    return ','.join(show(x) for x in t[1])
  if k == 'slice':
    return '%s:%s%s' % (show(t[1]), show(t[2]), (':' + show(t[3])) if t[3] is not None else '')
  if k == 'tup':
    return '(' + ','.join(show(x) for x in t[1]) + ')'
  if k == 'dict':
    return '{' + ','.join('%s:%s' % (show(a), show(b)) for a, b in t[1]) + '}'
  if k == 'zip':
    return 'zip(' + ','.join(show(x) for x in t[1]) + ')'
  if k == 'len':
    return 'len(%s)' % show(t[1])
  if k == 'abs':
    return '|%s|' % show(t[1])
  if k == 'bin':
    return '(%s %s %s)' % (show(t[2]), t[1], show(t[3]))
  if k == 'neg':
    return '-' + show(t[1])
  if k == 'call':
    return '%s(%s)' % (t[1], ','.join([show(a) for a in t[2]] + ['%s=%s' % (a, show(b)) for a, b in t[3]]))
  if k == 'mcall':
    return '%s.%s(%s)' % (show(t[1]), t[2], ','.join(show(a) for a in t[3]))
  if k == 'attr':
    return '%s.%s' % (show(t[1]), t[2])
  if k == 'replace':
    return '%s.replace(%s)' % (show(t[1]), ','.join('%s=%s' % (a, show(b)) for a, b in t[2]))
  if k == 'maskset':
    return 'maskset(%s; where %s := %s)' % (show(t[1]), show(t[2]), show(t[3]))
  if k == 'filter':
    return '[%s | %s]' % (show(t[1]), show(t[2]))
  if k == 'raw':
    return '‹%s›' % t[1]
  if k == 'loopidx':
    return '*'
  if k == 'contains':
    return '%s ∋ %s' % (show(t[1]), show(t[2]))
  if k == 'ifexp':
    return '(%s ? %s : %s)' % (show(t[1]), show(t[2]), show(t[3]))
  return '%s(%s)' % (k, ','.join(show(x) for x in t[1:]))


# --------------------------------------------------------------------------
def _terminator(body):
  if not body:
    return None
  last = body[-1]
  if isinstance(last, ast.Raise):
    return 'raise'
  if isinstance(last, ast.Continue):
    return 'continue'
  if isinstance(last, ast.Return):
    return 'return'
  if isinstance(last, ast.Break):
    return 'break'
  return None


def sym_walk(fn_node, mod, params=None, on_raise=None, on_assign=None, on_expr=None,
             on_return=None, drop_raise_negations=True, env=None, on_stmt=None):
  """Walk a function once, inlining local definitions, binding loop variables and
  tracking the path condition.  Callbacks receive (stmt, pc_atoms, env, N)."""
  N = Normalizer(mod)
  a = fn_node.args
  params = params or [x.arg for x in a.posonlyargs + a.args + a.kwonlyargs]
  if a.vararg:
    params.append(a.vararg.arg)
  if a.kwarg:
    params.append(a.kwarg.arg)

  def walk(stmts, pc, env):
    pc = list(pc)
    for s in stmts:
      if on_stmt:
        on_stmt(s, pc, env, N)
      if isinstance(s, ast.If):
        test = truthy(N.term(s.test, env))
        walk(s.body, pc + [test], env.child_shared() if hasattr(env, 'child_shared') else env.child())
        term = _terminator(s.body)
        if term == 'raise' and drop_raise_negations:
          walk(s.orelse, pc, env.child())
        else:
          walk(s.orelse, pc + [neg(test)], env.child())
          if term in ('continue', 'return', 'break', 'raise'):
            pc.append(neg(test))
      elif isinstance(s, ast.For):
        env2 = env.child()
        it = N.iter_term(s.iter, env2)
        N.bind_target(s.target, it, env2, loop=True)
        walk(s.body, pc, env2)
      elif isinstance(s, ast.While):
        raise AnalysisError('while loop in analysed function')
      elif isinstance(s, ast.Try):
        raise AnalysisError('try statement in analysed function')
      elif isinstance(s, ast.With):
        walk(s.body, pc, env)
      elif isinstance(s, ast.Raise):
        if on_raise:
          on_raise(s, pc, env, N)
        return
      elif isinstance(s, ast.Return):
        if on_return:
          on_return(s, pc, env, N)
        return
      elif isinstance(s, ast.Assign) and len(s.targets) == 1:
        tg = s.targets[0]
        if isinstance(tg, ast.Name):
          env.set(tg.id, N.term(s.value, env))
        elif isinstance(tg, (ast.Tuple, ast.List)):
          val = N.term(s.value, env)
          for k, x in enumerate(tg.elts):
            if isinstance(x, ast.Name):
              env.set(x.id, N.subscript(val, C(k)))
        elif isinstance(tg, ast.Subscript):
          root = tg.value
          if isinstance(root, ast.Name):
            base = env.get(root.id) or N.term(root, env)
            idx = N.index(tg.slice, env)
            mask = idx[1][0] if idx[0] == 'idx' and idx[1] else idx
            env.set_outer(root.id, ('maskset', base, mask, N.term(s.value, env)))
        if on_assign:
          on_assign(s, pc, env, N)
      elif isinstance(s, ast.AugAssign) and isinstance(s.target, ast.Name):
        env.set_outer(s.target.id, ('bin', type(s.op).__name__, N.term(s.target, env),
                                    N.term(s.value, env)))
        if on_assign:
          on_assign(s, pc, env, N)
      elif isinstance(s, ast.AnnAssign) and isinstance(s.target, ast.Name) and s.value is not None:
        env.set(s.target.id, N.term(s.value, env))
      elif isinstance(s, ast.Expr):
        if on_expr:
          on_expr(s, pc, env, N)

  env = env or Env(params, mod)
  walk(fn_node.body, [], env)
  return env


def atoms_of(pc):
  cond = mk_and(pc)
  atoms = cond[1] if cond[0] == 'and' else frozenset([cond])
  return frozenset(show(x) for x in atoms if x != C(True))


def raise_table(fn_node, mod, params=None):
  """Path condition of every `raise` in a function.

  Returns list of dict(cond=frozenset of atom strings, exc=text, line=int).
  Negations contributed by earlier raise-terminated guards are dropped (whichever
  guard fires first the input is rejected); negations of continue/return-terminated
  guards and of elif chains are kept.
  """
  rows = []

  def on_raise(s, pc, env, N):
    rows.append(dict(cond=atoms_of(pc), exc=ast.unparse(s.exc)[:80] if s.exc else '',
                     line=s.lineno))

  sym_walk(fn_node, mod, params, on_raise=on_raise)
  return rows
