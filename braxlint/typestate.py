"""Unit-quaternion typestate (lattice UNIT below ANY) as a small abstract interpreter over
function ASTs with context-sensitive, memoised callee summaries.

Abstract values
  'U'               Transform with unit rotation / unit quaternion (array of them)
  'A'               Transform / quaternion not known to be unit
  'O'               anything that is not a rotation carrier (Motion, scalars, positions)
  ('tuple', [...])  python tuple of abstract values
  ('state', cls, {field: abs})   a pipeline State (unlisted Transform fields default to U:
                                 the inductive hypothesis on the incoming state)
  ('sys',)          the System (its link transforms / joint frames are unit: MuJoCo
                    normalises body_quat / iquat at compile time)
  ('cat', [...])    jp.concatenate of the listed pieces
  ('fn', Func, decorators, env)  local function value

ANY sources: arithmetic on Transforms or quaternions (+, -, *, /), quat_rot_axis of an axis
not known unit, tree_map.  Sanitisers: math.normalize(.)[0], . / jp.linalg.norm(.),
. / math.safe_norm(.).  Unit preserving: quat_mul / quat_inv / relative_quat of units,
Transform.do / to_local / create / zero, take / concatenate / reshape / where of units.
"""
import ast

from braxlint.universe import AnalysisError, dotted

U, A, O = 'U', 'A', 'O'
TRANSFORM_FIELDS = ('x', 'x_i', 'j', 'a_p', 'a_c')


def join(a, b):
  if a == b:
    return a
  if isinstance(a, tuple) and isinstance(b, tuple) and a[0] == b[0]:
    if a[0] in ('tuple', 'cat') and len(a[1]) == len(b[1]):
      return (a[0], [join(x, y) for x, y in zip(a[1], b[1])])
    if a[0] == 'state':
      keys = set(a[2]) | set(b[2])
      return ('state', a[1], {k: join(sget(a, k), sget(b, k)) for k in keys})
  if a in (U, A) and b in (U, A):
    return A
  if a == O and b == O:
    return O
  return A


def sget(st, field):
  if field in st[2]:
    return st[2][field]
  return U if field in TRANSFORM_FIELDS else O


class Ret(Exception):
  pass


class TS:

  def __init__(self, U_, max_depth=10):
    self.U = U_
    self.memo = {}
    self.depth = 0
    self.max_depth = max_depth
    self.trace = []   # (qname, lineno, message) explaining the first ANY source seen

  # ---------------------------------------------------------------- resolve
  def resolve(self, node, f):
    """Func for a dotted reference to a repo function, else None."""
    d = dotted(node)
    if not d:
      return None
    m = f.mod
    if d[0] in m.alias:
      full = '.'.join(m.alias[d[0]].split('.') + d[1:])
      if full in self.U.funcs:
        return self.U.funcs[full]
      return None
    if len(d) == 1:
      q = m.name + '.' + d[0]
      if q in self.U.funcs:
        return self.U.funcs[q]
    return None

  def ext_name(self, node, f):
    d = dotted(node)
    if not d:
      return None
    if d[0] in f.mod.alias:
      return '.'.join(f.mod.alias[d[0]].split('.') + d[1:])
    return '.'.join(d)

  # ------------------------------------------------------------------- calls
  def summary(self, f, args, kwargs=None):
    """Abstract return value of repo function f on abstract args."""
    key = (f.qname, repr(args), repr(sorted((kwargs or {}).items())))
    if key in self.memo:
      return self.memo[key]
    if self.depth >= self.max_depth:
      return A
    self.memo[key] = A   # recursion guard
    self.depth += 1
    try:
      env = {}
      a = f.node.args
      params = [x.arg for x in a.posonlyargs + a.args]
      for p, v in zip(params, args):
        env[p] = v
      for p in params[len(args):]:
        env[p] = (kwargs or {}).get(p, self.default_param(f, p))
      for k in a.kwonlyargs:
        env[k.arg] = (kwargs or {}).get(k.arg, O)
      res = self.run_body(f, f.node.body, env)
    finally:
      self.depth -= 1
    self.memo[key] = res
    return res

  def default_param(self, f, name):
    for x in f.node.args.args + f.node.args.kwonlyargs:
      if x.arg == name and x.annotation is not None:
        an = ast.unparse(x.annotation)
        if an.endswith('Transform'):
          return U
        if an.endswith('System'):
          return ('sys',)
        if an.endswith('State'):
          return ('state', an, {})
    if name == 'sys':
      return ('sys',)
    return O

  def run_body(self, f, body, env):
    rets = []
    self.block(f, body, env, rets)
    if not rets:
      return O
    r = rets[0]
    for x in rets[1:]:
      r = join(r, x)
    return r

  # -------------------------------------------------------------- statements
  def block(self, f, stmts, env, rets):
    """Returns False if the block always returns."""
    for s in stmts:
      if isinstance(s, ast.Return):
        rets.append(self.ev(s.value, f, env) if s.value is not None else O)
        return False
      if isinstance(s, ast.Raise):
        return False
      if isinstance(s, ast.Assign):
        v = self.ev(s.value, f, env)
        for t in s.targets:
          self.assign(t, v, f, env)
      elif isinstance(s, ast.AnnAssign) and s.value is not None:
        self.assign(s.target, self.ev(s.value, f, env), f, env)
      elif isinstance(s, ast.AugAssign):
        cur = self.ev(s.target, f, env)
        val = self.ev(s.value, f, env)
        if cur in (U, A) or isinstance(cur, tuple) and cur[0] == 'state':
          self.note(f, s, 'augmented arithmetic on a rotation carrier')
          new = A
        else:
          new = O
        self.assign(s.target, new, f, env)
      elif isinstance(s, ast.If):
        e1, e2 = dict(env), dict(env)
        live1 = self.block(f, s.body, e1, rets)
        live2 = self.block(f, s.orelse, e2, rets)
        if live1 is not False and live2 is not False:
          for k in set(e1) | set(e2):
            if k in e1 and k in e2:
              env[k] = join(e1[k], e2[k])
            else:
              env[k] = e1.get(k, e2.get(k))
        elif live1 is not False:
          env.clear(); env.update(e1)
        elif live2 is not False:
          env.clear(); env.update(e2)
        else:
          return False
      elif isinstance(s, (ast.For, ast.While)):
        e1 = dict(env)
        if isinstance(s, ast.For):
          self.assign(s.target, O, f, e1)
        self.block(f, s.body, e1, rets)
        self.block(f, s.body, e1, rets)   # second pass: loop-carried values
        for k in set(e1):
          env[k] = join(env[k], e1[k]) if k in env else e1[k]
      elif isinstance(s, ast.With):
        if self.block(f, s.body, env, rets) is False:
          return False
      elif isinstance(s, (ast.FunctionDef, ast.AsyncFunctionDef)):
        q = None
        for qq, ff in self.U.funcs.items():
          if ff.node is s:
            q = ff
        env[s.name] = ('fn', q, [ast.unparse(d) for d in s.decorator_list], env)
      elif isinstance(s, ast.Expr):
        pass
      elif isinstance(s, ast.Try):
        self.block(f, s.body, env, rets)
    return True

  def assign(self, t, v, f, env):
    if isinstance(t, ast.Name):
      env[t.id] = v
    elif isinstance(t, (ast.Tuple, ast.List)):
      if isinstance(v, tuple) and v[0] == 'tuple' and len(v[1]) == len(t.elts):
        for x, y in zip(t.elts, v[1]):
          self.assign(x, y, f, env)
      else:
        for x in t.elts:
          self.assign(x, A if v in (U, A) else (v if v == O else A), f, env)
    # attribute / subscript stores are ignored (immutable structs)

  def note(self, f, node, msg):
    if len(self.trace) < 20:
      self.trace.append((f.qname, getattr(node, 'lineno', f.line), msg))

  # -------------------------------------------------------------- expressions
  def ev(self, e, f, env):
    t = type(e)
    if t is ast.Name:
      if e.id in env:
        return env[e.id]
      return O
    if t is ast.Constant:
      return O
    if t is ast.Tuple or t is ast.List:
      return ('tuple', [self.ev(x, f, env) for x in e.elts])
    if t is ast.Attribute:
      base = self.ev(e.value, f, env)
      return self.attr(base, e.attr)
    if t is ast.Subscript:
      base = self.ev(e.value, f, env)
      if isinstance(base, tuple) and base[0] == 'tuple':
        idx = e.slice
        if isinstance(idx, ast.Constant) and isinstance(idx.value, int) and -len(base[1]) <= idx.value < len(base[1]):
          return base[1][idx.value]
        r = base[1][0] if base[1] else O
        for x in base[1][1:]:
          r = join(r, x)
        return r
      if base in (U, A):
        # indexing a batch keeps unit-ness; slicing components of one quaternion does not matter here
        return base
      return O if base == O else A
    if t is ast.IfExp:
      return join(self.ev(e.body, f, env), self.ev(e.orelse, f, env))
    if t is ast.BinOp:
      l, r = self.ev(e.left, f, env), self.ev(e.right, f, env)
      if isinstance(e.op, ast.Div) and l in (U, A) and self.is_norm_of(e.right, e.left, f):
        return U
      if l in (U, A) or r in (U, A) or (isinstance(l, tuple) and l[0] == 'state'):
        self.note(f, e, 'arithmetic `%s` on a rotation carrier' % ast.unparse(e)[:60])
        return A
      return O
    if t is ast.UnaryOp:
      v = self.ev(e.operand, f, env)
      return v if v in (U, A) else O   # -q is the same rotation and still unit
    if t is ast.Call:
      return self.call(e, f, env)
    if t is ast.Lambda:
      return ('lam', e, env)
    if t is ast.Starred:
      return self.ev(e.value, f, env)
    return O

  def is_norm_of(self, den, num, f):
    """den is jp.linalg.norm(num) / math.safe_norm(num) (textually the same operand)."""
    if isinstance(den, ast.Call) and den.args:
      n = self.ext_name(den.func, f) or ''
      if n in ('jax.numpy.linalg.norm', 'numpy.linalg.norm', 'brax.math.safe_norm') or n.endswith('safe_norm'):
        return ast.unparse(den.args[0]) == ast.unparse(num)
    return False

  def attr(self, base, a):
    if isinstance(base, tuple):
      if base[0] == 'state':
        return sget(base, a)
      if base[0] == 'sys':
        if a in ('rot',):
          return U
        if a in ('transform', 'joint'):
          return U
        if a in ('pos', 'mass', 'i'):
          return O
        return ('sys',)
      if base[0] == 'vm':
        return base
      return O
    if base in (U, A):
      if a == 'rot':
        return base
      if a == 'pos':
        return O
      return base if a in ('T',) else O
    return O

  def kw(self, call, name):
    for k in call.keywords:
      if k.arg == name:
        return k.value
    return None

  def call(self, e, f, env):
    fn = e.func
    args = [self.ev(a, f, env) for a in e.args]
    kwargs = {k.arg: self.ev(k.value, f, env) for k in e.keywords if k.arg}
    # jax.vmap(g, ...)(args): elementwise lifting keeps unit-ness
    if isinstance(fn, ast.Call):
      inner_name = self.ext_name(fn.func, f) or ''
      if inner_name in ('jax.vmap', 'jax.jit') and fn.args:
        return self.apply_value(fn.args[0], args, kwargs, f, env, e)
      if inner_name == 'functools.partial' and fn.args:
        pre = [self.ev(a, f, env) for a in fn.args[1:]]
        return self.apply_value(fn.args[0], pre + args, kwargs, f, env, e)
    if isinstance(fn, ast.Attribute):
      m = fn.attr
      recv_node = fn.value
      # X.vmap(...).method(...)
      if isinstance(recv_node, ast.Call) and isinstance(recv_node.func, ast.Attribute) and recv_node.func.attr == 'vmap':
        inner = recv_node.func.value
        while isinstance(inner, ast.Call) and isinstance(inner.func, ast.Attribute) and inner.func.attr == 'vmap':
          inner = inner.func.value
        recv = self.ev(inner, f, env)
        return self.method(recv, m, args, kwargs, e, f)
      # module function?
      name = self.ext_name(fn, f)
      d = dotted(fn)
      if d and (d[0] in f.mod.alias) and d[0] not in env:
        return self.named_call(name, e, args, kwargs, f, env)
      recv = self.ev(recv_node, f, env)
      # Class.method(...) on brax classes
      if d and len(d) == 2 and d[0] in ('Transform', 'Motion', 'Force') and d[0] not in env:
        return self.ctor_method(d[0], m, e, args, kwargs, f, env)
      return self.method(recv, m, args, kwargs, e, f)
    if isinstance(fn, ast.Name):
      if fn.id in env:
        return self.apply_abs(env[fn.id], args, kwargs, f, e)
      if fn.id in ('Transform',):
        rot = self.kw(e, 'rot')
        if rot is not None:
          return self.q(self.ev(rot, f, env))
        if len(e.args) >= 2:
          return self.q(args[1])
        return A
      if fn.id in ('Motion', 'Force', 'Inertia'):
        return O
      if fn.id.endswith('State') or fn.id == 'State':
        return self.make_state(fn.id, e, args, kwargs, f)
      g = self.resolve(fn, f)
      if g is not None:
        return self.summary(g, args, kwargs)
      if fn.id in ('tuple', 'list'):
        return args[0] if args else ('tuple', [])
      return O
    return O

  def q(self, v):
    return v if v in (U, A) else A

  def make_state(self, cname, call, args, kwargs, f):
    fields = self.state_fields(f, cname)
    d = {}
    for name, v in zip(fields, args):
      d[name] = v
    d.update(kwargs)
    return ('state', cname, d)

  def state_fields(self, f, cname):
    """Dataclass field order of a State class (own module, then brax.base.State)."""
    m = f.mod
    target = None
    if cname in m.classes:
      target = (m, m.classes[cname])
    elif cname in m.alias:
      full = m.alias[cname]
      mm, _, cn = full.rpartition('.')
      if mm in self.U.mods and cn in self.U.mods[mm].classes:
        target = (self.U.mods[mm], self.U.mods[mm].classes[cn])
    if target is None:
      raise AnalysisError('typestate: cannot find State class %s from %s' % (cname, f.qname))
    mod, c = target
    out = []
    for b in c.bases:
      bn = ast.unparse(b)
      if bn.endswith('State') and bn != cname:
        if bn in mod.classes:
          out += self._fields_of(mod.classes[bn])
        else:
          out += self._fields_of(self.U.cls('brax.base', 'State'))
    out += self._fields_of(c)
    return out

  @staticmethod
  def _fields_of(c):
    return [s.target.id for s in c.body if isinstance(s, ast.AnnAssign) and isinstance(s.target, ast.Name)]

  def ctor_method(self, cls, m, e, args, kwargs, f, env):
    if cls != 'Transform':
      return O
    if m == 'zero':
      return U
    if m == 'create':
      rot = self.kw(e, 'rot')
      if rot is None and len(e.args) < 2:
        return U
      return self.q(self.ev(rot, f, env) if rot is not None else args[1])
    return A

  def method(self, recv, m, args, kwargs, e, f):
    if isinstance(recv, tuple) and recv[0] == 'state':
      if m == 'replace':
        d = dict(recv[2])
        d.update(kwargs)
        return ('state', recv[1], d)
      return O
    if recv in (U, A):
      if m in ('do', 'to_local'):
        if not args:
          return A
        o = args[0]
        if o in (U, A):
          return U if (recv == U and o == U) else A
        return O
      if m == 'inv_do':
        return O
      if m == 'replace':
        if 'rot' in kwargs:
          return self.q(kwargs['rot'])
        return recv
      if m in ('take', 'reshape', 'slice', 'index_set', 'transpose', 'squeeze', 'astype', 'copy'):
        r = recv
        for a in args:
          if a in (U, A):
            r = join(r, a)
        return r
      if m == 'concatenate':
        r = recv
        for a in args:
          r = join(r, a if a in (U, A) else A)
        return r
      if m in ('select', 'index_sum'):
        self.note(f, e, '`.%s` blends rotations' % m)
        return A
      if m == 'vmap':
        return recv
      return O
    if isinstance(recv, tuple) and recv[0] == 'sys':
      return O
    return O

  def apply_value(self, node, args, kwargs, f, env, call):
    """Apply a function-valued expression node (used under jax.vmap)."""
    if isinstance(node, ast.Lambda):
      env2 = dict(env)
      for p, v in zip(node.args.args, args):
        env2[p.arg] = v
      return self.ev(node.body, f, env2)
    if isinstance(node, ast.Name) and node.id in env:
      return self.apply_abs(env[node.id], args, kwargs, f, call)
    name = self.ext_name(node, f)
    return self.named_call(name, call, args, kwargs, f, env, fnode=node)

  def apply_abs(self, v, args, kwargs, f, call):
    if isinstance(v, tuple) and v[0] == 'fn' and v[1] is not None:
      g = v[1]
      env2 = dict(v[3])
      a = g.node.args
      params = [x.arg for x in a.posonlyargs + a.args]
      for p, val in zip(params, args):
        env2[p] = val
      for p in params[len(args):]:
        env2[p] = kwargs.get(p, O)
      return self.run_body(g, g.node.body, env2)
    if isinstance(v, tuple) and v[0] == 'lam':
      env2 = dict(v[2])
      for p, val in zip(v[1].args.args, args):
        env2[p.arg] = val
      return self.ev(v[1].body, f, env2)
    return O

  def named_call(self, name, e, args, kwargs, f, env, fnode=None):
    name = name or ''
    short = name.rsplit('.', 1)[-1]
    if name.startswith('brax.math.') or (f.mod.name == 'brax.math' and '.' not in name):
      if short == 'normalize':
        return ('tuple', [U if args and args[0] in (U, A) else O, O])
      if short in ('quat_mul', 'relative_quat', 'quat_mul_np'):
        return U if len(args) >= 2 and args[0] == U and args[1] == U else A
      if short == 'quat_inv':
        return args[0] if args and args[0] in (U, A) else A
      if short in ('quat_rot_axis', 'euler_to_quat', 'ang_to_quat', 'vec_quat_mul', 'from_to'):
        if short in ('euler_to_quat', 'from_to'):
          return U
        return A
      if short in ('rotate', 'inv_rotate', 'safe_norm', 'quat_to_3x3', 'signed_angle', 'orthogonals',
                   'safe_arccos', 'safe_arcsin', 'quat_to_euler', 'inv_3x3'):
        return O
    if name in ('jax.numpy.where', 'jax.numpy.select', 'numpy.where'):
      vals = args[1:]
      if any(v in (U, A) for v in vals):
        return U if all(v == U for v in vals) else A
      return O
    if name in ('jax.numpy.array', 'numpy.array', 'jax.numpy.asarray') and e.args:
      a0 = e.args[0]
      if isinstance(a0, (ast.List, ast.Tuple)) and len(a0.elts) == 4:
        try:
          vals = [float(ast.literal_eval(x)) for x in a0.elts]
          if abs(sum(v * v for v in vals) - 1.0) < 1e-12:
            return U
        except (ValueError, TypeError):
          pass
      return args[0] if args and args[0] in (U, A) else O
    if name in ('jax.numpy.tile', 'numpy.tile', 'jax.numpy.broadcast_to', 'jax.numpy.take', 'jax.numpy.reshape',
                'jax.numpy.squeeze', 'jax.numpy.expand_dims', 'jax.numpy.stack', 'jax.numpy.vstack'):
      return args[0] if args and args[0] in (U, A) else O
    if name in ('jax.numpy.concatenate', 'numpy.concatenate') and e.args:
      a0 = e.args[0]
      if isinstance(a0, (ast.List, ast.Tuple)):
        return ('cat', [self.ev(x, f, env) for x in a0.elts])
      return O
    if name in ('jax.tree.map', 'jax.tree_util.tree_map', 'jax.tree_map'):
      if any(a in (U, A) for a in args[1:]):
        self.note(f, e, 'tree_map over a rotation carrier')
        return A
      return O
    if name == 'brax.scan.tree' and len(e.args) >= 3:
      # scan.tree(sys, f, in_types, *args): f(parent, *args) per depth.  Optimistic fixpoint: assume the
      # carried parent value is what f returns for unit parents; join the root call (parent None is
      # handled path-insensitively inside f) -- regrouping (take / concatenate) preserves unit-ness.
      fv = self.ev(e.args[1], f, env)
      rest = args[3:]
      guess = None
      for _ in range(3):
        parent = guess if guess is not None else ('tuple', [U, O])
        r = self.apply_abs(fv, [parent] + list(rest), {}, f, e) if isinstance(fv, tuple) and fv and fv[0] in ('fn', 'lam') else A
        if r == guess:
          break
        guess = r
      return guess if guess is not None else A
    if name in ('brax.scan.tree', 'brax.scan.link_types'):
      # regrouping of per-type results is opaque: not known unit (callers normalise afterwards)
      return ('tuple', [A, O])
    if name.startswith('brax.'):
      parts = name.split('.')
      if len(parts) >= 2 and parts[-2] == 'Transform' and parts[-1] in ('create', 'zero'):
        return self.ctor_method('Transform', parts[-1], e, args, kwargs, f, env)
      if len(parts) >= 2 and parts[-2] in ('Motion', 'Force') and parts[-1] in ('create', 'zero'):
        return O
      g = self.U.funcs.get(name)
      if g is not None:
        if g.cls is not None and any(isinstance(d, ast.Name) and d.id == 'classmethod' for d in g.node.decorator_list):
          args = [O] + list(args)
        return self.summary(g, args, kwargs)
      # class constructors / methods referenced through a module alias
      if parts[-1] == 'Transform':
        rot = self.kw(e, 'rot')
        return self.q(self.ev(rot, f, env)) if rot is not None else (self.q(args[1]) if len(args) > 1 else A)
      if len(parts) >= 2 and parts[-2] == 'Transform':
        return self.ctor_method('Transform', parts[-1], e, args, kwargs, f, env)
      if parts[-1].endswith('State'):
        return self.make_state(parts[-1], e, args, kwargs, f)
      if len(parts) >= 2 and parts[-2].endswith('State') and parts[-1] == 'init':
        # generalized State.init(q, qd, x, xd)
        d = {}
        if len(args) >= 3:
          d['x'] = args[2]
        return ('state', parts[-2], d)
      return O
    return O
