"""Scenario substitution on AVN normal forms: boolean atoms whose truth value is fixed by a
stated scenario (e.g. "every contact distance is > 0", "q strictly inside its range") are
replaced by 0/1; the result is again a normal form.  Used for "inert until reached" laws:
long path under the scenario == short path."""
import numpy as np

from braxlint import avn
from braxlint.avn import Poly, Rat, Struct, asarr


def _rewrite_atom(nm, decide, memo):
  """Substitute inside the arguments of an uninterpreted atom; returns a Poly."""
  if nm in memo:
    return memo[nm]
  res = None
  ent = avn.ATOM_ARGS.get(nm)
  if ent is not None and avn._is_bool_name(nm):
    op, a, b = ent[1]
    a2, b2 = subst(Rat.lift(a), decide, memo), subst(Rat.lift(b), decide, memo)
    if a2.key() != Rat.lift(a).key() or b2.key() != Rat.lift(b).key():
      if op == '==':
        r = a2._cmp('==', b2) if (a2.is_const() and b2.is_const()) else None
        if r is None:
          x, y = sorted([a2, b2], key=lambda r_: repr(r_.key()))
          r = Rat(Poly.sym(avn.atom_key('bool', ('==', x, y), ('==', x.key(), y.key()))))
      else:
        r = a2._cmp(op, b2)
      r = Rat.lift(r)
      # the rebuilt atom may itself be decided by the scenario
      res = subst_poly(r.n, decide, memo)
  elif ent is not None:
    name, args = ent
    new_args = tuple(subst(a, decide, memo) if isinstance(a, (Rat, np.ndarray, Struct, tuple, list)) else a for a in args)
    changed = any(avn.keyof(a) != avn.keyof(b) for a, b in zip(args, new_args)
                  if isinstance(a, (Rat, np.ndarray)))
    if changed:
      if name == 'wide':
        r = Rat.lift(new_args[0])
        res = r.n if r.d.is_const() and r.d.constval() == 1 else None
        if res is not None:
          res = avn.widen_poly(res, WIDEN[0])
      if res is None:
        res = avn.uf(name, *new_args).n
  memo[nm] = res
  return res


WIDEN = [12]


def subst_poly(p, decide, memo=None):
  memo = {} if memo is None else memo
  out = Poly()
  for mono, c in p.t.items():
    term = Poly({(): c})
    dead = False
    for nm, e in mono:
      v = decide(nm) if isinstance(nm, avn.Atom) else None
      if v is None:
        rw = _rewrite_atom(nm, decide, memo) if isinstance(nm, avn.Atom) else None
        f = rw if rw is not None else Poly({((nm, 1),): 1})
        for _ in range(e):
          term = term * f
      elif v == 0:
        dead = True
        break
      # v == 1: drop the factor
    if not dead:
      out = out + term
  return out


def subst(v, decide, memo=None):
  if avn.FIELD['on']:
    # random-interpretation mode: the scenario oracle was applied when the atoms were created
    return v
  memo = {} if memo is None else memo
  if isinstance(v, Rat):
    return Rat(subst_poly(v.n, decide, memo), subst_poly(v.d, decide, memo))
  if isinstance(v, np.ndarray) and v.dtype == object:
    out = np.empty(v.shape, dtype=object)
    for idx in np.ndindex(*v.shape):
      out[idx] = subst(Rat.lift(v[idx]), decide, memo)
    return out
  if isinstance(v, Struct):
    return Struct(v.cls, {k: subst(x, decide, memo) for k, x in v.f.items()}, home=v.home)
  if isinstance(v, (tuple, list)):
    return type(v)(subst(x, decide, memo) for x in v)
  if isinstance(v, dict):
    return {k: subst(x, decide, memo) for k, x in v.items()}
  return v


def const_of_key(k):
  """Numeric value of a Rat.key() if it is a constant, else None."""
  if isinstance(k, tuple) and k and k[0] == 'p':
    terms = k[1]
    if not terms:
      return 0
    if len(terms) == 1 and terms[0][0] == ():
      return terms[0][1]
  return None


def positive_symbols(keys, strict=True):
  """decide() for the scenario "each listed value (given by Rat.key()) is > 0"."""
  keys = set(keys)

  def decide(nm):
    if not avn._is_bool_name(nm):
      return None
    if nm[1] == '<':
      a, b = nm[2], nm[3]
      ca, cb = const_of_key(a), const_of_key(b)
      if a in keys and cb is not None and cb <= 0:
        return 0          # x < c with c <= 0 is false when x > 0
      if b in keys and ca is not None and ca <= 0:
        return 1          # c < x with c <= 0 is true when x > 0
    if nm[1] == '==':
      a, b = nm[2], nm[3]
      for x, y in ((a, b), (b, a)):
        cy = const_of_key(y)
        if x in keys and cy is not None and cy <= 0:
          return 0
    return None

  return decide


def atoms_false(atoms_zero, atoms_one=()):
  z = {a for a in atoms_zero}
  o = {a for a in atoms_one}

  def decide(nm):
    if nm in z:
      return 0
    if nm in o:
      return 1
    return None

  return decide


def atom_of(r):
  """The single boolean atom key of a Rat built by a comparison (b or 1 - b)."""
  r = Rat.lift(r)
  for mono in r.n.t:
    for nm, _ in mono:
      if avn._is_bool_name(nm):
        return nm
  return None


def chain(*ds):
  def decide(nm):
    for d in ds:
      v = d(nm)
      if v is not None:
        return v
    return None
  return decide
