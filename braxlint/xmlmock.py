"""A mock of the xml.etree.ElementTree.Element API subset used by brax.io.mjcf, for abstract execution of the MJCF
pre-processing (body fusing) on symbolic documents: numeric attributes are avn.NumStr values (the numbers they spell,
exact or symbolic), everything else is ordinary host data."""
from braxlint.avn import HostObj


class Elem(HostObj):
  def __init__(self, tag, attrib=None, children=(), name=None):
    self.tag = tag
    self.attrib = dict(attrib or {})
    if name is not None:
      self.attrib['name'] = name
    self._children = list(children)
    self.text = None
    self.tail = None

  def __iter__(self):
    return iter(list(self._children))

  def __len__(self):
    return len(self._children)

  def __getitem__(self, i):
    return self._children[i]

  def find(self, tag):
    for c in self._children:
      if c.tag == tag:
        return c
    return None

  def findall(self, tag):
    return [c for c in self._children if c.tag == tag]

  def iter(self, tag=None):
    out = [] if (tag is not None and self.tag != tag) else [self]
    for c in self._children:
      out += c.iter(tag)
    return out

  def append(self, e):
    self._children.append(e)

  def extend(self, es):
    self._children.extend(list(es))

  def insert(self, i, e):
    self._children.insert(i, e)

  def remove(self, e):
    for k, c in enumerate(self._children):
      if c is e:
        del self._children[k]
        return
    raise ValueError('Element.remove(x): x not in element')

  def get(self, key, default=None):
    return self.attrib.get(key, default)

  def set(self, key, value):
    self.attrib[key] = value

  def keys(self):
    return list(self.attrib.keys())

  def items(self):
    return list(self.attrib.items())

  def __repr__(self):
    return '<%s %s>' % (self.tag, self.attrib.get('name', ''))
