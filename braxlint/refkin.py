"""Reference rigid-body kinematics (the oracle of C01 / C02 / C08), written independently of brax:
own quaternion algebra, MuJoCo's joint application order (mj_kinematics), textbook velocity
propagation.  Works on any ring element supporting + - * / (AVN values in exact or field mode).

Model: links in topological order; each link is ('f',) or a stack of ('h'|'s') joints sharing one
anchor.  Body transforms, anchors, axes, q, qd are given as AVN values; body quaternions and axes
are unit BY CONSTRUCTION (Cayley / stereographic parametrisation), half-angle sines and cosines
are tied to one parameter per angle, so every norm that the code divides by is identically 1.
"""
import numpy as np

from braxlint import avn
from braxlint.avn import Rat, asarr, atom_key, symarr, uf
from braxlint.avnlib import sym


# ---------------------------------------------------------------- own algebra
def qmul(p, q):
  return np.array([
      p[0] * q[0] - p[1] * q[1] - p[2] * q[2] - p[3] * q[3],
      p[0] * q[1] + p[1] * q[0] + p[2] * q[3] - p[3] * q[2],
      p[0] * q[2] - p[1] * q[3] + p[2] * q[0] + p[3] * q[1],
      p[0] * q[3] + p[1] * q[2] - p[2] * q[1] + p[3] * q[0]], dtype=object)


def cross(a, b):
  return np.array([a[1] * b[2] - a[2] * b[1], a[2] * b[0] - a[0] * b[2], a[0] * b[1] - a[1] * b[0]], dtype=object)


def rotmat(q):
  """Rotation matrix of a unit quaternion (textbook form)."""
  w, x, y, z = q
  return np.array([
      [1 - 2 * (y * y + z * z), 2 * (x * y - w * z), 2 * (x * z + w * y)],
      [2 * (x * y + w * z), 1 - 2 * (x * x + z * z), 2 * (y * z - w * x)],
      [2 * (x * z - w * y), 2 * (y * z + w * x), 1 - 2 * (x * x + y * y)]], dtype=object)


def rot(v, q):
  return np.dot(rotmat(q), asarr(v))


# ------------------------------------------------- unit-by-construction inputs
def unit_quat(name):
  u = symarr(name, (3,))
  n2 = (u * u).sum()
  return np.array([(1 - n2) / (1 + n2)] + [2 * c / (1 + n2) for c in u], dtype=object)


def unit_vec(name):
  a, b = sym(name + '_a'), sym(name + '_b')
  d = 1 + a * a + b * b
  return np.array([2 * a / d, 2 * b / d, (1 - a * a - b * b) / d], dtype=object)


def tie_angle(theta, name):
  """Ties the images of sin(theta/2), cos(theta/2) to one parameter t (field mode) so that
  sin^2 + cos^2 = 1 holds in GF(p); returns (sin(theta/2), cos(theta/2)) as AVN values and registers
  (sin theta, cos theta, theta) for the arctan2 hook."""
  half = Rat.lift(theta) / 2
  if not avn.FIELD['on']:
    return uf('sin', half), uf('cos', half)
  t = sym(name + '_t')
  c, s = (1 - t * t) / (1 + t * t), 2 * t / (1 + t * t)
  sa, ca = atom_key('sin', (half,)), atom_key('cos', (half,))
  avn.FIELD['vals'][sa], avn.FIELD['vals'][ca] = s.fv, c.fv
  avn.FIELD.setdefault('trig', {})[half.fv] = (s.fv, c.fv)
  S, C = 2 * s * c, c * c - s * s
  avn.ANGLES.append((S.fv, C.fv, Rat.lift(theta)))
  return uf('sin', half), uf('cos', half)


class Model:
  """links: list of dict(parent, joints=('f',) | tuple of 'h'/'s'), plus symbolic parameters."""

  def __init__(self, links, anchors_zero=False, prefix='', ortho_stacks=False, left_handed=False):
    self.links = links
    self.n = len(links)
    n = self.n
    self.bpos = symarr(prefix + 'bp', (n, 3))
    self.bquat = np.stack([unit_quat(prefix + 'bq%d' % i) for i in range(n)])
    self.anchor = symarr(prefix + 'an', (n, 3)) if not anchors_zero else asarr(np.zeros((n, 3), dtype=int).tolist())
    for i, l in enumerate(links):
      if l['joints'] == ('f',):        # MuJoCo: a free joint has no anchor (jnt_pos = 0)
        self.anchor[i] = asarr([0, 0, 0])
    self.dofs = []         # (link, kind)
    for i, l in enumerate(links):
      if l['joints'] == ('f',):
        self.dofs += [(i, 'f')] * 6
      else:
        self.dofs += [(i, k) for k in l['joints']]
    self.nv = len(self.dofs)
    self.axis = {}
    qs, sc = [], {}
    qi = 0
    self.q_index = {}
    for d, (i, k) in enumerate(self.dofs):
      if k in 'hs':
        self.axis[d] = unit_vec(prefix + 'ax%d' % d)
    if ortho_stacks:
      # stacked axes mutually orthogonal: columns of a rotation matrix (either handedness)
      d = 0
      for i, l in enumerate(links):
        if l['joints'] == ('f',):
          d += 6
          continue
        if len(l['joints']) > 1:
          R = rotmat(unit_quat(prefix + 'fr%d' % i))
          for k in range(len(l['joints'])):
            col = R[:, k]
            self.axis[d + k] = -col if (left_handed and k == 2) else col
        d += len(l['joints'])
    # q vector
    q = []
    self.free_quat = {}
    for i, l in enumerate(links):
      if l['joints'] == ('f',):
        fq = unit_quat(prefix + 'fq%d' % i)
        self.free_quat[i] = fq
        q += list(symarr(prefix + 'fp%d' % i, (3,))) + list(fq)
      else:
        for _ in l['joints']:
          q.append(sym(prefix + 'q%d' % len(q)))
    self.q = np.array(q, dtype=object)
    self.qd = symarr(prefix + 'qd', (self.nv,))
    self.trig = {}
    qpos = 0
    d = 0
    for i, l in enumerate(links):
      if l['joints'] == ('f',):
        qpos += 7
        d += 6
      else:
        for k in l['joints']:
          if k == 'h':
            self.trig[d] = tie_angle(self.q[qpos], prefix + 'ang%d' % d)
          self.q_index[d] = qpos
          qpos += 1
          d += 1

  def free_q_idx(self):
    """Indices of q holding free-joint quaternion components (compared up to a global sign)."""
    out, pos = set(), 0
    for l in self.links:
      if l['joints'] == ('f',):
        out |= set(range(pos + 3, pos + 7))
        pos += 7
      else:
        pos += len(l['joints'])
    return out

  # ------------------------------------------------------------ brax system
  def brax_system(self):
    from braxlint import symsys
    from braxlint.avn import Struct
    types = ''.join('f' if l['joints'] == ('f',) else str(len(l['joints'])) for l in self.links)
    parents = tuple(l['parent'] for l in self.links)
    sysd = symsys.system(types, parents, nq=len(self.q), nv=self.nv, nu=0)
    bpos, bquat = self.bpos.copy(), self.bquat.copy()
    for i, l in enumerate(self.links):
      if l['joints'] == ('f',):          # the loader clears the link transform of free links
        bpos[i] = asarr([0, 0, 0])
        bquat[i] = asarr([1, 0, 0, 0])
    sysd.f['link'].f['transform'] = Struct('Transform', {'pos': bpos, 'rot': bquat}, home='brax.base')
    sysd.f['link'].f['joint'] = Struct('Transform', {'pos': self.anchor, 'rot': asarr([[1, 0, 0, 0]] * self.n)}, home='brax.base')
    ang, vel = [], []
    z = asarr([0, 0, 0])
    eye = asarr(np.eye(3, dtype=int).tolist())
    for d, (i, k) in enumerate(self.dofs):
      if k == 'f':
        j = [dd for dd, (ii, kk) in enumerate(self.dofs) if ii == i].index(d)
        ang.append(eye[j - 3] if j >= 3 else z)
        vel.append(eye[j] if j < 3 else z)
      elif k == 'h':
        ang.append(self.axis[d]); vel.append(z)
      else:
        ang.append(z); vel.append(self.axis[d])
    sysd.f['dof'] = Struct('DoF', {'motion': Struct('Motion', {'ang': np.stack(ang), 'vel': np.stack(vel)}, home='brax.base'),
                                   'limit': None}, home='brax.base')
    return sysd

  # ------------------------------------------------------- reference FK
  def forward(self, qd=None):
    """-> per link (pos, quat, ang, vel): world pose of the link frame and velocity of its origin."""
    saved = self.qd
    if qd is not None:
      self.qd = asarr(qd)
    try:
      return self._forward()
    finally:
      self.qd = saved

  def _forward(self):
    out = []
    d = 0
    for i, l in enumerate(self.links):
      p = l['parent']
      if p < 0:
        pp, pq = asarr([0, 0, 0]), asarr([1, 0, 0, 0])
        pw, pv = asarr([0, 0, 0]), asarr([0, 0, 0])
      else:
        pp, pq, pw, pv = out[p]
      if l['joints'] == ('f',):
        qi = sum(7 if self.links[k]['joints'] == ('f',) else len(self.links[k]['joints']) for k in range(i))
        pos, quat = self.q[qi:qi + 3], self.q[qi + 3:qi + 7]
        vel = self.qd[d:d + 3]
        ang = rot(self.qd[d + 3:d + 6], quat)          # body-frame angular velocity
        d += 6
        out.append((pos, quat, ang, vel))
        continue
      pos = pp + rot(self.bpos[i], pq)
      quat = qmul(pq, self.bquat[i])
      a = self.anchor[i]
      contrib = []                      # (kind, world axis, world anchor, qd)
      for k in l['joints']:
        axis_w = rot(self.axis[d], quat)
        anchor_w = pos + rot(a, quat)
        qv, qdv = self.q[self.q_index[d]], self.qd[d]
        if k == 's':
          pos = pos + axis_w * qv
        else:
          s_, c_ = self.trig[d]
          qloc = np.array([c_] + [x * s_ for x in self.axis[d]], dtype=object)
          quat = qmul(quat, qloc)
          pos = anchor_w - rot(a, quat)
        contrib.append((k, axis_w, anchor_w, qdv))
        d += 1
      # velocity of the link origin: every joint of the stack moves the final origin rigidly about its own
      # (world) axis / anchor as they stood when the joint was applied
      w = pw
      v = pv + cross(pw, pos - pp)
      for k, axis_w, anchor_w, qdv in contrib:
        if k == 's':
          v = v + axis_w * qdv
        else:
          v = v + cross(axis_w * qdv, pos - anchor_w)
          w = w + axis_w * qdv
      out.append((pos, quat, w, v))
    return out


  # ------------------------------------------------------------ dynamics references
  def add_inertia(self, prefix=''):
    """Symbolic body inertias: mass, inertial frame (ipos, unit iquat), principal moments."""
    n = self.n
    self.mass = symarr(prefix + 'm', (n,))
    self.ipos = symarr(prefix + 'ip', (n, 3))
    self.iquat = np.stack([unit_quat(prefix + 'iq%d' % i) for i in range(n)])
    self.imom = symarr(prefix + 'I', (n, 3))
    self.armature = symarr(prefix + 'arm', (self.nv,))

  def brax_inertia(self):
    from braxlint.avn import Struct
    imat = np.empty((self.n, 3, 3), dtype=object)
    for i in range(self.n):
      for a in range(3):
        for b in range(3):
          imat[i, a, b] = self.imom[i, a] if a == b else Rat.lift(0)
    return Struct('Inertia', {'transform': Struct('Transform', {'pos': self.ipos, 'rot': self.iquat}, home='brax.base'),
                              'i': imat, 'mass': self.mass}, home='brax.base')

  def com_motion(self, qd):
    """Per link: (world COM position, COM velocity, angular velocity, world inertia tensor) for velocities qd."""
    out = []
    for i, (pos, quat, w, v) in enumerate(self.forward(qd)):
      r = rot(self.ipos[i], quat)
      R = np.dot(rotmat(quat), rotmat(self.iquat[i]))
      Iw = np.dot(np.dot(R, np.diag(self.imom[i]) if False else _diag(self.imom[i])), R.T)
      out.append((pos + r, v + cross(w, r), w, Iw))
    return out

  def kinetic_energy_x2(self, qd):
    """2T = sum m |v_com|^2 + w . I_world w (+ armature q_i'^2)."""
    tot = Rat.lift(0)
    for i, (c, vc, w, Iw) in enumerate(self.com_motion(qd)):
      tot = tot + self.mass[i] * np.dot(vc, vc) + np.dot(w, np.dot(Iw, w))
    qd = asarr(qd)
    for d in range(self.nv):
      tot = tot + self.armature[d] * qd[d] * qd[d]
    return tot

  def mass_matrix(self):
    """M_ij by polarisation of the kinetic energy (exact: T is a quadratic form in qd)."""
    nv = self.nv
    unit = lambda *idx: asarr([1 if d in idx else 0 for d in range(nv)])
    T1 = [self.kinetic_energy_x2(unit(i)) for i in range(nv)]
    Mx = np.empty((nv, nv), dtype=object)
    for i in range(nv):
      Mx[i, i] = T1[i]
      for j in range(i):
        Mx[i, j] = Mx[j, i] = (self.kinetic_energy_x2(unit(i, j)) - T1[i] - T1[j]) / 2
    return Mx

  def gravity_force(self, g):
    """Generalised gravity force tau_i = sum_k m_k g . d(com_k)/dq_i (the bias force at rest is -tau)."""
    nv = self.nv
    tau = []
    for i in range(nv):
      e = asarr([1 if d == i else 0 for d in range(nv)])
      tau.append(sum((self.mass[k] * np.dot(asarr(g), vc) for k, (c, vc, w, Iw) in enumerate(self.com_motion(e))), Rat.lift(0)))
    return np.array(tau, dtype=object)


def _diag(v):
  m = np.empty((3, 3), dtype=object)
  for a in range(3):
    for b in range(3):
      m[a, b] = v[a] if a == b else Rat.lift(0)
  return m


# ----------------------------------------------------------------------------------------
# velocity-product accelerations (all joint accelerations zero) and the bias force by projecting
# Newton-Euler onto the joint-space Jacobians -- independent of any recursive formulation.
def bias_accelerations(self):
  """Per link (pos, quat, w, v_origin, alpha, a_origin) with qdd = 0.  A stack of joints is the chain of
  massless intermediate frames it denotes (MuJoCo applies a body's joints in order, each in the frame
  left by the previous one, all about the body's anchor): the single-joint step is applied per joint,
  the body offset entering before the first one only."""
  out = []
  d = 0
  z3 = asarr([0, 0, 0])
  ident = asarr([1, 0, 0, 0])
  for i, l in enumerate(self.links):
    p = l['parent']
    if p < 0:
      fr = (z3, ident, z3, z3, z3, z3)
    else:
      fr = out[p]
    if l['joints'] == ('f',):
      qi = sum(7 if self.links[k]['joints'] == ('f',) else len(self.links[k]['joints']) for k in range(i))
      pos, quat = self.q[qi:qi + 3], self.q[qi + 3:qi + 7]
      w = rot(self.qd[d + 3:d + 6], quat)
      out.append((pos, quat, w, self.qd[d:d + 3], cross(w, w) * 0, z3 * 1))
      d += 6
      continue
    for jn, k in enumerate(l['joints']):
      pp, pq, pw, pv, pal, pa = fr
      bpos, bquat = (self.bpos[i], self.bquat[i]) if jn == 0 else (z3, ident)
      B = pp + rot(bpos, pq)                     # frame origin before the joint, fixed in the previous frame
      qb = qmul(pq, bquat)
      rB = B - pp
      vB = pv + cross(pw, rB)
      aB = pa + cross(pal, rB) + cross(pw, cross(pw, rB))
      axis_w = rot(self.axis[d], qb)
      qv, qdv = self.q[self.q_index[d]], self.qd[d]
      if k == 's':
        disp = axis_w * qv
        pos, quat = B + disp, qb
        w, al = pw, pal
        v = vB + cross(pw, disp) + axis_w * qdv
        a = aB + cross(pal, disp) + cross(pw, cross(pw, disp)) + 2 * cross(pw, axis_w * qdv)
      else:
        s_, c_ = self.trig[d]
        quat = qmul(qb, np.array([c_] + [x * s_ for x in self.axis[d]], dtype=object))
        A = B + rot(self.anchor[i], qb)                  # anchor, fixed in the previous frame
        rA = A - pp
        vA = pv + cross(pw, rA)
        aA = pa + cross(pal, rA) + cross(pw, cross(pw, rA))
        wj = axis_w * qdv
        w = pw + wj
        al = pal + cross(pw, wj)
        pos = A - rot(self.anchor[i], quat)
        r = pos - A
        v = vA + cross(w, r)
        a = aA + cross(al, r) + cross(w, cross(w, r))
      fr = (pos, quat, w, v, al, a)
      d += 1
    out.append(fr)
  return out


def bias_force(self, g):
  """qfrc_bias = sum_k Jv_k^T m_k (a_com_k - g) + Jw_k^T (I_k alpha_k + w_k x I_k w_k)."""
  acc = bias_accelerations(self)
  nv = self.nv
  jac = []
  for i in range(nv):
    e = asarr([1 if dd == i else 0 for dd in range(nv)])
    jac.append(self.com_motion(e))
  out = []
  for i in range(nv):
    tot = Rat.lift(0)
    for k, (pos, quat, w, v, al, a) in enumerate(acc):
      rc = rot(self.ipos[k], quat)
      a_c = a + cross(al, rc) + cross(w, cross(w, rc))
      R = np.dot(rotmat(quat), rotmat(self.iquat[k]))
      Iw = np.dot(np.dot(R, _diag(self.imom[k])), R.T)
      Jv, Jw = jac[i][k][1], jac[i][k][2]
      tot = tot + self.mass[k] * np.dot(a_c - asarr(g), Jv) + np.dot(np.dot(Iw, al) + cross(w, np.dot(Iw, w)), Jw)
    out.append(tot)
  return np.array(out, dtype=object)


Model.bias_accelerations = bias_accelerations
Model.bias_force = bias_force
