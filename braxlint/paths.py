"""Acyclic path enumeration over a function's statements (a syntax-directed CFG walk).

Loops are taken 0 and 1 times; `If` forks; `Try` follows the body only (plus each
handler as an alternative); nested defs are opaque statements.  Functions in this
repository are small (<= 64 acyclic paths), so explicit enumeration is cheap.
"""
import ast

from braxlint.universe import AnalysisError


class Path:
  __slots__ = ('stmts', 'conds', 'exit', 'exit_node')

  def __init__(self, stmts=(), conds=(), exit=None, exit_node=None):
    self.stmts, self.conds, self.exit, self.exit_node = stmts, conds, exit, exit_node

  def extend(self, stmt=None, cond=None):
    return Path(self.stmts + ((stmt,) if stmt is not None else ()),
                self.conds + ((cond,) if cond is not None else ()))

  def calls(self):
    """Call nodes in evaluation order along the path (nested defs/lambdas excluded)."""
    out = []
    for s in self.stmts:
      out.extend(calls_in(s))
    return out


def calls_in(node):
  """Calls inside a statement/expression in evaluation order (post-order), skipping the
  bodies of nested function definitions and lambdas; for compound statements only the
  header expression is visited."""
  out = []

  def visit(n):
    if isinstance(n, (ast.FunctionDef, ast.AsyncFunctionDef, ast.ClassDef, ast.Lambda)):
      return
    if isinstance(n, ast.If) or isinstance(n, ast.While):
      visit(n.test)
      return
    if isinstance(n, ast.For):
      visit(n.iter)
      return
    if isinstance(n, ast.With):
      for i in n.items:
        visit(i.context_expr)
      return
    if isinstance(n, ast.Try):
      return
    if isinstance(n, ast.IfExp):
      visit(n.test)
      visit(n.body)
      visit(n.orelse)
      return
    for c in ast.iter_child_nodes(n):
      visit(c)
    if isinstance(n, ast.Call):
      out.append(n)

  visit(node)
  return out


def enumerate_paths(fn_node, max_paths=4096):
  """Yield Path objects from entry to every exit of the function."""
  done = []

  def run(stmts, paths):
    """paths: list of live Path; returns list of live paths after stmts."""
    for s in stmts:
      if not paths:
        return []
      if len(paths) + len(done) > max_paths:
        raise AnalysisError('too many paths in %s' % getattr(fn_node, 'name', '?'))
      if isinstance(s, ast.If):
        t_in = [p.extend(s, (s.test, True)) for p in paths]
        f_in = [p.extend(s, (s.test, False)) for p in paths]
        paths = run(s.body, t_in) + run(s.orelse, f_in)
      elif isinstance(s, (ast.For, ast.While)):
        zero = [p.extend(s, ('loop0', s)) for p in paths]
        one = run(s.body, [p.extend(s, ('loop1', s)) for p in paths])
        # break/continue terminate the single iteration
        one = [Path(p.stmts, p.conds) if p.exit in ('continue', 'break') else p for p in one]
        paths = run(s.orelse, zero) + one
      elif isinstance(s, ast.With):
        paths = run(s.body, [p.extend(s) for p in paths])
      elif isinstance(s, ast.Try):
        body = run(s.body, list(paths))
        alts = []
        for h in s.handlers:
          alts += run(h.body, [p.extend(s, ('except', h)) for p in paths])
        paths = run(s.finalbody, run(s.orelse, body) + alts)
      elif isinstance(s, ast.Return):
        for p in paths:
          q = p.extend(s)
          q.exit, q.exit_node = 'return', s
          done.append(q)
        return []
      elif isinstance(s, ast.Raise):
        for p in paths:
          q = p.extend(s)
          q.exit, q.exit_node = 'raise', s
          done.append(q)
        return []
      elif isinstance(s, (ast.Continue, ast.Break)):
        out = []
        for p in paths:
          q = p.extend(s)
          q.exit = 'continue' if isinstance(s, ast.Continue) else 'break'
          out.append(q)
        # handled by the enclosing loop
        return [x for x in out]
      else:
        paths = [p.extend(s) for p in paths]
      # paths that hit continue/break stop executing the rest of this block
      live = [p for p in paths if p.exit is None]
      parked = [p for p in paths if p.exit is not None]
      if parked:
        rest = run(stmts[stmts.index(s) + 1:], live)
        return rest + parked
    return paths

  end = run(fn_node.body, [Path()])
  for p in end:
    if p.exit is None:
      p.exit = 'fall'
    done.append(p)
  return done
