"""Denominator / root-argument classification for the "no singular primitive is reachable
unguarded" rules (C03 R3.1-R3.3).

For every function the local definitions are inlined (def-use, braxlint.pred) so that a
site is described by a canonical term over the function's parameters, independent of
local names.  Classes:

  CONST    non-zero numeric literal
  PARAM    depends only on configuration (sys.*, self.*, literals, State.mass / i_inv)
  GUARDED  sum with a positive literal (through def-use), e.g. `n + 1e-6`, `norm + eps*(norm==0)`
  SAFE     clip / maximum with a positive lower bound, math.safe_norm(...) + eps
  BARE     anything else: needs an entry in the exception table (with a reason)
"""
import ast

from braxlint import pred
from braxlint.universe import dotted

CONFIG_ROOTS = ('sys', 'self')
# state fields that are model constants carried in the state (provenance: pipeline.init
# computes them from sys.link.inertia only)
CONST_STATE_FIELDS = ('state.mass',)


def build_env(U, f, cache):
  """Symbolic environment of a function (parents first for nested defs)."""
  if f.qname in cache:
    return cache[f.qname]
  a = f.node.args
  params = [x.arg for x in a.posonlyargs + a.args + a.kwonlyargs]
  if a.vararg:
    params.append(a.vararg.arg)
  if a.kwarg:
    params.append(a.kwarg.arg)
  parent_env = build_env(U, f.parent, cache) if f.parent is not None else None
  env = pred.Env(params, f.mod, parent=parent_env)
  try:
    pred.sym_walk(f.node, f.mod, params, env=env, drop_raise_negations=False)
  except pred.AnalysisError:
    pass  # while/try: keep what was bound so far
  cache[f.qname] = env
  return env


def _pos_const(t):
  return pred.is_const(t) and isinstance(t[1], (int, float)) and not isinstance(t[1], bool) and t[1] > 0


def roots(t, out=None):
  """Field roots and opaque leaves a term depends on."""
  out = out if out is not None else set()
  if not isinstance(t, tuple) or not t:
    return out
  k = t[0]
  if not isinstance(k, str):
    for x in t:
      roots(x, out)
    return out
  if k == 'f':
    out.add(t[1])
    return out
  if k == 'c':
    return out
  if k == 'name':
    out.add('@' + t[1])
    return out
  if k == 'raw':
    out.add('?' + t[1])
    return out
  if k in ('in', 'notin'):
    roots(t[1], out)
    return out
  if k == 'sub' or k == 'elem':
    roots(t[1], out)       # indexing a configuration array by anything stays configuration
    return out
  if k == 'mcall' and t[2] in ('take', 'reshape', 'T', 'transpose', 'sum', 'astype', 'repeat'):
    roots(t[1], out)
    return out
  if k == 'replace':
    roots(t[1], out)
    return out
  if k == 'call':
    out.add('()' + t[1])
    for x in t[2]:
      roots(x, out)
    for _, x in t[3]:
      roots(x, out)
    return out
  for x in t[1:]:
    if isinstance(x, tuple):
      roots(x, out)
    elif isinstance(x, frozenset):
      for y in x:
        if isinstance(y, tuple):
          roots(y, out)
  return out


PURE_CALLS = ('lambda', 'jax.numpy.', 'numpy.', 'jax.ops.segment_sum', 'jax.vmap', 'len', 'range', 'sum',
              'min', 'max', 'float', 'int', 'brax.math.', 'jax.tree', 'functools.partial')


def is_param(t):
  for r in roots(t):
    if r.startswith('()'):
      name = r[2:]
      if not name.startswith(PURE_CALLS):
        return False
      continue
    if r.startswith('@'):
      # module-level constants and library namespaces
      continue
    if r.startswith('?'):
      return False
    head = r.split('.')[0]
    if head in CONFIG_ROOTS:
      continue
    if any(r == c or r.startswith(c + '.') or r.startswith(c + '[') for c in CONST_STATE_FIELDS):
      continue
    return False
  return True


def _is_abs_of(x, a):
  return x[0] == 'call' and x[1] in ('jax.numpy.abs', 'numpy.abs', 'abs', 'jax.numpy.absolute') and len(x[2]) == 1 and x[2][0] == a


def _implies_nonzero(cond, a):
  """cond => a != 0 for the shapes  c < a (c >= 0),  c < |a|,  a != 0."""
  if cond[0] == 'lt' and pred.is_const(cond[1]) and isinstance(cond[1][1], (int, float)) and cond[1][1] >= 0:
    return cond[2] == a or _is_abs_of(cond[2], a)
  if cond[0] == 'notin' and cond[1] == a and set(cond[2]) == {0}:
    return True
  if cond[0] == 'ne' and ((cond[1] == a and pred.is_const(cond[2]) and cond[2][1] == 0) or (cond[2] == a and pred.is_const(cond[1]) and cond[1][1] == 0)):
    return True
  return False


def _implies_zero_or_small(cond, a):
  """where(cond, K, a): cond is the NEGATION of one of the shapes above (a == 0, a <= c, |a| <= c)."""
  if cond[0] == 'in' and cond[1] == a and set(cond[2]) == {0}:
    return True
  if cond[0] == 'eq' and ((cond[1] == a and pred.is_const(cond[2]) and cond[2][1] == 0) or (cond[2] == a and pred.is_const(cond[1]) and cond[1][1] == 0)):
    return True
  if cond[0] == 'not':
    return _implies_nonzero(cond[1], a)
  if cond[0] == 'le' and pred.is_const(cond[2]) and isinstance(cond[2][1], (int, float)) and cond[2][1] >= 0:
    return cond[1] == a or _is_abs_of(cond[1], a)
  return False


def classify(t):
  """-> (class, epsilon or None)."""
  if pred.is_const(t):
    v = t[1]
    if isinstance(v, (int, float)) and not isinstance(v, bool) and v != 0:
      return 'CONST', None
    return 'BARE', None
  if t[0] == 'bin' and t[1] == 'Add':
    for a, b in ((t[2], t[3]), (t[3], t[2])):
      if _pos_const(a):
        return 'GUARDED', a[1]
      # eps * [x == 0]  (normalize's guard)
      if a[0] == 'bin' and a[1] == 'Mult':
        for c, p in ((a[2], a[3]), (a[3], a[2])):
          if _pos_const(c) and pred.is_pred(p):
            return 'GUARDED', c[1]
      g = classify(a)
      if g[0] == 'GUARDED' and False:
        return g
    # nested sums: (x + y) + eps handled above; x + (y + eps):
    for a in (t[2], t[3]):
      if a[0] == 'bin' and a[1] == 'Add':
        g = classify(a)
        if g[0] == 'GUARDED':
          return g
  if t[0] == 'call':
    name = t[1]
    if name in ('jax.numpy.clip', 'numpy.clip'):
      lo = t[2][1] if len(t[2]) > 1 else dict(t[3]).get('min', dict(t[3]).get('a_min'))
      if lo is not None and _pos_const(lo):
        return 'SAFE', lo[1]
    if name in ('jax.numpy.maximum', 'numpy.maximum'):
      for a in t[2]:
        if _pos_const(a):
          return 'SAFE', a[1]
    if name in ('jax.numpy.exp', 'numpy.exp'):
      return 'SAFE', None
    if name in ('jax.numpy.sqrt', 'numpy.sqrt') and len(t[2]) == 1 and classify(t[2][0])[0] in ('SAFE', 'GUARDED'):
      return 'SAFE', None          # the root of a value bounded away from 0
    # the double-where idiom: where(A > 0, A, K) / where(A != 0, A, K) / where(|A| > eps, A, K) with a positive constant K
    # -- the selected value is never 0, on either arm (the gradient-safe way to write 1/A or sqrt(A))
    if name in ('jax.numpy.where', 'numpy.where') and len(t[2]) == 3:
      cond, a_, k_ = t[2]
      if _pos_const(k_) and _implies_nonzero(cond, a_):
        return 'SAFE', None
      if _pos_const(a_) and _implies_zero_or_small(cond, k_):
        return 'SAFE', None
  # 1 - clip(x, a, b)**2 with -1 < a, b < 1 is bounded away from 0 (the complement of a clipped sine / cosine)
  if t[0] == 'bin' and t[1] == 'Sub' and pred.is_const(t[2]) and t[2][1] == 1:
    sq = t[3]
    base = None
    if sq[0] == 'bin' and sq[1] == 'Pow' and pred.is_const(sq[3]) and sq[3][1] in (2, 2.0):
      base = sq[2]
    elif sq[0] == 'bin' and sq[1] == 'Mult' and sq[2] == sq[3]:
      base = sq[2]
    if base is not None and base[0] == 'call' and base[1] in ('jax.numpy.clip', 'numpy.clip') and len(base[2]) >= 3:
      lo, hi = base[2][1], base[2][2]
      vals = []
      for b_ in (lo, hi):
        v = _num_of(b_)
        vals.append(v)
      if None not in vals and -1 < vals[0] <= vals[1] < 1:
        return 'SAFE', None
  if is_param(t):
    return 'PARAM', None
  return 'BARE', None


def _num_of(t):
  """Numeric value of a constant term built from literals with + - (e.g. -1 + 1e-07), else None."""
  if pred.is_const(t) and isinstance(t[1], (int, float)) and not isinstance(t[1], bool):
    return float(t[1])
  if t[0] == 'bin' and t[1] in ('Add', 'Sub'):
    a, b = _num_of(t[2]), _num_of(t[3])
    if a is None or b is None:
      return None
    return a + b if t[1] == 'Add' else a - b
  if t[0] == 'un' and t[1] == 'USub':
    a = _num_of(t[2])
    return None if a is None else -a
  if t[0] == 'neg':
    a = _num_of(t[1])
    return None if a is None else -a
  return None


class Site:
  __slots__ = ('kind', 'func', 'node', 'term', 'cls', 'eps', 'text', 'num', 'exp')

  def __init__(self, kind, func, node, term):
    self.kind, self.func, self.node, self.term = kind, func, node, term
    self.cls, self.eps = classify(term) if kind == 'div' else ('', None)
    self.text = pred.show(term)
    self.num = None
    self.exp = None

  @property
  def key(self):
    return '%s|%s|%s' % (self.kind, self.func.qname, self.text)


ROOT_PRIMS = {
    'jax.numpy.linalg.norm': 'norm', 'numpy.linalg.norm': 'norm',
    'jax.numpy.sqrt': 'sqrt', 'numpy.sqrt': 'sqrt',
    'jax.numpy.power': 'power', 'numpy.power': 'power',
    'jax.numpy.arccos': 'arccos', 'jax.numpy.arcsin': 'arcsin',
    'numpy.arccos': 'arccos', 'numpy.arcsin': 'arcsin',
    'jax.numpy.log': 'log', 'numpy.log': 'log',
}


def sites(U, f, cache):
  """Division and root-type primitive sites of one function (own body, lambdas included)."""
  parent_env = build_env(U, f.parent, cache) if f.parent is not None else None
  a = f.node.args
  params = [x.arg for x in a.posonlyargs + a.args + a.kwonlyargs]
  if a.vararg:
    params.append(a.vararg.arg)
  if a.kwarg:
    params.append(a.kwarg.arg)
  env0 = pred.Env(params, f.mod, parent=parent_env)
  N = pred.Normalizer(f.mod)
  out = []
  # calls to the function's own nested defs are pure functions of their arguments and of the enclosing
  # function's variables they close over (a helper `def root_fn(i): ...` is as much configuration as the
  # lambda it may replace)
  outer_params = set(params)
  g = f.parent
  while g is not None:
    ga = g.node.args
    outer_params |= {x.arg for x in ga.posonlyargs + ga.args + ga.kwonlyargs}
    g = g.parent
  import builtins as _bi
  nested = {}
  for nd in ast.walk(f.node):
    if isinstance(nd, ast.FunctionDef) and nd is not f.node:
      own = {x.arg for x in nd.args.posonlyargs + nd.args.args + nd.args.kwonlyargs}
      own |= {t.id for x in ast.walk(nd) for t in ([x] if isinstance(x, ast.Name) and isinstance(x.ctx, ast.Store) else [])}
      free = {x.id for x in ast.walk(nd) if isinstance(x, ast.Name) and isinstance(x.ctx, ast.Load)} - own - {nd.name}
      free = {x for x in free if not hasattr(_bi, x) and x not in getattr(f.mod, 'alias', {})}
      nested[nd.name] = free

  def purify(t):
    if not isinstance(t, tuple) or not t:
      return t
    if t[0] == 'call' and isinstance(t[1], str) and t[1] in nested:
      extra = tuple(('f', x) if x in outer_params else ('raw', x) for x in sorted(nested[t[1]]))
      return ('call', 'lambda', tuple(purify(x) for x in t[2]) + extra, tuple((k, purify(v)) for k, v in t[3]))
    return tuple(purify(x) if isinstance(x, tuple) else x for x in t)

  def mk_site(kind, fun, node, term):
    return Site(kind, fun, node, purify(term))

  def visit(n, env):
    if isinstance(n, (ast.FunctionDef, ast.AsyncFunctionDef, ast.ClassDef)):
      return
    if isinstance(n, ast.Lambda):
      env2 = pred.Env([a.arg for a in n.args.args], f.mod, parent=env)
      visit(n.body, env2)
      return
    if isinstance(n, ast.Call):
      # jax.vmap(lambda a, b: ...)(x, y): bind lambda parameters to the call arguments
      fn_ = n.func
      if isinstance(fn_, ast.Call) and fn_.args:
        d = dotted(fn_.func)
        inner = fn_.args[0]
        if d and d[-1] in ('vmap', 'jit') and isinstance(inner, ast.Lambda) and \
            len(inner.args.args) == len(n.args):
          env2 = pred.Env([], f.mod, parent=env)
          for pa, x in zip(inner.args.args, n.args):
            env2.set(pa.arg, N.term(x, env))
          visit(inner.body, env2)
          for x in n.args:
            visit(x, env)
          return
        if d and d[-1] in ('vmap',) and len(n.args) == 2:
          iname = pred.show(N.term(inner, env))
          if iname in ('jax.numpy.divide', 'numpy.divide'):
            out.append(mk_site('div', f, n, N.term(n.args[1], env)))
      name = pred.show(N.term(n.func, env)) if dotted(n.func) else None
      if name in ('jax.numpy.divide', 'numpy.divide', 'jax.numpy.true_divide') and len(n.args) == 2:
        out.append(mk_site('div', f, n, N.term(n.args[1], env)))
      if name in ROOT_PRIMS and n.args:
        kind = ROOT_PRIMS[name]
        if kind == 'power':
          ex = N.term(n.args[1], env) if len(n.args) > 1 else None
          if not (ex is not None and pred.is_const(ex) and isinstance(ex[1], int) and ex[1] >= 0):
            out.append(mk_site('power', f, n, N.term(n.args[0], env)))
            out[-1].exp = purify(ex) if ex is not None else None
        else:
          out.append(mk_site(kind, f, n, N.term(n.args[0], env)))
    if isinstance(n, ast.BinOp) and isinstance(n.op, ast.Div):
      out.append(mk_site('div', f, n, N.term(n.right, env)))
      out[-1].num = N.term(n.left, env)
    if isinstance(n, ast.BinOp) and isinstance(n.op, ast.Pow):
      ex = N.term(n.right, env)
      if not (pred.is_const(ex) and isinstance(ex[1], (int, float)) and float(ex[1]) == int(ex[1]) and ex[1] >= 0):
        out.append(mk_site('power', f, n, N.term(n.left, env)))
        out[-1].exp = purify(ex)
    if isinstance(n, ast.AugAssign) and isinstance(n.op, ast.Div):
      out.append(mk_site('div', f, n, N.term(n.value, env)))
    for c in ast.iter_child_nodes(n):
      visit(c, env)

  def on_stmt(s, pc, env, N_):
    # header expressions of compound statements, whole simple statements
    if isinstance(s, (ast.FunctionDef, ast.AsyncFunctionDef, ast.ClassDef)):
      return
    if isinstance(s, (ast.If, ast.While)):
      visit(s.test, env)
    elif isinstance(s, ast.For):
      visit(s.iter, env)
    elif isinstance(s, ast.With):
      for i in s.items:
        visit(i.context_expr, env)
    elif isinstance(s, ast.Try):
      pass
    else:
      visit(s, env)

  try:
    pred.sym_walk(f.node, f.mod, params, env=env0, drop_raise_negations=False, on_stmt=on_stmt)
  except pred.AnalysisError:
    # while / try in the function: fall back to a flow-insensitive scan
    del out[:]
    for s in f.node.body:
      visit(s, build_env(U, f, cache))
  return out
