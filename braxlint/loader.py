"""Abstract execution of brax.io.mjcf.load_model on mock MuJoCo models (C14 R14.4, C11 R11.2, C10 R10.3).

The loader is host-side numpy code over an mjModel.  Its integer / flag fields (joint types, body ids, addresses,
limited flags, transmission types ...) are CONCRETE in a mock model, its real-valued fields are SYMBOLIC; the AVN
interpreter walks load_model's AST on that mock and returns the System it builds.  Each field of the result is
compared with the reference specification below, which is written from the MuJoCo mjModel layout (world body = index
0, dropped; parents shifted by -1; one link per body; dofs in joint order; q_id / qd_id from the transmission target's
qpos / dof address; ranges +-inf unless *limited == 1; position / velocity bias only when biastype != 0).  The
comparison is on VALUES, so it is indifferent to how the loader is written (loops, comprehensions, helpers, masks).
"""
import numpy as np

from braxlint import avn
from braxlint.avn import Rat, Struct, asarr, fn, same, symarr
from braxlint.avnlib import new_interp, sym

QW = {0: 7, 1: 4, 2: 1, 3: 1}
DW = {0: 6, 1: 3, 2: 1, 3: 1}
INF = float('inf')

# (joint types per body (body 1..), parents of bodies 1.. (mujoco ids), limited flags per joint)
MOCKS = [
    dict(name='free root, hinge, slide+hinge stack, 3-hinge stack',
         joints=[[0], [3], [2, 3], [3, 3, 3]], parents=[0, 1, 2, 2], limited=[0, 1, 0, 1, 0, 0, 1],
         act=[dict(jnt=1, trn=0, ctrllim=1, forcelim=0, bias=0), dict(jnt=3, trn=0, ctrllim=0, forcelim=1, bias=1),
              dict(jnt=6, trn=0, ctrllim=1, forcelim=1, bias=1)]),
    dict(name='world-attached slide and hinge roots listed before a free root; no limits; no actuators',
         joints=[[2], [3, 2], [0], [3]], parents=[0, 0, 0, 3], limited=[0, 0, 0, 0, 0], act=[]),
    dict(name='two free roots and stacks; a non-joint transmission among the actuators (masked out by the loader)',
         joints=[[0], [2, 2, 2], [0], [3, 3]], parents=[0, 1, 0, 3], limited=[0, 1, 1, 0, 0, 1, 1],
         act=[dict(jnt=2, trn=0, ctrllim=0, forcelim=0, bias=1), dict(jnt=4, trn=4, ctrllim=1, forcelim=1, bias=0),
              dict(jnt=6, trn=0, ctrllim=1, forcelim=0, bias=2)]),
    # row i of the actuator tables is MuJoCo actuator i (ctrl[i] is paired with it), whatever joints the rows drive
    dict(name='hinge arm before a free body; actuators out of joint order, two on one joint declared APART',
         joints=[[2, 3], [3], [0], [3]], parents=[0, 1, 0, 3], limited=[1, 0, 1, 0, 0],
         act=[dict(jnt=2, trn=0, ctrllim=1, forcelim=0, bias=0), dict(jnt=0, trn=0, ctrllim=0, forcelim=1, bias=1),
              dict(jnt=4, trn=0, ctrllim=1, forcelim=1, bias=2), dict(jnt=2, trn=0, ctrllim=0, forcelim=0, bias=1),
              dict(jnt=1, trn=0, ctrllim=1, forcelim=0, bias=0)]),
]


def names_buffer(names_in_order):
  """A MuJoCo `names` buffer (null-separated UTF-8, addressed by BYTE offset) that starts with a non-ASCII name, so
  that byte offsets and character offsets differ for every later name.  -> (bytes, {name index: byte address})"""
  buf = 'caf\u00e9 \u4e16\u754c'.encode('utf-8') + b'\x00'
  adr = {}
  for k, nm in enumerate(names_in_order):
    adr[k] = len(buf)
    buf += nm.encode('utf-8') + b'\x00'
  return buf, adr


def _BODY_NAMES(nbody):
  return names_buffer(['world'] + ['link\u00e9%d' % b for b in range(1, nbody)])


def mock(spec, with_init_qpos=True):
  joints = spec['joints']
  nbody = len(joints) + 1
  jnt_type = np.array([t for b in joints for t in b])
  jnt_bodyid = np.array([i + 1 for i, b in enumerate(joints) for _ in b])
  njnt = len(jnt_type)
  qadr = np.cumsum([0] + [QW[t] for t in jnt_type])[:-1]
  dadr = np.cumsum([0] + [DW[t] for t in jnt_type])[:-1]
  nq, nv = int(sum(QW[t] for t in jnt_type)), int(sum(DW[t] for t in jnt_type))
  dof_jntid = np.concatenate([[j] * DW[t] for j, t in enumerate(jnt_type)]).astype(int)
  act = spec['act']
  nu = len(act)
  f = {
      'nbody': nbody, 'nq': nq, 'nv': nv, 'nu': nu, 'njnt': njnt, 'ngeom': 3,
      'jnt_type': jnt_type, 'jnt_bodyid': jnt_bodyid, 'jnt_pos': symarr('jpos', (njnt, 3)), 'jnt_axis': symarr('jaxis', (njnt, 3)),
      'jnt_range': symarr('jrng', (njnt, 2)), 'jnt_limited': np.array(spec['limited']), 'jnt_stiffness': symarr('jst', (njnt,)),
      'jnt_solref': symarr('jsr', (njnt, 2)), 'jnt_solimp': symarr('jsi', (njnt, 5)), 'jnt_qposadr': qadr, 'jnt_dofadr': dadr,
      'dof_jntid': dof_jntid, 'dof_armature': symarr('darm', (nv,)), 'dof_damping': symarr('ddmp', (nv,)),
      'dof_invweight0': symarr('diw', (nv,)),
      'body_pos': symarr('bpos', (nbody, 3)), 'body_quat': symarr('bquat', (nbody, 4)), 'body_ipos': symarr('bip', (nbody, 3)),
      'body_iquat': symarr('biq', (nbody, 4)), 'body_inertia': symarr('bin', (nbody, 3)), 'body_mass': symarr('bm', (nbody,)),
      'body_invweight0': symarr('biw', (nbody, 2)), 'body_parentid': np.array([0] + list(spec['parents'])),
      # the per-body joint / dof address tables MuJoCo also carries (-1 / 0 for the world and jointless bodies)
      'body_jntnum': np.array([0] + [len(b) for b in joints]), 'body_jntadr': np.array([-1] + list(np.cumsum([0] + [len(b) for b in joints])[:-1])),
      'body_dofnum': np.array([0] + [sum(DW[t] for t in b) for b in joints]),
      'body_dofadr': np.array([-1] + list(np.cumsum([0] + [sum(DW[t] for t in b) for b in joints])[:-1])),
      'body_rootid': np.arange(nbody), 'body_weldid': np.arange(nbody),
      'jnt_group': np.zeros(njnt, dtype=int), 'dof_bodyid': np.concatenate([[i + 1] * sum(DW[t] for t in b) for i, b in enumerate(joints)] or [[]]).astype(int),
      'dof_parentid': np.full(nv, -1),
      'actuator_ctrlrange': symarr('acr', (nu, 2)), 'actuator_ctrllimited': np.array([a['ctrllim'] for a in act], dtype=int),
      'actuator_forcerange': symarr('afr', (nu, 2)), 'actuator_forcelimited': np.array([a['forcelim'] for a in act], dtype=int),
      'actuator_biasprm': symarr('abp', (nu, 3)), 'actuator_biastype': np.array([a['bias'] for a in act], dtype=int),
      'actuator_gainprm': symarr('agp', (nu, 3)), 'actuator_gear': symarr('agr', (nu, 6)),
      'actuator_trntype': np.array([a['trn'] for a in act], dtype=int),
      'actuator_trnid': np.array([[a['jnt'], -1] for a in act], dtype=int).reshape(nu, 2),
      'name_bodyadr': np.array([_BODY_NAMES(nbody)[1][k] for k in range(nbody)], dtype=int), 'names': _BODY_NAMES(nbody)[0],
      'qpos0': symarr('qpos0', (nq,)),
      'opt': Struct('Opt', {'gravity': symarr('grav', (3,)), 'viscosity': sym('visc'), 'density': sym('dens'), 'iterations': 4}),
  }
  mj = Struct('MjModel', f)
  custom = {k: sym('c_' + k) for k in ('vel_damping', 'ang_damping', 'baumgarte_erp', 'spring_mass_scale', 'spring_inertia_scale',
                                         'joint_scale_ang', 'joint_scale_pos', 'collide_scale')}
  custom.update({'matrix_inv_iterations': 7, 'solver_maxls': 3, 'elasticity': symarr('c_el', (3,)),
                 'constraint_stiffness': symarr('c_ks', (nbody,)), 'constraint_vel_damping': symarr('c_kvd', (nbody,)),
                 'constraint_limit_stiffness': symarr('c_kls', (nbody,)), 'constraint_ang_damping': symarr('c_kad', (nbody,))})
  if with_init_qpos:
    custom['init_qpos'] = symarr('c_iq', (nq,))
  return mj, custom


def run_loader(repo, mj, custom):
  I = new_interp(repo, reset=False)
  I.contracts[('brax.io.mjcf', '_get_custom')] = lambda m: custom
  base_ext = I.extern
  put = Struct('MjxModel', {'nq': mj.f['nq'], 'nv': mj.f['nv'], 'nu': mj.f['nu'], 'nbody': mj.f['nbody']})

  def ext(name, args, kw):
    if name == 'mujoco.mjx.put_model':
      return put
    return base_ext(name, args, kw)
  I.extern = ext
  return I.apply(fn('brax.io.mjcf', 'load_model'), [mj], {})


def _rows(a):
  return asarr(a)


def expected(mj, custom):
  """Reference specification: {field path: expected value} from the mjModel layout."""
  m = mj.f
  jt, jb = m['jnt_type'], m['jnt_bodyid']
  nbody = m['nbody']
  E = {}
  # ---- links: one per non-world body, in body order
  E['link.transform.pos'] = _rows(m['body_pos'])[1:].copy()
  E['link.transform.rot'] = _rows(m['body_quat'])[1:].copy()
  types = []
  first_joint = {}
  for b in range(1, nbody):
    js = [j for j in range(len(jt)) if jb[j] == b]
    first_joint[b] = js[0]
    ts = [int(jt[j]) for j in js]
    types.append('f' if ts == [0] else str(len(ts)))
  E['link_types'] = ''.join(types)
  for i, t in enumerate(types):
    if t == 'f':          # free joints carry the pose in q: the link transform is cleared
      E['link.transform.pos'][i] = asarr([0, 0, 0])
      E['link.transform.rot'][i] = asarr([1, 0, 0, 0])
  E['link.joint.pos'] = np.stack([_rows(m['jnt_pos'])[first_joint[b]] for b in range(1, nbody)])
  E['link.joint.rot'] = asarr([[1, 0, 0, 0]] * (nbody - 1))
  E['link.inertia.transform.pos'] = _rows(m['body_ipos'])[1:]
  E['link.inertia.transform.rot'] = _rows(m['body_iquat'])[1:]
  E['link.inertia.mass'] = _rows(m['body_mass'])[1:]
  bi = _rows(m['body_inertia'])
  imat = np.empty((nbody - 1, 3, 3), dtype=object)
  for b in range(1, nbody):
    for r in range(3):
      for c in range(3):
        imat[b - 1, r, c] = bi[b, r] if r == c else Rat.lift(0)
  E['link.inertia.i'] = imat
  E['link.invweight'] = _rows(m['body_invweight0'])[1:, 0]
  for k, ck in (('constraint_stiffness', 'constraint_stiffness'), ('constraint_vel_damping', 'constraint_vel_damping'),
                ('constraint_limit_stiffness', 'constraint_limit_stiffness'), ('constraint_ang_damping', 'constraint_ang_damping')):
    E['link.' + k] = _rows(custom[ck])[1:]
  E['link_parents'] = tuple(int(p) - 1 for p in m['body_parentid'][1:])
  E['link_names'] = ['link\u00e9%d' % b for b in range(1, nbody)]
  # ---- dofs in joint order
  ang, vel, lo, hi, stiff = [], [], [], [], []
  z3 = [Rat.lift(0)] * 3
  eye = np.eye(3, dtype=int)
  ax, rng, st = _rows(m['jnt_axis']), _rows(m['jnt_range']), _rows(m['jnt_stiffness'])
  for j, t in enumerate(jt):
    lim = int(m['jnt_limited'][j]) == 1
    if t == 0:
      for k in range(6):
        ang.append([Rat.lift(int(x)) for x in eye[k - 3]] if k >= 3 else z3)
        vel.append([Rat.lift(int(x)) for x in eye[k]] if k < 3 else z3)
        lo.append(-INF); hi.append(INF); stiff.append(Rat.lift(0))
    elif t == 1:
      for k in range(3):
        ang.append([Rat.lift(int(x)) for x in eye[k]]); vel.append(z3)
        lo.append(-INF); hi.append(INF); stiff.append(Rat.lift(0))
    else:
      (vel if t == 2 else ang).append(list(ax[j]))
      (ang if t == 2 else vel).append(z3)
      lo.append(rng[j, 0] if lim else -INF); hi.append(rng[j, 1] if lim else INF); stiff.append(st[j])
  E['dof.motion.ang'] = asarr(ang)
  E['dof.motion.vel'] = asarr(vel)
  E['dof.stiffness'] = asarr(stiff)
  E['dof.limit'] = (asarr(lo), asarr(hi)) if any(int(x) for x in m['jnt_limited']) else None
  E['dof.armature'] = _rows(m['dof_armature'])
  E['dof.damping'] = _rows(m['dof_damping'])
  E['dof.invweight'] = _rows(m['dof_invweight0'])
  sp = np.concatenate([_rows(m['jnt_solref']), _rows(m['jnt_solimp'])], axis=1)
  E['dof.solver_params'] = sp[m['dof_jntid']]
  # ---- actuators: joint transmissions only
  keep = [a for a in range(m['nu']) if int(m['actuator_trntype'][a]) == 0]
  tj = [int(m['actuator_trnid'][a, 0]) for a in keep]
  E['actuator.q_id'] = np.array([int(m['jnt_qposadr'][j]) for j in tj], dtype=int)
  E['actuator.qd_id'] = np.array([int(m['jnt_dofadr'][j]) for j in tj], dtype=int)
  cr, fr = _rows(m['actuator_ctrlrange']), _rows(m['actuator_forcerange'])
  bp = _rows(m['actuator_biasprm'])
  E['actuator.ctrl_range'] = asarr([[cr[a, 0], cr[a, 1]] if int(m['actuator_ctrllimited'][a]) == 1 else [-INF, INF] for a in keep]).reshape(len(keep), 2)
  E['actuator.force_range'] = asarr([[fr[a, 0], fr[a, 1]] if int(m['actuator_forcelimited'][a]) == 1 else [-INF, INF] for a in keep]).reshape(len(keep), 2)
  E['actuator.gain'] = asarr([_rows(m['actuator_gainprm'])[a, 0] for a in keep])
  E['actuator.gear'] = asarr([_rows(m['actuator_gear'])[a, 0] for a in keep])
  E['actuator.bias_q'] = asarr([bp[a, 1] if int(m['actuator_biastype'][a]) != 0 else Rat.lift(0) for a in keep])
  E['actuator.bias_qd'] = asarr([bp[a, 2] if int(m['actuator_biastype'][a]) != 0 else Rat.lift(0) for a in keep])
  # ---- system scalars
  E['gravity'] = _rows(m['opt'].f['gravity'])
  E['viscosity'] = m['opt'].f['viscosity']
  E['density'] = m['opt'].f['density']
  E['elasticity'] = _rows(custom['elasticity'])
  E['init_q'] = _rows(custom['init_qpos']) if 'init_qpos' in custom else _rows(m['qpos0'])
  for k in ('vel_damping', 'ang_damping', 'baumgarte_erp', 'spring_mass_scale', 'spring_inertia_scale', 'joint_scale_ang',
            'joint_scale_pos', 'collide_scale'):
    E[k] = custom[k]
  E['matrix_inv_iterations'] = custom['matrix_inv_iterations']
  E['solver_maxls'] = custom['solver_maxls']
  E['solver_iterations'] = m['opt'].f['iterations']
  for k in ('nq', 'nv', 'nu'):
    E[k] = m[k]
  return E


def get_path(sysv, path):
  v = sysv
  for p in path.split('.'):
    if isinstance(v, Struct):
      if p not in v.f:
        return KeyError
      v = v.f[p]
    else:
      return KeyError
  return v


def equal(got, want):
  if got is KeyError:
    return False
  if want is None or got is None:
    return want is None and got is None
  if isinstance(want, str):
    return got == want
  if isinstance(want, tuple) and want and isinstance(want[0], np.ndarray):
    return isinstance(got, (tuple, list)) and len(got) == len(want) and all(equal(g, w) for g, w in zip(got, want))
  if isinstance(want, tuple) or isinstance(want, list) and (not want or isinstance(want[0], (int, str))):
    def conc(x):
      if isinstance(x, str):
        return x
      if isinstance(x, Rat):
        if not x.is_const():
          raise ValueError('abstract')
        return int(x.constval())
      return int(x)
    try:
      return [conc(x) for x in got] == list(want)
    except (TypeError, ValueError, AttributeError):
      return False
  if isinstance(want, (int, np.integer)) and not isinstance(want, bool):
    g = got
    if isinstance(g, np.ndarray) and g.shape == ():
      g = g[()]
    if isinstance(g, Rat):
      return g.is_const() and g.constval() == want
    try:
      return int(g) == int(want)
    except (TypeError, ValueError):
      return False
  try:
    ga, wa = asarr(got), asarr(want)
  except Exception:  # pylint: disable=broad-except
    return False
  if ga.shape != wa.shape:
    return False
  return same(ga, wa)


def compare_all(repo, only=None):
  """-> list of (mock name, field path, ok) over all mock models (and the init_qpos default variant)."""
  out = []
  for spec in MOCKS:
    for with_iq in (True, False):
      avn.reset_atoms()
      mj, custom = mock(spec, with_iq)
      want = expected(mj, custom)         # before the loader runs: load_model writes into mj.jnt_range in place
      before = {k: (v.copy() if isinstance(v, np.ndarray) else v) for k, v in mj.f.items()}
      try:
        sysv = run_loader(repo, mj, custom)
      except avn.OutOfFragment as e:
        if 'abstract index' not in str(e) and 'branch on abstract value' not in str(e):
          raise
        # every selection / mask / branch of the reference is a function of the integer and flag fields only
        out.append((spec['name'], 'structure decided by real-valued model data (%s)' % e, False))
        continue
      except (IndexError, KeyError, ValueError, ZeroDivisionError) as e:
        # the interpreted loader itself fails on a valid (supported) model -- as the real one would
        out.append((spec['name'], 'structure: load_model raises %s: %s on a supported model' % (type(e).__name__, str(e)[:80]), False))
        continue
      for path, w in want.items():
        if only is not None and not path.startswith(only):
          continue
        if not with_iq and path != 'init_q':
          continue
        out.append((spec['name'], path, equal(get_path(sysv, path), w)))
      # the mjModel is kept as sys.mj_model and validated LATER (pipeline.init -> validate_model): the loader may
      # overwrite, in place, only what validation reads identically afterwards -- the ranges of joints / actuators whose
      # *limited flag is off (set to +-inf, which is how validate_model itself reads them)
      if only is None and with_iq:
        for k, b in before.items():
          a = mj.f[k]
          if not isinstance(b, np.ndarray):
            continue
          ok = isinstance(a, np.ndarray) and a.shape == b.shape
          if ok:
            flag = {'jnt_range': 'jnt_limited', 'actuator_ctrlrange': 'actuator_ctrllimited',
                    'actuator_forcerange': 'actuator_forcelimited'}.get(k)
            for idx in np.ndindex(*b.shape):
              same_ = (a[idx] == b[idx]) if b.dtype != object else Rat.lift(a[idx]).same(Rat.lift(b[idx]))
              if not same_ and not (flag is not None and int(mj.f[flag][idx[0]]) != 1):
                ok = False
          out.append((spec['name'], 'mjModel.%s is left as it was (validate_model reads the model after load_model)' % k, bool(ok)))
  return out


# ------------------------------------------------------------------------------------------------------
# _get_custom: brax's per-model custom parameters (numeric and tuple <custom> elements of the MJCF)
CUSTOM_MOCKS = [
    dict(name='numeric overrides: per-geom elasticity, single-valued body custom, scalar, init_qpos',
         nbody=4, ngeom=3, nq=5,
         numeric=[('elasticity', 3), ('constraint_stiffness', 1), ('vel_damping', 1), ('init_qpos', 5), ('constraint_ang_damping', 3)],
         tuples=[]),
    dict(name='tuple overrides: elasticity on two of three geoms, a body-typed tuple; single-valued elasticity absent',
         nbody=3, ngeom=3, nq=2,
         numeric=[('baumgarte_erp', 1), ('constraint_limit_stiffness', 2)],
         tuples=[('elasticity', 5, [2, 0]), ('constraint_vel_damping', 1, [1])]),
    dict(name='no custom elements at all', nbody=3, ngeom=2, nq=1, numeric=[], tuples=[]),
]
CUSTOM_DEFAULT = {
    'ang_damping': (0.0, None), 'vel_damping': (0.0, None), 'baumgarte_erp': (0.1, None), 'spring_mass_scale': (0.0, None),
    'spring_inertia_scale': (0.0, None), 'joint_scale_pos': (0.5, None), 'joint_scale_ang': (0.2, None), 'collide_scale': (1.0, None),
    'matrix_inv_iterations': (10, None), 'solver_maxls': (20, None), 'elasticity': (0.0, 'geom'),
    'constraint_stiffness': (2000.0, 'body'), 'constraint_limit_stiffness': (1000.0, 'body'),
    'constraint_ang_damping': (0.0, 'body'), 'constraint_vel_damping': (0.0, 'body'),
}


def custom_mock(spec):
  names = {}
  adr = 0
  num_adr, num_size, name_numericadr = [], [], []
  all_names = [nm for nm, _ in spec['numeric']] + [nm for nm, _, _ in spec['tuples']]
  buf, badr = names_buffer(all_names)
  for i, (nm, n) in enumerate(spec['numeric']):
    names[badr[i]] = nm
    name_numericadr.append(badr[i])
    num_adr.append(adr)
    num_size.append(n)
    adr += n
  data = symarr('num', (adr,)) if adr else np.zeros((0,), dtype=object)
  t_adr, t_size, name_tupleadr, objtype, objid = [], [], [], [], []
  tadr = 0
  for i, (nm, ot, ids) in enumerate(spec['tuples']):
    names[badr[len(spec['numeric']) + i]] = nm
    name_tupleadr.append(badr[len(spec['numeric']) + i])
    t_adr.append(tadr)
    t_size.append(len(ids))
    objtype += [ot] * len(ids)
    objid += list(ids)
    tadr += len(ids)
  mj = Struct('MjModel', {
      'nbody': spec['nbody'], 'ngeom': spec['ngeom'], 'nq': spec['nq'], 'names': buf,
      'name_numericadr': np.array(name_numericadr, dtype=int), 'numeric_size': np.array(num_size, dtype=int),
      'numeric_adr': np.array(num_adr, dtype=int), 'numeric_data': data,
      'name_tupleadr': np.array(name_tupleadr, dtype=int), 'tuple_adr': np.array(t_adr, dtype=int),
      'tuple_size': np.array(t_size, dtype=int), 'tuple_objtype': np.array(objtype, dtype=int),
      'tuple_objid': np.array(objid, dtype=int), 'tuple_objprm': symarr('tprm', (tadr,)) if tadr else np.zeros((0,), dtype=object)})
  return mj, names


def run_get_custom(repo, mj, names):
  I = new_interp(repo, reset=False)
  # _get_name is interpreted for real on the bytes buffer (names are addressed by byte offset)
  # the validator runs for real (it receives the dict that is returned: whatever it writes reaches the System); its range
  # checks on symbolic values do not raise -- the mock is a valid model
  I.assume_valid = True
  return I.apply(fn('brax.io.mjcf', '_get_custom'), [mj], {})


def expected_custom(spec, mj):
  """Reference: scalars stay scalars; geom-typed customs have ngeom entries in geom order; body-typed customs have
  nbody entries = the per-link values preceded by one entry for the world body; a single value is broadcast; a tuple
  custom sets the listed objects and leaves the default elsewhere."""
  m = mj.f
  data = asarr(m['numeric_data'])
  over = {}
  for i, (nm, n) in enumerate(spec['numeric']):
    a = int(m['numeric_adr'][i])
    over[nm] = data[a:a + n]
  E = {}
  allnames = list(CUSTOM_DEFAULT) + [nm for nm, _ in spec['numeric'] if nm not in CUSTOM_DEFAULT]
  for nm in allnames:
    dv, typ = CUSTOM_DEFAULT.get(nm, (None, None))
    vals = over.get(nm)
    if typ is None:
      if vals is None:
        E[nm] = dv
      else:
        E[nm] = vals[0] if len(vals) == 1 else vals
      continue
    size = m['ngeom'] if typ == 'geom' else m['nbody'] - 1
    if vals is None:
      arr = asarr([dv] * size)
    elif len(vals) == 1:
      arr = asarr([vals[0]] * size)
    else:
      arr = asarr(list(vals))
    if typ == 'body':
      arr = np.concatenate([arr[:1], arr])
    E[nm] = arr
  tprm = asarr(m['tuple_objprm'])
  pos = 0
  for nm, ot, ids in spec['tuples']:
    size = m['nbody'] if ot == 1 else m['ngeom']
    dv = CUSTOM_DEFAULT.get(nm, (0.0, None))[0]
    arr = asarr([dv] * size)
    for k, oid in enumerate(ids):
      arr[oid] = tprm[pos + k]
    pos += len(ids)
    E[nm] = arr
  return E


def compare_custom(repo):
  out = []
  for spec in CUSTOM_MOCKS:
    avn.reset_atoms()
    mj, names = custom_mock(spec)
    want = expected_custom(spec, mj)
    got = run_get_custom(repo, mj, names)
    if not isinstance(got, dict):
      out.append((spec['name'], '<result>', False))
      continue
    for k, w in want.items():
      g = got.get(k, KeyError)
      if isinstance(w, (int, float)) and not isinstance(w, bool):
        try:
          ga = asarr(g)
          ok = ga.size == 1 and Rat.lift(ga.ravel()[0]).same(Rat.lift(avn.exact(float(w))))
        except Exception:  # pylint: disable=broad-except
          ok = False
      else:
        try:
          ga, wa = asarr(g), asarr(w)
          ok = (ga.shape == wa.shape or (ga.size == 1 and wa.size == 1)) and same(ga.ravel(), wa.ravel())
        except Exception:  # pylint: disable=broad-except
          ok = False
      out.append((spec['name'], k, ok))
  return out
