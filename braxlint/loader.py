"""Abstract execution of brax.io.mjcf.load_model on mock MuJoCo models (C14 R14.4, C11 R11.2, C10 R10.3).

The loader is host-side numpy code over an mjModel.  Its integer / flag fields (joint types, body ids, addresses,
limited flags, transmission types ...) are CONCRETE in a mock model, its real-valued fields are SYMBOLIC; the AVN
interpreter walks load_model's AST on that mock and returns the System it builds.  Each field of the result is
compared with the reference specification below, which is written from the MuJoCo mjModel layout (world body = index
0, dropped; parents shifted by -1; one link per body; dofs in joint order; q_id / qd_id from the transmission target's
qpos / dof address; ranges +-inf unless *limited == 1; position / velocity bias only when biastype != 0).  The
comparison is on VALUES, so it is indifferent to how the loader is written (loops, comprehensions, helpers, masks).
"""
import numpy as np

from braxlint import avn
from braxlint.avn import Rat, Struct, asarr, fn, same, symarr
from braxlint.avnlib import new_interp, sym

QW = {0: 7, 1: 4, 2: 1, 3: 1}
DW = {0: 6, 1: 3, 2: 1, 3: 1}
INF = float('inf')

# (joint types per body (body 1..), parents of bodies 1.. (mujoco ids), limited flags per joint)
MOCKS = [
    dict(name='free root, hinge, slide+hinge stack, 3-hinge stack',
         joints=[[0], [3], [2, 3], [3, 3, 3]], parents=[0, 1, 2, 2], limited=[0, 1, 0, 1, 0, 0, 1],
         act=[dict(jnt=1, trn=0, ctrllim=1, forcelim=0, bias=0), dict(jnt=3, trn=0, ctrllim=0, forcelim=1, bias=1),
              dict(jnt=6, trn=0, ctrllim=1, forcelim=1, bias=1)]),
    dict(name='world-attached slide and hinge roots listed before a free root; no limits; no actuators',
         joints=[[2], [3, 2], [0], [3]], parents=[0, 0, 0, 3], limited=[0, 0, 0, 0, 0], act=[]),
    dict(name='two free roots and stacks; a non-joint transmission among the actuators (masked out by the loader)',
         joints=[[0], [2, 2, 2], [0], [3, 3]], parents=[0, 1, 0, 3], limited=[0, 1, 1, 0, 0, 1, 1],
         act=[dict(jnt=2, trn=0, ctrllim=0, forcelim=0, bias=1), dict(jnt=4, trn=4, ctrllim=1, forcelim=1, bias=0),
              dict(jnt=6, trn=0, ctrllim=1, forcelim=0, bias=2)]),
]


def mock(spec, with_init_qpos=True):
  joints = spec['joints']
  nbody = len(joints) + 1
  jnt_type = np.array([t for b in joints for t in b])
  jnt_bodyid = np.array([i + 1 for i, b in enumerate(joints) for _ in b])
  njnt = len(jnt_type)
  qadr = np.cumsum([0] + [QW[t] for t in jnt_type])[:-1]
  dadr = np.cumsum([0] + [DW[t] for t in jnt_type])[:-1]
  nq, nv = int(sum(QW[t] for t in jnt_type)), int(sum(DW[t] for t in jnt_type))
  dof_jntid = np.concatenate([[j] * DW[t] for j, t in enumerate(jnt_type)]).astype(int)
  act = spec['act']
  nu = len(act)
  f = {
      'nbody': nbody, 'nq': nq, 'nv': nv, 'nu': nu, 'njnt': njnt, 'ngeom': 3,
      'jnt_type': jnt_type, 'jnt_bodyid': jnt_bodyid, 'jnt_pos': symarr('jpos', (njnt, 3)), 'jnt_axis': symarr('jaxis', (njnt, 3)),
      'jnt_range': symarr('jrng', (njnt, 2)), 'jnt_limited': np.array(spec['limited']), 'jnt_stiffness': symarr('jst', (njnt,)),
      'jnt_solref': symarr('jsr', (njnt, 2)), 'jnt_solimp': symarr('jsi', (njnt, 5)), 'jnt_qposadr': qadr, 'jnt_dofadr': dadr,
      'dof_jntid': dof_jntid, 'dof_armature': symarr('darm', (nv,)), 'dof_damping': symarr('ddmp', (nv,)),
      'dof_invweight0': symarr('diw', (nv,)),
      'body_pos': symarr('bpos', (nbody, 3)), 'body_quat': symarr('bquat', (nbody, 4)), 'body_ipos': symarr('bip', (nbody, 3)),
      'body_iquat': symarr('biq', (nbody, 4)), 'body_inertia': symarr('bin', (nbody, 3)), 'body_mass': symarr('bm', (nbody,)),
      'body_invweight0': symarr('biw', (nbody, 2)), 'body_parentid': np.array([0] + list(spec['parents'])),
      'actuator_ctrlrange': symarr('acr', (nu, 2)), 'actuator_ctrllimited': np.array([a['ctrllim'] for a in act], dtype=int),
      'actuator_forcerange': symarr('afr', (nu, 2)), 'actuator_forcelimited': np.array([a['forcelim'] for a in act], dtype=int),
      'actuator_biasprm': symarr('abp', (nu, 3)), 'actuator_biastype': np.array([a['bias'] for a in act], dtype=int),
      'actuator_gainprm': symarr('agp', (nu, 3)), 'actuator_gear': symarr('agr', (nu, 6)),
      'actuator_trntype': np.array([a['trn'] for a in act], dtype=int),
      'actuator_trnid': np.array([[a['jnt'], -1] for a in act], dtype=int).reshape(nu, 2),
      'name_bodyadr': np.arange(nbody) * 6, 'qpos0': symarr('qpos0', (nq,)),
      'opt': Struct('Opt', {'gravity': symarr('grav', (3,)), 'viscosity': sym('visc'), 'density': sym('dens'), 'iterations': 4}),
  }
  mj = Struct('MjModel', f)
  custom = {k: sym('c_' + k) for k in ('vel_damping', 'ang_damping', 'baumgarte_erp', 'spring_mass_scale', 'spring_inertia_scale',
                                         'joint_scale_ang', 'joint_scale_pos', 'collide_scale')}
  custom.update({'matrix_inv_iterations': 7, 'solver_maxls': 3, 'elasticity': symarr('c_el', (3,)),
                 'constraint_stiffness': symarr('c_ks', (nbody,)), 'constraint_vel_damping': symarr('c_kvd', (nbody,)),
                 'constraint_limit_stiffness': symarr('c_kls', (nbody,)), 'constraint_ang_damping': symarr('c_kad', (nbody,))})
  if with_init_qpos:
    custom['init_qpos'] = symarr('c_iq', (nq,))
  return mj, custom


def run_loader(repo, mj, custom):
  I = new_interp(repo, reset=False)
  I.contracts[('brax.io.mjcf', '_get_custom')] = lambda m: custom
  I.contracts[('brax.io.mjcf', '_get_name')] = lambda m, i: 'body@%s' % (i,)
  base_ext = I.extern
  put = Struct('MjxModel', {'nq': mj.f['nq'], 'nv': mj.f['nv'], 'nu': mj.f['nu'], 'nbody': mj.f['nbody']})

  def ext(name, args, kw):
    if name == 'mujoco.mjx.put_model':
      return put
    return base_ext(name, args, kw)
  I.extern = ext
  return I.apply(fn('brax.io.mjcf', 'load_model'), [mj], {})


def _rows(a):
  return asarr(a)


def expected(mj, custom):
  """Reference specification: {field path: expected value} from the mjModel layout."""
  m = mj.f
  jt, jb = m['jnt_type'], m['jnt_bodyid']
  nbody = m['nbody']
  E = {}
  # ---- links: one per non-world body, in body order
  E['link.transform.pos'] = _rows(m['body_pos'])[1:].copy()
  E['link.transform.rot'] = _rows(m['body_quat'])[1:].copy()
  types = []
  first_joint = {}
  for b in range(1, nbody):
    js = [j for j in range(len(jt)) if jb[j] == b]
    first_joint[b] = js[0]
    ts = [int(jt[j]) for j in js]
    types.append('f' if ts == [0] else str(len(ts)))
  E['link_types'] = ''.join(types)
  for i, t in enumerate(types):
    if t == 'f':          # free joints carry the pose in q: the link transform is cleared
      E['link.transform.pos'][i] = asarr([0, 0, 0])
      E['link.transform.rot'][i] = asarr([1, 0, 0, 0])
  E['link.joint.pos'] = np.stack([_rows(m['jnt_pos'])[first_joint[b]] for b in range(1, nbody)])
  E['link.joint.rot'] = asarr([[1, 0, 0, 0]] * (nbody - 1))
  E['link.inertia.transform.pos'] = _rows(m['body_ipos'])[1:]
  E['link.inertia.transform.rot'] = _rows(m['body_iquat'])[1:]
  E['link.inertia.mass'] = _rows(m['body_mass'])[1:]
  bi = _rows(m['body_inertia'])
  imat = np.empty((nbody - 1, 3, 3), dtype=object)
  for b in range(1, nbody):
    for r in range(3):
      for c in range(3):
        imat[b - 1, r, c] = bi[b, r] if r == c else Rat.lift(0)
  E['link.inertia.i'] = imat
  E['link.invweight'] = _rows(m['body_invweight0'])[1:, 0]
  for k, ck in (('constraint_stiffness', 'constraint_stiffness'), ('constraint_vel_damping', 'constraint_vel_damping'),
                ('constraint_limit_stiffness', 'constraint_limit_stiffness'), ('constraint_ang_damping', 'constraint_ang_damping')):
    E['link.' + k] = _rows(custom[ck])[1:]
  E['link_parents'] = tuple(int(p) - 1 for p in m['body_parentid'][1:])
  E['link_names'] = ['body@%s' % (i,) for i in m['name_bodyadr'][1:]]
  # ---- dofs in joint order
  ang, vel, lo, hi, stiff = [], [], [], [], []
  z3 = [Rat.lift(0)] * 3
  eye = np.eye(3, dtype=int)
  ax, rng, st = _rows(m['jnt_axis']), _rows(m['jnt_range']), _rows(m['jnt_stiffness'])
  for j, t in enumerate(jt):
    lim = int(m['jnt_limited'][j]) == 1
    if t == 0:
      for k in range(6):
        ang.append([Rat.lift(int(x)) for x in eye[k - 3]] if k >= 3 else z3)
        vel.append([Rat.lift(int(x)) for x in eye[k]] if k < 3 else z3)
        lo.append(-INF); hi.append(INF); stiff.append(Rat.lift(0))
    elif t == 1:
      for k in range(3):
        ang.append([Rat.lift(int(x)) for x in eye[k]]); vel.append(z3)
        lo.append(-INF); hi.append(INF); stiff.append(Rat.lift(0))
    else:
      (vel if t == 2 else ang).append(list(ax[j]))
      (ang if t == 2 else vel).append(z3)
      lo.append(rng[j, 0] if lim else -INF); hi.append(rng[j, 1] if lim else INF); stiff.append(st[j])
  E['dof.motion.ang'] = asarr(ang)
  E['dof.motion.vel'] = asarr(vel)
  E['dof.stiffness'] = asarr(stiff)
  E['dof.limit'] = (asarr(lo), asarr(hi)) if any(int(x) for x in m['jnt_limited']) else None
  E['dof.armature'] = _rows(m['dof_armature'])
  E['dof.damping'] = _rows(m['dof_damping'])
  E['dof.invweight'] = _rows(m['dof_invweight0'])
  sp = np.concatenate([_rows(m['jnt_solref']), _rows(m['jnt_solimp'])], axis=1)
  E['dof.solver_params'] = sp[m['dof_jntid']]
  # ---- actuators: joint transmissions only
  keep = [a for a in range(m['nu']) if int(m['actuator_trntype'][a]) == 0]
  tj = [int(m['actuator_trnid'][a, 0]) for a in keep]
  E['actuator.q_id'] = np.array([int(m['jnt_qposadr'][j]) for j in tj], dtype=int)
  E['actuator.qd_id'] = np.array([int(m['jnt_dofadr'][j]) for j in tj], dtype=int)
  cr, fr = _rows(m['actuator_ctrlrange']), _rows(m['actuator_forcerange'])
  bp = _rows(m['actuator_biasprm'])
  E['actuator.ctrl_range'] = asarr([[cr[a, 0], cr[a, 1]] if int(m['actuator_ctrllimited'][a]) == 1 else [-INF, INF] for a in keep]).reshape(len(keep), 2)
  E['actuator.force_range'] = asarr([[fr[a, 0], fr[a, 1]] if int(m['actuator_forcelimited'][a]) == 1 else [-INF, INF] for a in keep]).reshape(len(keep), 2)
  E['actuator.gain'] = asarr([_rows(m['actuator_gainprm'])[a, 0] for a in keep])
  E['actuator.gear'] = asarr([_rows(m['actuator_gear'])[a, 0] for a in keep])
  E['actuator.bias_q'] = asarr([bp[a, 1] if int(m['actuator_biastype'][a]) != 0 else Rat.lift(0) for a in keep])
  E['actuator.bias_qd'] = asarr([bp[a, 2] if int(m['actuator_biastype'][a]) != 0 else Rat.lift(0) for a in keep])
  # ---- system scalars
  E['gravity'] = _rows(m['opt'].f['gravity'])
  E['viscosity'] = m['opt'].f['viscosity']
  E['density'] = m['opt'].f['density']
  E['elasticity'] = _rows(custom['elasticity'])
  E['init_q'] = _rows(custom['init_qpos']) if 'init_qpos' in custom else _rows(m['qpos0'])
  for k in ('vel_damping', 'ang_damping', 'baumgarte_erp', 'spring_mass_scale', 'spring_inertia_scale', 'joint_scale_ang',
            'joint_scale_pos', 'collide_scale'):
    E[k] = custom[k]
  E['matrix_inv_iterations'] = custom['matrix_inv_iterations']
  E['solver_maxls'] = custom['solver_maxls']
  E['solver_iterations'] = m['opt'].f['iterations']
  for k in ('nq', 'nv', 'nu'):
    E[k] = m[k]
  return E


def get_path(sysv, path):
  v = sysv
  for p in path.split('.'):
    if isinstance(v, Struct):
      if p not in v.f:
        return KeyError
      v = v.f[p]
    else:
      return KeyError
  return v


def equal(got, want):
  if got is KeyError:
    return False
  if want is None or got is None:
    return want is None and got is None
  if isinstance(want, str):
    return got == want
  if isinstance(want, tuple) and want and isinstance(want[0], np.ndarray):
    return isinstance(got, (tuple, list)) and len(got) == len(want) and all(equal(g, w) for g, w in zip(got, want))
  if isinstance(want, tuple) or isinstance(want, list) and (not want or isinstance(want[0], (int, str))):
    def conc(x):
      if isinstance(x, str):
        return x
      if isinstance(x, Rat):
        if not x.is_const():
          raise ValueError('abstract')
        return int(x.constval())
      return int(x)
    try:
      return [conc(x) for x in got] == list(want)
    except (TypeError, ValueError, AttributeError):
      return False
  if isinstance(want, (int, np.integer)) and not isinstance(want, bool):
    g = got
    if isinstance(g, np.ndarray) and g.shape == ():
      g = g[()]
    if isinstance(g, Rat):
      return g.is_const() and g.constval() == want
    try:
      return int(g) == int(want)
    except (TypeError, ValueError):
      return False
  try:
    ga, wa = asarr(got), asarr(want)
  except Exception:  # pylint: disable=broad-except
    return False
  if ga.shape != wa.shape:
    return False
  return same(ga, wa)


def compare_all(repo, only=None):
  """-> list of (mock name, field path, ok) over all mock models (and the init_qpos default variant)."""
  out = []
  for spec in MOCKS:
    for with_iq in (True, False):
      avn.reset_atoms()
      mj, custom = mock(spec, with_iq)
      want = expected(mj, custom)         # before the loader runs: load_model writes into mj.jnt_range in place
      try:
        sysv = run_loader(repo, mj, custom)
      except avn.OutOfFragment as e:
        if 'abstract index' not in str(e) and 'branch on abstract value' not in str(e):
          raise
        # every selection / mask / branch of the reference is a function of the integer and flag fields only
        out.append((spec['name'], 'structure decided by real-valued model data (%s)' % e, False))
        continue
      for path, w in want.items():
        if only is not None and not path.startswith(only):
          continue
        if not with_iq and path != 'init_q':
          continue
        out.append((spec['name'], path, equal(get_path(sysv, path), w)))
  return out
