"""Scratch copies of the analysed part of /repo for checker self-tests (outside /repo and /verif)."""
import contextlib
import os
import shutil
import tempfile

from braxlint import universe


def _ignore(d, names):
  out = []
  for n in names:
    p = os.path.join(d, n)
    if n in ('v1', 'experimental', 'test_data', '__pycache__') or n.endswith(('.gif', '.png', '.stl', '.obj', '.pyc')):
      out.append(n)
  return out


@contextlib.contextmanager
def scratch_repo(src=None):
  src = src or universe.default_repo()
  base = os.environ.get('BRAXLINT_SCRATCH') or tempfile.gettempdir()
  d = tempfile.mkdtemp(prefix='braxlint-scratch-', dir=base)
  try:
    if os.environ.get('BRAXLINT_SCRATCH_FROM_HEAD'):
      # developer convenience (tools/probe_patch.py while /repo's working tree is temporarily patched by another
      # process): the committed tree instead of the working tree.  Never set by a registered command.
      import subprocess
      ar = subprocess.run(['git', '-C', src, 'archive', 'HEAD', 'brax'], capture_output=True, check=True).stdout
      subprocess.run(['tar', '-x', '-C', d], input=ar, check=True)
    else:
      shutil.copytree(os.path.join(src, 'brax'), os.path.join(d, 'brax'), ignore=_ignore)
    yield d
  finally:
    shutil.rmtree(d, ignore_errors=True)


def apply_edit(root, relfile, old, new, count=1):
  p = os.path.join(root, relfile)
  with open(p) as f:
    s = f.read()
  if s.count(old) < 1:
    raise universe.AnalysisError('selftest variant anchor not found in %s: %r' % (relfile, old[:60]))
  s = s.replace(old, new, count)
  with open(p, 'w') as f:
    f.write(s)
