"""Self-test of the checkers against the CURRENT tree: every variant of selftest/variants.py and every
confirmed seeded change under /verif/seeded, and every behaviour-preserving refactoring under /verif/benign
(which must leave EVERY property's check silent), is applied to its own scratch copy of /repo/brax (outside
/repo and /verif, removed immediately) and the property's quick check is run on it in a subprocess.

A breaking variant must be reported (exit 1), a benign one must stay silent (exit 0).  A checker that
cannot see its own seeded defects must not report a pass: failures raise AnalysisError (exit 2).
"""
import concurrent.futures
import glob
import json
import os
import subprocess
import sys

from braxlint import universe
from braxlint.selftest import scratch, variants

VERIF = os.path.dirname(os.path.dirname(os.path.dirname(os.path.abspath(__file__))))


def _run_one(job):
  pid, kind, rel, old, new, note, patch = job
  try:
    with scratch.scratch_repo() as d:
      if patch:
        r = subprocess.run(['patch', '-p1', '-s', '-d', d, '-i', patch], capture_output=True, text=True)
        if r.returncode != 0:
          return (job, 'stale', 'patch does not apply')
      else:
        try:
          scratch.apply_edit(d, rel, old, new)
        except universe.AnalysisError:
          return (job, 'stale', 'anchor text not found')
      env = dict(os.environ, PYTHONPATH=VERIF, JAX_PLATFORMS='cpu')
      env.pop('BRAXLINT_REPO', None)
      r = subprocess.run([sys.executable, '-m', 'braxlint.check', pid, '--repo', d, '--evidence-dir', os.path.join(d, 'ev'),
                          '--no-selftest', '--tier', 'quick'], capture_output=True, text=True, cwd=VERIF, env=env, timeout=600)
      tail = [l for l in r.stdout.splitlines() if l.startswith(('brax', 'ANALYSIS'))][:1]
      return (job, r.returncode, tail[0][:300] if tail else '')
  except Exception as e:  # pylint: disable=broad-except
    return (job, 'error', '%s: %s' % (type(e).__name__, e))


def jobs_for(pid):
  out = []
  for v in variants.V:
    if v[0] == pid:
      out.append(tuple(v) + (None,))
  for meta in sorted(glob.glob(os.path.join(VERIF, 'seeded', '*', 'meta.json'))):
    try:
      m = json.load(open(meta))
    except (OSError, ValueError):
      continue
    if m.get('property') == pid and m.get('detected_by'):      # a seed recorded as NOT detected is kept, not replayed
      out.append((pid, 'break', '', '', '', 'seeded/' + m.get('id', ''), os.path.join(os.path.dirname(meta), 'patch.diff')))
  # behaviour-preserving refactorings written by independent agents (benign/*.diff): every check must stay silent
  for bp in sorted(glob.glob(os.path.join(VERIF, 'benign', '*.diff'))):
    out.append((pid, 'benign', '', '', '', 'benign/' + os.path.basename(bp), bp))
  return out


def run_for_property(pid, rep, workers=None):
  jobs = jobs_for(pid)
  if not jobs:
    rep.stat('selftest', 'no variants registered')
    return
  workers = workers or min(16, os.cpu_count() or 4)
  with concurrent.futures.ThreadPoolExecutor(max_workers=workers) as ex:
    results = list(ex.map(_run_one, jobs))
  ok, failures, stale, samples = 0, [], 0, []
  for job, code, msg in results:
    pid_, kind, rel, old, new, note, patch = job
    want = 1 if kind == 'break' else 0
    label = '%s %s: %s' % (kind, rel or 'patch', note)
    if code == 'stale':
      stale += 1
      continue
    if code == want:
      ok += 1
      if len(samples) < 6:
        samples.append('%s -> exit %s %s' % (label, code, msg[:160]))
    else:
      failures.append('%s -> exit %s (expected %d) %s' % (label, code, want, msg[:200]))
  rep.stat('selftest_variants', len(jobs))
  rep.stat('selftest_as_expected', ok)
  rep.stat('selftest_stale', stale)
  rep.stat('selftest_samples', samples)
  if failures:
    raise universe.AnalysisError('selftest %s: %d of %d variants not handled as expected: %s' % (
        pid, len(failures), len(jobs), ' || '.join(failures[:4])))


def main(argv=None):
  """python -m braxlint.selftest.runner [PID ...]: run the self-test stand-alone."""
  from braxlint import report
  pids = (argv or sys.argv[1:]) or sorted({v[0] for v in variants.V})
  rc = 0
  for pid in pids:
    class R:  # minimal stat collector
      def __init__(self):
        self.s = {}
      def stat(self, k, v):
        self.s[k] = v
    r = R()
    try:
      run_for_property(pid, r)
      print(pid, {k: v for k, v in r.s.items() if k != 'selftest_samples'})
    except universe.AnalysisError as e:
      rc = 2
      print(pid, 'SELFTEST FAILED:', e)
  return rc


if __name__ == '__main__':
  sys.exit(main())
