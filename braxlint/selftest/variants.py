"""Self-test variants: textual edits applied to scratch copies of /repo/brax.

kind 'break'  : the property is broken -> the property's quick check must exit 1 (VIOLATION)
kind 'benign' : behaviour preserving   -> the check must exit 0
Each entry: (property, kind, relative file, old text, new text, note).  An anchor text that no longer
exists in the current tree makes the variant 'stale' (reported, not counted) -- the variants follow
the pinned tree, the checks do not depend on them.
"""

V = []


def add(pid, kind, rel, old, new, note):
  V.append((pid, kind, rel, old, new, note))


M, K, B = 'brax/math.py', 'brax/kinematics.py', 'brax/base.py'

# ---------------------------------------------------------------- C01
add('C01', 'break', K, '  jd = jd.replace(vel=jax.vmap(math.rotate)(jd.vel, sys.link.transform.rot))\n', '', 'slide velocity frame (D1 reverted)')
add('C01', 'break', K, 'j = j.replace(pos=j.pos + sys.link.joint.pos - anchor.pos)  # joint pos offset', 'j = j.replace(pos=j.pos)', 'anchor correction dropped')
add('C01', 'break', K, 'ang = xd_p.ang + jax.vmap(math.rotate)(jd.ang, x.rot)', 'ang = xd_p.ang + jax.vmap(math.rotate)(jd.ang, x_p.rot)', 'wrong rotation for angular velocity')
add('C01', 'break', K, '        j = j.vmap().do(j_i)', '        j = j_i.vmap().do(j)', 'stack composition order')
add('C01', 'break', 'brax/scan.py', "        parent_map = [depth_idxs[depth - 1]['l'].index(p) for p in parent_idxs]", '        parent_map = [0 for p in parent_idxs]', 'wrong parent carry')
add('C01', 'benign', K, '    vel = xd_p.vel + jax.vmap(jp.cross)(xd_p.ang, x.pos - x_p.pos)', '    lever = x.pos - x_p.pos\n    vel = jax.vmap(jp.cross)(xd_p.ang, lever) + xd_p.vel', 'temp + commuted sum')
# ---------------------------------------------------------------- C02
G = 'brax/generalized/'
add('C02', 'break', G + 'dynamics.py', '  cdof = cdof.replace(ang=ang, vel=vel)', '  cdof = cdof.replace(ang=ang)', 'prismatic axes not rotated (D2 reverted)')
add('C02', 'break', G + 'dynamics.py', '    return cinr.mul(cdd) + cd.cross(cinr.mul(cd))', '    return cinr.mul(cdd)', 'gyroscopic term dropped')
add('C02', 'break', G + 'integrator.py', '    mx = state.mass_mx + jp.diag(sys.dof.damping) * sys.opt.timestep', '    mx = state.mass_mx', 'implicit damping dropped')
add('C02', 'break', G + 'integrator.py', "  q = scan.link_types(sys, q_fn, 'lqd', 'q', sys.link, state.q, qd)", "  q = scan.link_types(sys, q_fn, 'lqd', 'q', sys.link, state.q, state.qd)", 'explicit instead of semi-implicit')
add('C02', 'break', G + 'mass.py', '  mx = mx + jp.diag(sys.dof.armature)', '  mx = mx', 'armature dropped')
add('C02', 'break', G + 'integrator.py', '  rot = math.quat_mul(rot, qrot)', '  rot = math.quat_mul(qrot, rot)', 'world-frame instead of body-frame angular velocity')
add('C02', 'break', G + 'pipeline.py', '  tau = actuator.to_tau(sys, act, state.q, state.qd)', '  tau = actuator.to_tau(sys, act, state.q, state.qd * 0)', 'actuator force from a zero velocity')
add('C02', 'break', 'brax/actuator.py', '  force *= sys.actuator.gear\n', '', 'gear not applied to the force')
add('C02', 'benign', G + 'dynamics.py', '  qfrc = qfrc_passive - qfrc_bias + tau', '  qfrc = tau + qfrc_passive - qfrc_bias', 'reordered sum')
# ---------------------------------------------------------------- C03
add('C03', 'break', G + 'integrator.py', 'math.safe_norm(ang) + 1e-8', 'jp.linalg.norm(ang) + 1e-8', 'D3 reverted')
add('C03', 'break', 'brax/positional/collisions.py', 'dlambda = -c / (w1 + w2 + 1e-6)', 'dlambda = -c / (w1 + w2)', 'epsilon deleted')
add('C03', 'break', M, 'n = x / (norm + 1e-6 * (norm == 0.0))', 'n = x / norm', 'normalize guard deleted')
add('C03', 'break', M, 'x = x + is_zero * 1.0', 'x = x', 'safe_norm swap deleted')
add('C03', 'break', K, 'math.safe_arccos(jp.clip(ang_between_1_p_xz_c, -1, 1))', 'jp.arccos(ang_between_1_p_xz_c)', 'bare arccos')
add('C03', 'break', 'brax/spring/collisions.py', '1e-6 + math.safe_norm', 'math.safe_norm', 'epsilon deleted')
add('C03', 'benign', 'brax/positional/joints.py', 'dlambda = -th / (w1 + w2 + 1e-6)', 'dlambda = -th / (w1 + w2 + 1e-9)', 'changed positive epsilon')
add('C03', 'benign', 'brax/positional/collisions.py', 'dlambda = -c / (w1 + w2 + 1e-6)', 'denom = 1e-6 + w2 + w1\n    dlambda = -c / denom', 'guard through a temporary')
# ---------------------------------------------------------------- C04
add('C04', 'break', 'brax/spring/joints.py', '  xf_i = fc - fp\n  return xf_i', '  xf_i = fc + fp\n  return xf_i', 'reaction with wrong sign')
add('C04', 'break', 'brax/spring/collisions.py', 'p = jax.tree.map(lambda x: jp.concatenate((x, -x)), p)', 'p = jax.tree.map(lambda x: jp.concatenate((x, x)), p)', '(p, p)')
add('C04', 'break', 'brax/positional/joints.py', 'pos_p, pos_c = -p * mass_inv_p, p * mass_inv_c', 'pos_p, pos_c = -p * mass_inv_c, p * mass_inv_c', 'parent moved with the child mass')
add('C04', 'break', 'brax/spring/pipeline.py', 'vel=jax.vmap(lambda x, y: x / y)(xf_i.vel, state.mass),', 'vel=jax.vmap(lambda x, y: x / y)(xf_i.vel, sys.link.inertia.mass),', 'two different masses')
add('C04', 'benign', 'brax/positional/integrator.py', 'xd = xd + xdd * sys.opt.timestep', 'xd = xdd * sys.opt.timestep + xd', 'commuted')
# ---------------------------------------------------------------- C06
add('C06', 'break', 'brax/positional/joints.py', 'inf = jp.concatenate((jp.full(x, jp.inf), jp.zeros(3 - x)))', 'inf = jp.array([jp.inf, jp.inf, jp.inf])', 'D5 reverted')
add('C06', 'break', 'brax/positional/collisions.py', '    x_i = state.x_i.replace(rot=jax.vmap(math.normalize)(state.x_i.rot)[0])\n    return x_i, jp.zeros((1,))', '    return state.x_i, jp.zeros((1,))', 'D4 reverted')
add('C06', 'break', 'brax/positional/collisions.py', 'p = dlambdat * n * static_mask * coll_mask', 'p = dlambdat * n * static_mask', 'mask deleted')
add('C06', 'break', 'brax/spring/collisions.py', 'apply_n = (c.dist < 0.0) & (normal_vel < 0) & (impulse > 0.0)', 'apply_n = (c.dist < 0.01) & (normal_vel < 0) & (impulse > 0.0)', 'gate threshold')
add('C06', 'break', G + 'constraint.py', 'aref = jax.vmap(lambda x, y: x * y)(aref, (pos < 0))', 'aref = aref', 'limit mask deleted')
add('C06', 'break', 'brax/spring/collisions.py', 'impulse_vec = impulse * -c.frame[0]', 'impulse_vec = impulse * c.frame[0]', 'flipped normal')
add('C06', 'break', G + 'constraint.py', 'jaxopt.projection.projection_non_negative,', 'jaxopt.projection.projection_box,', 'projection dropped')
add('C06', 'benign', 'brax/spring/collisions.py', 'apply_n = (c.dist < 0.0) & (normal_vel < 0) & (impulse > 0.0)', 'apply_n = (c.dist <= 0.0) & (normal_vel < 0) & (impulse > 0.0)', '< vs <= at 0')
# ---------------------------------------------------------------- C07
W = 'brax/envs/wrappers/training.py'
add('C07', 'break', W, 'state = state.replace(reward=jp.sum(rewards, axis=0))', 'state = state.replace(reward=jp.sum(rewards) * jp.ones_like(state.reward))', 'reduction over the batch axis')
add('C07', 'break', W, '        done = jp.reshape(done, [x.shape[0]] + [1] * (len(x.shape) - 1))  # type: ignore', '        done = jp.reshape(done[0], [1] * len(x.shape))', 'done of member 0 broadcast')
add('C07', 'break', W, '    res = jax.vmap(step, in_axes=[self._in_axes, 0, 0])(', '    res = jax.vmap(step, in_axes=[None, 0, 0])(', 'randomised system not mapped')
add('C07', 'break', 'brax/envs/ant.py', 'distance_from_origin=math.safe_norm(pipeline_state.x.pos[0]),', 'distance_from_origin=math.safe_norm(pipeline_state.x.pos[0], axis=-1),', 'ignored axis argument')
add('C07', 'benign', W, '    steps = state.info[\'steps\'] + self.action_repeat', '    steps = self.action_repeat + state.info[\'steps\']', 'commuted')
# ---------------------------------------------------------------- C08
add('C08', 'break', K, '  a_c = x.vmap().do(sys.link.joint)', '  a_c = x', 'child anchor dropped')
add('C08', 'break', K, '    return jp.concatenate([x.pos, x.rot]), jp.concatenate([xd.vel, ang])', '    return jp.concatenate([x.pos, x.rot]), jp.concatenate([xd.vel, xd.ang])', 'free angular velocity frame')
add('C08', 'break', 'brax/spring/pipeline.py', '  q, qd = kinematics.inverse(sys, j, jd)\n  state = state.replace(', '  q, qd = kinematics.inverse(sys, state.j, state.jd)\n  state = state.replace(', 'stale joint frame')
add('C08', 'benign', K, '  coords = motion.vel @ x.pos\n', '  coords = jp.dot(motion.vel, x.pos)\n', '@ vs dot')
# ---------------------------------------------------------------- C09
add('C09', 'break', M, 'u[0] * v[1] + u[1] * v[0] + u[2] * v[3] - u[3] * v[2]', 'u[0] * v[1] + u[1] * v[0] - u[2] * v[3] - u[3] * v[2]', 'quat_mul sign')
add('C09', 'break', M, 'r = r + 2 * s * jp.cross(u, vec)', 'r = r + s * jp.cross(u, vec)', 'rotate coefficient')
add('C09', 'break', B, 'vel = math.rotate(m.vel - jp.cross(self.pos, m.ang), rot_t)', 'vel = math.rotate(m.vel, rot_t)', 'cross term dropped')
add('C09', 'break', B, 'ang = math.rotate(f.ang, self.rot) + jp.cross(self.pos, vel)', 'ang = math.rotate(f.ang, self.rot) - jp.cross(self.pos, vel)', 'force transform sign')
add('C09', 'break', M, 'xyz = jp.cross(v1, v2)\n  w = 1.0', 'xyz = jp.cross(v2, v1)\n  w = 1.0', 'from_to generic axis reversed')
add('C09', 'break', M, 'v1_o = rnd - jp.dot(rnd, v1) * v1', 'v1_o = rnd', 'from_to fallback axis not orthogonal to v1')
add('C09', 'break', M, 'rnd = jax.random.uniform(jax.random.PRNGKey(0), (3,))', 'rnd = jp.array([1.0, 0.0, 0.0])', 'from_to fallback reference is a lattice direction')
add('C09', 'benign', M, 'rnd = jax.random.uniform(jax.random.PRNGKey(0), (3,))', 'rnd = jax.random.uniform(jax.random.PRNGKey(7), (3,))', 'from_to another generic reference')
add('C09', 'benign', M, 'w = 1.0 + jp.dot(v1, v2)', 'w = jp.dot(v2, v1) + 1.0', 'from_to commuted')
add('C09', 'benign', M, 'u[0] * v[0] - u[1] * v[1] - u[2] * v[2] - u[3] * v[3]', 'v[0] * u[0] - (v[1] * u[1] + u[2] * v[2]) - u[3] * v[3]', 'commuted / re-associated')
# ---------------------------------------------------------------- C10
add('C10', 'break', 'brax/contact.py', 'xquat = x.rot[sys.geom_bodyid - 1]', 'xquat = x.rot[sys.geom_bodyid]', 'pos and rot gathered with different indices')
add('C10', 'break', 'brax/contact.py', 'body2 = jp.array(sys.geom_bodyid)[c.geom2] - 1', 'body2 = jp.array(sys.geom_bodyid)[c.geom1] - 1', 'link attribution')
add('C10', 'break', 'brax/contact.py', 'elasticity = (sys.elasticity[c.geom1] + sys.elasticity[c.geom2]) * 0.5', 'elasticity = jp.maximum(sys.elasticity[c.geom1], sys.elasticity[c.geom2])', 'max instead of mean')
add('C10', 'break', 'brax/spring/collisions.py', '  i_mass = 1 / state.mass.take(link_idx) * (link_idx > -1)', '  i_mass = 1 / state.mass.take(link_idx)', 'world mask deleted (-1 aliases last link)')
add('C10', 'benign', 'brax/contact.py', 'elasticity = (sys.elasticity[c.geom1] + sys.elasticity[c.geom2]) * 0.5', 'elasticity = 0.5 * (sys.elasticity[c.geom2] + sys.elasticity[c.geom1])', 'commuted')
# ---------------------------------------------------------------- C11
A = 'brax/actuator.py'
add('C11', 'break', A, 'q, qd = q[sys.actuator.q_id], qd[sys.actuator.qd_id]', 'q, qd = q[sys.actuator.qd_id], qd[sys.actuator.qd_id]', 'q_id / qd_id')
add('C11', 'break', A, '.add(force)', '.set(force)', 'scatter set instead of add')
add('C11', 'break', A, '  force *= sys.actuator.gear\n', '', 'gear dropped')
add('C11', 'break', 'brax/io/mjcf.py', '  q_id = mj.jnt_qposadr[trnid]', '  q_id = mj.jnt_dofadr[trnid]', 'loader q_id')
add('C11', 'benign', A, '  force = sys.actuator.gain * act + bias', '  force = bias + act * sys.actuator.gain', 'commuted')
# ---------------------------------------------------------------- C13
J = 'brax/io/mjcf.py'
add('C13', 'break', J, 'and ((cpos != 0).any() or (cquat != np.array([1.0, 0.0, 0.0, 0.0])).any())', 'and (cpos != 0).any()', 'D6 reverted')
add('C13', 'break', J, "('body', 'geom', 'site', 'camera')", "('geom', 'site', 'camera')", 'body children not offset')
add('C13', 'break', J, 'to_pos, _ = _transform_do(parent_pos, parent_quat, to_pos, quat)', 'to_pos, _ = _transform_do(parent_pos, quat, to_pos, quat)', 'fromto end point')
add('C13', 'break', J, '  rot = math.quat_mul_np(parent_quat, quat)', '  rot = math.quat_mul_np(quat, parent_quat)', 'composition order')
add('C13', 'benign', J, 'and ((cpos != 0).any() or (cquat != np.array([1.0, 0.0, 0.0, 0.0])).any())', 'and (np.any(cpos != 0) or np.any(cquat != np.array([1, 0, 0, 0])))', 'np.any spelling')
# ---------------------------------------------------------------- C14
add('C14', 'break', J, "  if mj.opt.cone != 0:\n    raise NotImplementedError('Only pyramidal cone friction is supported.')\n", '', 'validation branch deleted')
add('C14', 'break', J, '  if mj.opt.impratio != 1:', '  if mj.opt.impratio != 1 and mj.opt.cone != 0:', 'guard weakened by a conjunct')
add('C14', 'break', 'brax/spring/pipeline.py', '  if sys.mj_model is not None:\n    mjcf.validate_model(sys.mj_model)\n', '', 'validate call deleted in one init')
add('C14', 'break', J, '  link_parents = tuple(mj.body_parentid - 1)[1:]', '  link_parents = tuple(mj.body_parentid)[1:]', 'parent off by one')
add('C14', 'benign', J, '  if (mj.geom_fluid != 0).any():', '  if np.any(mj.geom_fluid != 0):', 'np.any spelling')
add('C14', 'benign', J, '  if not (mj.actuator_trntype == 0).all():', '  if (mj.actuator_trntype != 0).any():', 'not all == vs any !=')
# ---------------------------------------------------------------- C15
add('C15', 'break', W, 'done = jp.where(steps >= episode_length, one, state.done)', 'done = jp.where(steps > episode_length, one, state.done)', 'off by one')
add('C15', 'break', W, '        steps >= episode_length, 1 - state.done, zero', '        steps >= episode_length, one, zero', 'truncation ignores termination')
add('C15', 'break', W, '      steps = jp.where(state.done, jp.zeros_like(steps), steps)', '      steps = steps', 'counter not restarted')
add('C15', 'break', W, "obs = jax.tree.map(where_done, state.info['first_obs'], state.obs)", "obs = jax.tree.map(where_done, state.obs, state.info['first_obs'])", 'restore inverted')
add('C15', 'break', W, "obs = jax.tree.map(where_done, state.info['first_obs'], state.obs)", "obs = where_done(state.info['first_obs'], state.obs) if not isinstance(state.obs, dict) else dict(state.obs, state=where_done(state.info['first_obs']['state'], state.obs['state']))", 'dict observations: only one leaf restored')
add('C15', 'break', 'brax/training/acting.py', '    return (nstate, next_key), transition', '    return (nstate, current_key), transition', 'key reused')
add('C15', 'benign', W, 'active_episodes = state_metrics.active_episodes * (1 - nstate.done)', 'active_episodes = (1 - nstate.done) * state_metrics.active_episodes', 'commuted')
# ---------------------------------------------------------------- C16
add('C16', 'break', 'brax/spring/integrator.py', 'rot=rot / jp.linalg.norm(rot)', 'rot=rot', 'normalisation dropped')
add('C16', 'break', 'brax/envs/hopper.py', 'reward, done, zero = jp.zeros(3)', 'reward, zero = jp.zeros(2); done = jp.ones(())', 'done starts at 1')
add('C16', 'break', 'brax/envs/reacher.py', 'rng, rng1, rng2 = jax.random.split(rng, 3)', 'rng, rng1, rng2 = jax.random.split(jax.random.PRNGKey(0), 3)', 'reset ignores its key')
add('C16', 'break', 'brax/envs/inverted_pendulum.py', '    return 1\n', '    return 2\n', 'action size')
add('C16', 'benign', K, "      return j, jd\n    x_p, xd_p = parent", "      return j.replace(rot=jax.vmap(math.normalize)(j.rot)[0]), jd\n    x_p, xd_p = parent", 'extra normalisation')
# ---------------------------------------------------------------- C17
R = 'brax/training/replay_buffers.py'
add('C17', 'break', R, 'sample_position = jnp.maximum(0, buffer_state.sample_position + roll)', 'sample_position = buffer_state.sample_position', 'cursor not rolled')
add('C17', 'break', R, '    if not self._cyclic:\n      self._size -= self._sample_batch_size', '    self._size -= self._sample_batch_size', 'cyclic size decremented')
add('C17', 'break', R, '    ) % buffer_state.insert_position\n\n    flat_batch', '    ) % len(buffer_state.data)\n\n    flat_batch', 'modulus over capacity')
add('C17', 'break', R, '        maxval=buffer_state.insert_position,', '        maxval=len(buffer_state.data),', 'uniform range over capacity')
add('C17', 'benign', R, '    position = (position + len(update)) % (len(data) + 1)', '    position = position + len(update)', 'identity modulus removed')
# ---------------------------------------------------------------- C18
S = 'brax/training/acme/running_statistics.py'
add('C18', 'break', S, 'diff_to_new_mean = batch - mean', 'diff_to_new_mean = diff_to_old_mean', 'old mean used twice')
add('C18', 'break', S, 'step_increment = jnp.sum(weights)', 'step_increment = jnp.prod(jnp.array(batch_dims))', 'weights ignored in count')
add('C18', 'break', S, 'return data * std + mean', 'return data * std - mean', 'denormalize sign')
add('C18', 'break', S, 'mean_update = jnp.sum(diff_to_old_mean, axis=batch_axis) / count', 'mean_update = jnp.sum(diff_to_old_mean, axis=0) / count', 'only the first batch axis reduced')
add('C18', 'benign', S, 'variance_update = diff_to_old_mean * diff_to_new_mean', 'variance_update = diff_to_new_mean * diff_to_old_mean', 'commuted')
# ---------------------------------------------------------------- C19
L = 'brax/training/agents/ppo/losses.py'
add('C19', 'break', L, 'acc = delta + discount * (1 - termination) * truncation_mask * lambda_ * acc', 'acc = delta + discount * (1 - termination) * lambda_ * acc', 'mask dropped from the accumulator')
add('C19', 'break', L, '      reverse=True,', '', 'forward scan')
add('C19', 'break', L, '      (truncation_mask, deltas, termination),', '      (truncation_mask, termination, deltas),', 'xs order')
add('C19', 'break', L, '  return jax.lax.stop_gradient(vs), jax.lax.stop_gradient(advantages)', '  return jax.lax.stop_gradient(vs), advantages', 'stop_gradient dropped')
add('C19', 'benign', L, '  deltas *= truncation_mask', '  deltas *= truncation_mask * truncation_mask', 'mask squared (0/1 valued)')
# ---------------------------------------------------------------- C20
D = 'brax/training/distribution.py'
add('C20', 'break', D, 'log_probs -= self._postprocessor', 'log_probs += self._postprocessor', 'log-det sign')
add('C20', 'break', D, 'jax.nn.softplus(scale) + self._min_std', 'jax.nn.softplus(scale)', 'min_std dropped')
add('C20', 'break', D, 'event_ndims=1,', 'event_ndims=0,', 'no sum over the event')
add('C20', 'break', 'brax/training/agents/ppo/networks.py', 'log_prob = parametric_action_distribution.log_prob(logits, raw_actions)', 'log_prob = parametric_action_distribution.log_prob(logits, parametric_action_distribution.postprocess(raw_actions))', 'log-prob of the squashed action')
add('C20', 'break', 'brax/training/networks.py', 'obs = preprocess_observations_fn(obs, processor_params)', 'pass', 'observations not normalised')
add('C20', 'benign', D, 'return 2.0 * (jnp.log(2.0) - x - jax.nn.softplus(-2.0 * x))', 'return (jnp.log(2.0) - x - jax.nn.softplus(-2.0 * x)) * 2.0', 'commuted')

# ---- C05: representation independence (equivariance / link order / components)
add('C05', 'break', G + 'dynamics.py', 'cdof = cdof.replace(ang=ang, vel=vel)', 'cdof = cdof.replace(ang=ang)', 'prismatic dof axes left in the link frame')
add('C05', 'break', G + 'mass.py', '      j = sys.link_parents[j]', '      j = j - 1', 'mass-matrix ancestor mask walks indices instead of parents')
add('C05', 'break', 'brax/spring/pipeline.py', 'xdd_i = Motion.create(vel=sys.gravity)', 'xdd_i = Motion.create(vel=sys.gravity * jax.numpy.array([0.0, 0.0, 1.0]))', 'only the z component of gravity')
add('C05', 'break', 'brax/positional/pipeline.py', 'xdd_i = Motion.create(vel=sys.gravity)', 'xdd_i = Motion.create(vel=jax.numpy.array([0.0, 0.0, 1.0]) * sys.gravity[2])', 'gravity assumed along z')
add('C05', 'break', G + 'dynamics.py', 'cdd_parent = Motion.create(vel=-jp.tile(sys.gravity, (num_roots, 1)))', 'cdd_parent = Motion.create(vel=-jp.tile(sys.gravity * jp.array([0.0, 0.0, 1.0]), (num_roots, 1)))', 'gravity assumed along z (generalized)')
add('C05', 'benign', G + 'dynamics.py', 'root = jp.array([root_fn(i) for i in range(sys.num_links())])', 'root = jp.array([0 for i in range(sys.num_links())])', 'one global reference point instead of per-root CoM (physics unchanged)')
add('C05', 'benign', G + 'dynamics.py', 'mass_xi = jax.vmap(jp.multiply)(sys.link.inertia.mass, x_i.pos)', 'mass_xi = jax.vmap(lambda m, p: p * m)(sys.link.inertia.mass, x_i.pos)', 'commuted')

# ---- C12: first-order consistency of the generalized integrator (dual-number dt)
add('C12', 'break', G + 'dynamics.py', 'return cinr.mul(cdd) + cd.cross(cinr.mul(cd))', 'return cinr.mul(cdd)', 'velocity-product (gyroscopic) term dropped from Newton-Euler')
add('C12', 'break', G + 'dynamics.py', 'cdd_parent = Motion.create(vel=-jp.tile(sys.gravity, (num_roots, 1)))', 'cdd_parent = Motion.create(vel=-0.5 * jp.tile(sys.gravity, (num_roots, 1)))', 'half gravity in the bias force')
add('C12', 'break', G + 'dynamics.py', 'cdof = cdof.replace(ang=ang, vel=vel)', 'cdof = cdof.replace(ang=ang)', 'prismatic dof axes left in the link frame')
add('C12', 'break', G + 'integrator.py', '  qd = state.qd + qdd * sys.opt.timestep', '  qd = state.qd + qdd * sys.opt.timestep * 0.5', 'velocity advanced by half a step')
add('C12', 'break', G + 'dynamics.py', 'qfrc = qfrc_passive - qfrc_bias + tau', 'qfrc = qfrc_passive + qfrc_bias + tau', 'bias force with the wrong sign')
add('C12', 'benign', G + 'integrator.py', "  q = scan.link_types(sys, q_fn, 'lqd', 'q', sys.link, state.q, qd)", "  q = scan.link_types(sys, q_fn, 'lqd', 'q', sys.link, state.q, state.qd)", 'explicit Euler: still first-order consistent (drift O(dt)); the ordering is C02 R2.4, not C12')
add('C12', 'benign', G + 'integrator.py', '  qd = state.qd + qdd * sys.opt.timestep', '  qd = sys.opt.timestep * qdd + state.qd', 'commuted')

# ---- round-2 additions
add('C16', 'break', 'brax/envs/humanoid.py', 'is_healthy = jp.where(pipeline_state.x.pos[0, 2] > max_z, 0.0, is_healthy)', 'is_healthy = jp.where(pipeline_state.x.pos[0, 2] > max_z, 0.0, 1.0)', 'upper height test overwrites the lower one')
add('C16', 'break', 'brax/envs/hopper.py', 'is_healthy &= jp.logical_and(min_z < z, z < max_z)', 'is_healthy &= jp.logical_or(min_z < z, z < max_z)', 'height range test is a disjunction')
add('C16', 'benign', 'brax/envs/ant.py', 'is_healthy = jp.where(pipeline_state.x.pos[0, 2] > max_z, 0.0, is_healthy)', 'is_healthy = is_healthy * jp.where(max_z < pipeline_state.x.pos[0, 2], 0.0, 1.0)', 'equivalent interval test')
add('C07', 'break', W, '''    state, rewards = jax.lax.scan(f, state, (), self.action_repeat)
    state = state.replace(reward=jp.sum(rewards, axis=0))
    steps = state.info['steps'] + self.action_repeat''', '''    rewards = []
    for _ in range(self.action_repeat):
      state, r = f(state, None)
      rewards.append(r)
    state = state.replace(reward=sum(rewards))
    steps = state.info['steps'] + self.action_repeat''', 'python loop instead of scan: info dict shared with the input state')
add('C19', 'benign', L, '  truncation_mask = 1 - truncation', '''  rewards, values, bootstrap_value = jax.lax.stop_gradient((rewards, values, bootstrap_value))
  truncation_mask = 1 - truncation''', 'stop_gradient additionally on every input (same values, still no gradient)')
add('C07', 'benign', W, '    return jax.vmap(self.env.reset)(rng)', '    return jax.vmap(lambda r: self.env.reset(r))(rng)', 'vmap of a lambda instead of the bound method')
add('C16', 'benign', 'brax/envs/ant.py', '    rng, rng1, rng2 = jax.random.split(rng, 3)', '''    keys = jax.random.split(rng, 3)
    rng, rng1, rng2 = keys[0], keys[1], keys[2]''', 'split result indexed instead of unpacked')
add('C13', 'benign', J, '((cpos != 0).any() or (cquat != np.array([1.0, 0.0, 0.0, 0.0])).any())', '(not (np.allclose(cpos, 0) and np.allclose(cquat, [1.0, 0.0, 0.0, 0.0])))', 'guard spelled with allclose and De Morgan')
add('C13', 'benign', J, '((cpos != 0).any() or (cquat != np.array([1.0, 0.0, 0.0, 0.0])).any())', '(np.any(cpos != 0) or np.any(cquat != np.array([1.0, 0.0, 0.0, 0.0])))', 'guard spelled with np.any')
add('C03', 'benign', 'brax/spring/collisions.py', '    impulse_d = math.safe_norm(vel_d) / (i_mass[0] + i_mass[1] + ang_d)', '''    w_d = ang_d + i_mass[1] + i_mass[0]
    impulse_d = math.safe_norm(vel_d) / w_d''', 'listed denominator rewritten (commuted, temp introduced)')
add('C03', 'break', 'brax/spring/collisions.py', '    impulse_d = math.safe_norm(vel_d) / (i_mass[0] + i_mass[1] + ang_d)', '''    impulse_d = math.safe_norm(vel_d) / (i_mass[0] + i_mass[1] + ang_d)
    impulse_d = impulse_d / math.safe_norm(c.frame[1])''', 'a further unguarded state-dependent division in a function with listed exceptions')
add('C17', 'break', R, '''    self.check_can_insert(buffer_state, samples, 1)
    return self.insert_internal(buffer_state, samples)''', '''    return self.insert_internal(buffer_state, samples)''', 'host-side insert bookkeeping dropped')
add('C17', 'benign', R, '''    self.check_can_insert(buffer_state, samples, 1)
    return self.insert_internal(buffer_state, samples)''', '''    new_state = self.insert_internal(buffer_state, samples)
    self.check_can_insert(buffer_state, samples, 1)
    return new_state''', 'guard after the (pure) internal insert: same refusals, same state')
add('C17', 'benign', R, '''    self._buffer.check_can_sample(buffer_state, self._num_devices)
    buffer_state, samples = jax.pmap''', '''    self._buffer.check_can_sample(buffer_state, 1)
    buffer_state, samples = jax.pmap''', 'shard count only feeds the error message of check_can_sample')
add('C16', 'benign', 'brax/envs/inverted_pendulum.py', '    reward, done = jp.zeros(2)', '    reward, done = jp.asarray(0.0), jp.asarray(0.0)', 'done = asarray(0.0): the constant 0 by value')
add('C16', 'break', 'brax/envs/inverted_pendulum.py', '    reward, done = jp.zeros(2)', '    reward, done = jp.zeros(2)\n    done = done + 1.0', 'episode starts done')
add('C06', 'benign', 'brax/positional/collisions.py', '    dlambda = -c / (w1 + w2 + 1e-6)', '    inv_w = 1.0 / (w1 + w2 + 1e-6)\n    dlambda = -c * inv_w', 'reciprocal kept in a temporary')
add('C06', 'break', 'brax/positional/collisions.py', '    dlambda = -c / (w1 + w2 + 1e-6)', '    inv_w = 1.0 / (w1 + w2 + 1e-6)\n    dlambda = c * inv_w', 'contact correction pulls (sign of lambda)')
