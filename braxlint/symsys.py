"""Symbolic System / State / Contact builders for AVN obligations (minimal concrete sizes)."""
import numpy as np

from braxlint import avn
from braxlint.avn import Rat, Struct, asarr, symarr
from braxlint.avnlib import M, T, sym

avn.STRUCT_HOME['System'] = 'brax.base'


def contact(link_idx, prefix='c'):
  nc = len(link_idx[0])
  return Struct('Contact', {
      'pos': symarr(prefix + 'p', (nc, 3)), 'frame': symarr(prefix + 'f', (nc, 3, 3)),
      'dist': symarr(prefix + 'd', (nc,)), 'friction': symarr(prefix + 'mu', (nc, 5)),
      'elasticity': symarr(prefix + 'el', (nc,)), 'solref': symarr(prefix + 'sr', (nc, 2)),
      'solimp': symarr(prefix + 'si', (nc, 5)),
      # the remaining mjx.Contact fields (a margin, the friction solref, bookkeeping ids): symbolic / concrete, so that a
      # consumer reading them is interpreted rather than rejected
      'includemargin': symarr(prefix + 'mg', (nc,)), 'solreffriction': symarr(prefix + 'srf', (nc, 2)),
      'dim': np.full((nc,), 3), 'geom1': np.arange(nc), 'geom2': np.arange(nc) + nc,
      'geom': np.stack([np.arange(nc), np.arange(nc) + nc], axis=1), 'efc_address': np.arange(nc) * 4,
      'link_idx': (np.array(link_idx[0]), np.array(link_idx[1]))})


def link(n):
  return Struct('Link', {
      'transform': T('L', (n,)), 'joint': Struct('Transform', {'pos': symarr('a', (n, 3)),
                                                                 'rot': asarr([[1, 0, 0, 0]] * n)}),
      'inertia': Struct('Inertia', {'transform': T('ci', (n,)), 'i': symarr('In', (n, 3, 3)),
                                    'mass': symarr('m', (n,))}),
      'invweight': symarr('iw', (n,)),
      'constraint_stiffness': symarr('ks', (n,)), 'constraint_vel_damping': symarr('kvd', (n,)),
      'constraint_limit_stiffness': symarr('kls', (n,)), 'constraint_ang_damping': symarr('kad', (n,))})


def system(link_types, link_parents, **extra):
  n = len(link_types)
  g = symarr('g', (3,))
  # every mjx.Option field: the loader copies the model's gravity into BOTH System.gravity and System.opt.gravity (the same
  # values at load time; a later sys.replace(gravity=...) changes only the former)
  opt = Struct('Opt', {'timestep': sym('dt'), 'gravity': g, 'wind': np.array([Rat.lift(0)] * 3, dtype=object), 'density': sym('rho'),
                       'viscosity': sym('visc'), 'magnetic': symarr('mag', (3,)), 'iterations': 1, 'ls_iterations': 4,
                       'tolerance': sym('tol'), 'ls_tolerance': sym('lstol'), 'impratio': 1, 'jacobian': 0, 'cone': 0,
                       'disableflags': 0, 'enableflags': 0, 'integrator': 0, 'solver': 2})
  f = {'link': link(n), 'link_types': link_types, 'link_parents': tuple(link_parents),
       'opt': opt, 'baumgarte_erp': sym('erp'),
       'spring_mass_scale': sym('sms'), 'spring_inertia_scale': sym('sis'), 'collide_scale': sym('cs'),
       'joint_scale_pos': sym('jsp'), 'joint_scale_ang': sym('jsa'), 'gravity': g,
       'vel_damping': sym('vd'), 'ang_damping': sym('ad'), 'enable_fluid': False}
  f.update(extra)
  return Struct('System', f, home='brax.base')


def state_maxcoord(n, cls='State', home=None, **extra):
  f = {'x': T('x', (n,)), 'xd': M('xd', (n,)), 'x_i': T('xi', (n,)), 'xd_i': M('xdi', (n,)),
       'j': T('j', (n,)), 'jd': M('jd', (n,)), 'a_p': T('ap', (n,)), 'a_c': T('ac', (n,)),
       'i_inv': symarr('Ii', (n, 3, 3)), 'mass': symarr('ms', (n,)), 'q': None, 'qd': None,
       'contact': None}
  f.update(extra)
  return Struct(cls, f, home=home)
