"""Per-property manifest metadata (claims are added as checks are built)."""

PENDING = {}


def register(claim):
  claim('C14', 'other',
        'Static rule check deciding, for every model, the guard structure of model validation: '
        'validate_model is called first on every path of the three native pipeline.init '
        'functions; each of the 18 declared-unsupported features has a raise whose canonical '
        'path condition (over the whole model field) is the stated one; link-type alphabet, '
        'width and dispatch tables agree; loader fields are built from the reference mjModel '
        'sources.  A test can only sample models; the rule quantifies over all of them.',
        'Trusted: python ast, the predicate normaliser, MuJoCo mjModel field semantics, the '
        'reference tables in /verif/specs/c14_*.json.  Not decided: behaviour of MuJoCo\'s own '
        'XML compiler; numeric content of loaded arrays.',
        'must-call path rule + finite-domain guard table + def-use provenance table', 'DESIGN.md §3 C14')

  claim('C09', 'proof',
        '32 polynomial identities between repo functions (associativity/identity/inverse of '
        'Transform composition, quaternion product vs successive rotation vs 3x3 form, '
        'motion/force duality, kinetic-energy invariance of inertia transport, spatial cross '
        'antisymmetry/duality, norm multiplicativity, Euler construction, numpy twins, CoM round '
        'trip, adjugate inverse) decided by algebraic value numbering of the functions\' ASTs: both '
        'sides reduce to the same rational-function normal form, so each identity holds for all real '
        'inputs -- strictly more than lattice sampling.  obligations = identities; discharged = '
        'identities whose normal forms coincide.',
        'Trusted: python ast, the polynomial normal-form arithmetic (exact Fractions), the primitive '
        'table (dot, cross, array, @, transpose).  from_to (L14) is decided in homogeneous form: the '
        'generic branch by random interpretation with unit vectors by construction, the antiparallel '
        'branch exactly in Q(sqrt c) on every lattice direction of [-3,3]^3.  Not decided: '
        'quat_to_euler (inverse trig).',
        'algebraic value numbering (polynomial normal forms) of straight-line AST', 'DESIGN.md §3 C09')
  claim('C11', 'other',
        'Static equivalence of actuator.to_tau with the stated force law (clip ctrl -> gain + geared '
        'position/velocity bias -> clip force -> gear -> scatter-add by dof id, exact zero elsewhere, '
        'zeros without actuators) as normal forms over symbolic inputs for index patterns with one, '
        'several and no actuators per joint; plus def-use provenance of the loader\'s actuator table.',
        'Trusted: python ast, AVN normal form, clip as uninterpreted atom, reference formula B.3. '
        'Monotonicity/constancy outside the control range are corollaries, argued not checked. '
        'Numeric agreement with MuJoCo is not run.',
        'algebraic value numbering vs reference formula + def-use provenance', 'DESIGN.md §3 C11')
  claim('C18', 'other',
        'Static equivalence: from init_state, sequences of update() over partitions of symbolic '
        'samples (1-2 batch axes, nested leaves, symbolic real weights) reduce to exactly the '
        'population count / mean / summed squared deviation as rational functions; one update from '
        'a symbolic state equals the batched Welford step on all weights x psum variants; std '
        'clipping; normalize/denormalize are inverse and leave non-float leaves untouched.',
        'Trusted: python ast, AVN normal form, psum as linear uninterpreted atom.  Instantiated '
        'partitions are finite (n <= 6); generalisation rests on the pairwise-update identity. '
        'Floating-point cancellation is not decided.',
        'algebraic value numbering vs population definition', 'DESIGN.md §3 C18')
  claim('C19', 'other',
        'Static equivalence of compute_gae with the defining GAE lambda-sum (explicit sum, not a '
        'recurrence) as polynomial normal forms in symbolic rewards, values, bootstrap, masks, lambda '
        'and discount, with stop_gradient on both outputs; thorough tier covers every (T, B) with '
        'T <= 12, B <= 4, i.e. the whole structural quantifier, for all real inputs including mask '
        'and lambda/discount end points.',
        'Trusted: python ast, AVN normal form, lax.scan unrolling semantics (reverse order, stacked '
        'outputs), reference formula B.7.',
        'algebraic value numbering vs reference formula, exhaustive in (T,B)', 'DESIGN.md §3 C19')
  claim('C20', 'other',
        'Static equivalence of the tanh-normal distribution (bijector, normal density/sample/mode/'
        'entropy, create_dist, ParametricDistribution methods, constructors included) with the '
        'stated formulas, and of the PPO inference function (network opaque) with the stated '
        'dataflow: squashed sample, log-prob of the pre-squash action from the same logits, raw '
        'action, mode when deterministic, observations preprocessed before the network; a value '
        'equality on the distribution classes, if defined, covers every configured attribute.',
        'Trusted: python ast, AVN normal form, log/softplus/tanh/normal noise as uninterpreted '
        'atoms, reference formulas B.8.  Floating-point accuracy of softplus at large |x| and the '
        'range of tanh are not decided.',
        'algebraic value numbering vs reference formulas + opaque-callee provenance', 'DESIGN.md §3 C20')

  claim('C03', 'other',
        'Static rule check: over every function reachable from the three native pipelines, each '
        'division / norm / sqrt / fractional power / log / inverse-trig site is classified by '
        'def-use (CONST, PARAM, GUARDED(eps>0), SAFE, BARE); BARE sites must be listed exceptions '
        'with reason and multiplicity; the gradient-safe helpers (safe_norm, normalize, safe_arccos/'
        'arcsin JVPs, inv_3x3, orthogonals) are compared with their contracts by algebraic value '
        'numbering.  Decides "no singular primitive is reachable unguarded" for all models/states; '
        'a deleted or non-positive guard is reported at file:line.  R3.5: the derivative of the free-joint '
        'quaternion integration at zero angular velocity is the derivative of the exponential map, decided over '
        'dual numbers with the epsilon guards read as a formal infinitesimal (Laurent series).  R3.7: init stores the '
        'q, qd it is given.  R3.8: the joint read-back, executed for all 14 hinge / slide stack patterns, evaluates no '
        'arctan2 at the origin (found defect D10).',
        'Trusted: python ast, name-based call-graph over-approximation, exception table '
        'specs/c03_exceptions.json.  Not decided: equality with finite differences elsewhere (numeric); NaN '
        'through unselected where-arms at switching points (excluded by the property).',
        'denominator/root-argument classification over the call graph + AVN helper contracts',
        'DESIGN.md §3 C03')

  claim('C16', 'other',
        'Static rule check over the 11 registered physics environments, PipelineEnv, the training '
        'wrappers and the native pipelines: (R16.1) every call into an installed third-party '
        'library binds that library\'s current signature; (R16.2/3) metrics/info pytree keys written '
        'by step exist after reset, step returns state.replace of State fields, done starts as a '
        'zero constructor; (R16.4) effect analysis: reset/step/_get_obs and the methods they call are '
        'pure, sampler keys derive from the reset key by split; (R16.5/6) observation/action sizes '
        'and the registry/backend tables agree; (R16.7) unit-quaternion typestate: every State a '
        'native init/step returns has normalised x.rot / x_i.rot on every path.',
        'Trusted: python ast, inspect.signature of installed libraries, typestate transfer functions; '
        'assumes the incoming state of step has unit rotations (induction; init is checked).  Not '
        'decided: finiteness of observations/rewards over 200-1000 step histories (numeric).',
        'library-signature conformance + effect analysis + unit-quaternion typestate (abstract interpretation)',
        'DESIGN.md §3 C16')

  claim('C13', 'other',
        'Static check by abstract execution: mjcf._fuse_bodies (with _offset / _transform_do) is abstractly interpreted '
        'from its AST on mock MJCF body trees whose poses are symbolic -- jointless bodies under the world, under a '
        'jointed body and nested two deep, each with pos only / quat only / both / neither, holding geoms given by '
        'pos+quat, pos or fromto, sites and jointed child bodies -- and every geom, site and jointed body is shown to '
        'keep, relative to its nearest jointed ancestor, exactly the pose (from-to: both end points) MuJoCo gives it in '
        'the original document, with no jointless body left; an identity in all pose parameters, decided by random '
        'interpretation with unit quaternions by construction.  Plus: _transform_do is rigid-transform composition; '
        'every load path fuses before serialising / compiling.  One known finding: non-normalised quat attributes '
        '(legal MJCF) scale the fused offsets by |q|^2.',
        'Trusted: python ast, AVN interpreter, the ElementTree mock (braxlint/xmlmock.py), MuJoCo normalises quat '
        'attributes.  Not decided: masses / inertias recomputed by MuJoCo; orientation attributes other than quat.',
        'abstract execution of the MJCF pre-processing on symbolic documents (random interpretation) + path rules',
        'DESIGN.md §3 C13')

  claim('C06', 'other',
        'Static equivalence by algebraic value numbering with scenario substitution: the contact '
        'consumers of all three pipelines (spring resolve, positional resolve_position / '
        'resolve_velocity, generalized jac_contact) and the limit consumers (spring _one/_two/'
        '_three_dof, positional pad_x_dof + _three_dof_joint_update, generalized jac_limit) are '
        'abstractly interpreted as whole kernels on symbolic states; with every contact distance > 0 '
        'resp. every coordinate strictly inside its range the result is identical (as a normal '
        'form) to the path taken by a model without contact pairs / without limits, including the '
        'quaternion renormalisation.  Push-only: the normal impulse / PBD correction is '
        'lambda*(-frame[0]) on link 1 and its negative on link 2 with lambda gated positive; the '
        'generalized solver projects onto x >= 0.  R6.5: for a central (sphere) contact the spring impulse changes '
        'the normal velocity of the contact point by c (-(1+e) v_n - erp/dt dist) with one constant c within 1e-3 of '
        '1; R6.6: limits whose range excludes 0 are inert for a system at rest inside them (one step from rest).',
        'Trusted: python ast, AVN normal form with gate-preserving widening, scenario substitution, '
        'opaque contracts for contact.get / joint-frame helpers / point_jacobian / _imp_aref.  Not '
        'decided: resting height, sink depth, rebound ratio (numeric histories); inertness of the '
        'positional rotational limit inside its range (geometric identity).',
        'whole-kernel algebraic value numbering + scenario substitution of gate atoms',
        'DESIGN.md §3 C06')

  claim('C04', 'other',
        'Static law check on the whole pipeline step: spring/positional pipeline.step and everything '
        'they call (scan regrouping, actuator, joints, collisions, integrators, com) are abstractly '
        'interpreted from their AST on symbolic states of a free-rooted chain f-1-1 (actuators, '
        'limits) and of two free bodies with two contacts; the returned total linear momentum '
        'equals previous + total mass x gravity x dt as an identity, decided by random '
        'interpretation (images of the normal forms in GF(2^61-1): an identity of polynomials holds '
        'in every trial, a non-identity is refuted with probability > 1 - 1e-15 per trial), plus '
        'exact polynomial leaf laws for the PBD pair kernels and one-effective-mass provenance.  R4.5 (first law): '
        'init + one step of all three pipelines from a consistent state at rest inside symbolic joint ranges that '
        'do not contain 0 returns zero velocities and unchanged poses.',
        'Trusted: python ast, AVN interpreter and primitive table, opaque contracts for the branchy '
        'trigonometric joint-frame helpers and the trailing joint-coordinate read-back (momentum does '
        'not depend on them), finite intermediate values.  Not decided: rest over more than one step and for the positional 2-dof '
        'kernel; multi-body contact averaging; conservation to round-off as a number.  Known finding D11 (known_findings.json): '
        'the rest clause fails on the pinned tree for a hinge-THEN-slide stack in the spring pipeline; that rule instance prints '
        'KNOWN-FINDING, every other instance is enforced.',
        'algebraic value numbering of the whole step, decided by random interpretation in GF(p)',
        'DESIGN.md §3 C04')

  claim('C15', 'other',
        'Static equivalence with the stated reference transition: EpisodeWrapper, AutoResetWrapper, '
        'EvalWrapper and the composite training.wrap (batch of two) are abstractly interpreted from '
        'their AST over a scripted symbolic environment whose observations, rewards, states and '
        'termination flags are uninterpreted functions of the previous observation and the action; '
        'reward sum over action_repeat 1-3 chained sub-steps, time-limit done/truncation with '
        'symbolic episode_length, counter restart, snapshot restore exactly on done, first-episode-'
        'only evaluation metrics, wrapper order, and acting\'s transition/key chaining all equal the '
        'reference as normal forms -- for every termination pattern at once.',
        'Trusted: python ast, AVN normal form, lax.scan/where/tree_map semantics, reference '
        'transition B.4.  The history-level statement follows from the per-step transition by the '
        'induction in specs/c15.md; it is not enumerated.',
        'algebraic value numbering over a scripted symbolic environment vs reference transition',
        'DESIGN.md §3 C15')

  claim('C17', 'other',
        'Static finite-state exploration: Queue / UniformSamplingQueue / PmapWrapper / PjitWrapper are '
        'abstractly interpreted from their AST (constructors, host-side check_can_* bookkeeping, '
        'device-side *_internal transitions) with symbolic records and concrete cursor values; from '
        'init every reachable abstract state (modulo renaming of records by age) under insert k / '
        'sample is generated until closure and compared, with every returned batch and refusal, to '
        'the reference bounded FIFO; sharded wrappers against per-shard queues with shard-major '
        'interleaving; uniform sampling index range and key threading by provenance.  Exhaustive in '
        'operation sequences (any length) for each instantiated capacity/batch/mode.',
        'Trusted: python ast, AVN interpreter, semantics of roll / dynamic_update_slice (clamped '
        'start) / take(mode=wrap) / lax.cond / ravel_pytree; pmap and pjit modelled as an '
        'independent map over the device axis.  Capacities 1-5, batches 1-4, 2-4 shards '
        'instantiated; device placement not decided.',
        'finite-state exploration of the queue control state by abstract interpretation of the AST',
        'DESIGN.md §3 C17')

  claim('C10', 'other',
        'Static equivalence / non-interference for the brax part of contact detection: contact.get is '
        'abstractly interpreted with mjx.make_data / mjx.collision opaque; the geom world poses it '
        'hands to the collision routine equal link pose (world = appended identity at index -1) '
        'composed with the geom offset, link attribution is (geom_bodyid[geom1]-1, geom_bodyid[geom2]-1) '
        'in order, elasticity is the mean, None iff no contact pairs; local_to_global equals Transform '
        'composition (polynomial law); and a random-interpretation dependency check shows that world '
        'contacts never read or move the last link in the three contact consumers.',
        'Trusted: python ast, AVN normal form, mjx.collision computes dist / normal / position from the '
        'geom poses it is given (external code).  Not decided: closed-form signed distances and normals.',
        'algebraic value numbering with opaque collision routine + dependency (non-interference) check',
        'DESIGN.md §3 C10')

  claim('C07', 'other',
        'Static relational check by algebraic value numbering: training.wrap (VmapWrapper or the '
        'domain-randomisation wrapper, then Episode and AutoReset) is abstractly interpreted over a '
        'scripted symbolic environment for a batch of three members with independent symbolic '
        'termination flags and per-member randomised systems, and for every member alone; all '
        'member outputs after reset and several steps are identical normal forms in the two runs '
        '(for every termination schedule at once).  Structural rules fix the vmap lifting sites '
        'and in_axes, and exclude collectives, ignored axis arguments, PRNG re-wrapping, trace '
        'introspection (branching on tracer vs concrete values) and Python-side state in mapped code.',
        'Trusted: python ast, AVN normal form, jax.vmap = independent elementwise application.  Not '
        'decided: jit-vs-eager numeric agreement (XLA); independence inside the physics pipelines '
        'rests on vmap semantics plus R7.3.',
        'relational (batched vs solo) algebraic value numbering + lifting-site and effect rules',
        'DESIGN.md §3 C07')

  claim('C01', 'other',
        'Static equivalence with an independent reference implementation: the AST of '
        'kinematics.forward (with the real scan.py regrouping, stacked-joint accumulation, anchor '
        'handling and the world() recursion) is abstractly interpreted on symbolic kinematic forests '
        '(world-attached and free roots, chains, branches, sibling orders, 1-3 joint stacks with '
        'non-orthogonal axes, rotated bodies, offset anchors) and compared with reference kinematics '
        'written from MuJoCo\'s definition (own quaternion algebra); link positions and orientations '
        'for every link, world linear and angular velocities for links attached by free / single '
        'hinge / single slide joints at the link origin.  Equality of the rational functions of all '
        'model parameters, q and qd is decided by random interpretation in GF(2^61-1) with unit '
        'quaternions / axes by construction.  The kinematic description the loader builds (link frames, joint '
        'anchors, dof axes, tree) equals the reference built from the mjModel (load_model abstractly executed).',
        'Trusted: python ast, AVN interpreter, reference kinematics braxlint/refkin.py, normalize '
        'contract.  The MuJoCo binary is not run; velocities of stacked / offset-anchor links are the '
        'documented upstream limitation and are not claimed.',
        'algebraic value numbering vs independent reference kinematics, decided by random interpretation',
        'DESIGN.md §3 C01')

  claim('C08', 'other',
        'Static law check: forward, world_to_joint and inverse (with link_to_joint_frame, '
        'axis_angle_ang, orthogonals and scan.py) are abstractly interpreted from their AST on '
        'symbolic models and composed; the composition returns the input joint positions for free '
        'links, single hinge / slide joints (arbitrary axes, offset anchors), slide-only stacks and '
        'slides followed by one hinge (orthogonal axes, either handedness), and the joint velocities '
        'for free links and single hinges -- an identity decided by random interpretation with unit '
        'quaternions / axes by construction and sqrt(x)^2 = x.  With the kinematics functions '
        'opaque, the q, qd (and j, jd, a_p, a_c) reported by spring / positional init and step are '
        'shown to be computed from exactly the link poses stored in the same state.',
        'Trusted: python ast, AVN interpreter, arctan2(K sin t, K cos t) = t for K > 0 inside the Euler '
        'chart, modular square root as the positive norm.  Not decided: the middle Euler angle of 2-3 '
        'hinge stacks (arccos * sign); prismatic / stacked velocity round trip (documented upstream limitation).',
        'composed algebraic value numbering (round-trip law) by random interpretation + opaque-callee provenance',
        'DESIGN.md §3 C08')

  claim('C02', 'other',
        'Static equivalence with independent first-principles references: the generalized pipeline\'s '
        'joint-space inertia matrix (composite rigid body), bias force (recursive Newton-Euler), '
        'passive and smooth force and one contact-free step are obtained by abstract interpretation '
        'of the AST (kinematics.forward, State.init, transform_com, mass.matrix, dynamics.*, '
        'integrator.integrate, pipeline.step, real scan.py) on symbolic models with rotated bodies, '
        'offset anchors and centres of mass, armature, hinge / slide / free joints and mixed joint '
        'stacks in chains, branches and forests, and compared with (1) the polarised kinetic energy, (2) Newton-Euler '
        'projected on the joint-space Jacobians (Coriolis + centrifugal + gravity), (3) the spring-'
        'damper law, (4) semi-implicit Euler with implicit joint damping incl. quaternion integration; '
        'equality of the rational functions of all parameters, q, qd, tau is decided by random '
        'interpretation in GF(2^61-1).',
        'Trusted: python ast, AVN interpreter, reference dynamics braxlint/refkin.py, exact linear solve. '
        'Free, single-joint and stacked (mixed hinge / slide, up to 3 per link) links instantiated on '
        'forests of <= 5 links; the MuJoCo binary is not run; positive definiteness '
        'follows from the kinetic-energy form.',
        'algebraic value numbering vs first-principles reference dynamics, decided by random interpretation',
        'DESIGN.md §3 C02')

  claim('C05', 'other',
        'Static relational check: pipeline.init and pipeline.step of all three native pipelines (whole '
        'programs incl. kinematics, com, scan.py regrouping, joints / dynamics / mass matrix / '
        'integrators and the world_to_joint / inverse read-back) are abstractly interpreted from their '
        'AST on symbolic free-rooted, contact-free models twice and compared field by field: (R5.1) the '
        'run on the rigidly moved scene (root pose, root linear velocity and gravity moved by a unit '
        'quaternion by construction and a symbolic translation) equals the moved run -- link poses '
        'G o x, velocities R xd, root coordinates moved, every non-root joint coordinate and velocity '
        'unchanged; (R5.2) the run on the same model with its links listed in another topological '
        'order equals the permuted run; (R5.3) the run on two merged models equals the two separate '
        'runs (generalized pipeline with the exact mass-matrix inverse).  Identities of rational '
        'functions of all model parameters, coordinates, velocities, joint forces, gravity and the '
        'transform, decided by random interpretation in GF(2^61-1).',
        'Trusted: python ast, AVN interpreter, unit quaternions / axes by construction, square roots '
        'and inverse-trig / comparison helpers as uninterpreted atoms keyed by the images of their '
        'arguments (equal results iff invariant arguments).  Contact-free scenes; joint limits '
        'instantiated for spring / positional only; actuation as a symbolic joint-space force on '
        'non-root dofs (to_tau itself: C11); <= 5 links, 1-2 steps; armature / damping only on hinge / '
        'slide dofs (per-axis values on a free joint are not a frame-independent model).',
        'relational (two-run) algebraic value numbering of whole pipelines, decided by random interpretation',
        'DESIGN.md §3 C05')

  claim('C12', 'other',
        'Static consistency check of the generalized integrator by forward-mode differentiation in the '
        'abstract domain: generalized.pipeline.init / step are abstractly interpreted from their AST on '
        'symbolic conservative models (no damping / limits / actuators / contacts; joint springs, '
        'armature, rotated bodies, offset anchors and centres of mass, joint stacks; world-attached and '
        'free-floating) with the time step a dual number dt = 0 + eps over GF(2^61-1), so the returned '
        'state carries its exact first-order coefficient in dt; the first-principles total mechanical '
        'energy of the returned state (kinetic energy of all bodies + armature, gravitational and '
        'spring potential, from braxlint/refkin.py -- not from brax\'s mass matrix) has a vanishing '
        'first-order coefficient, and a free-floating model\'s total linear momentum has first-order '
        'coefficient M_total g, as identities in all model parameters, q and qd.  A local error of '
        'O(dt^2) per step is necessary and sufficient for the drift over a fixed horizon to vanish '
        'with dt.',
        'Trusted: python ast, AVN interpreter, dual-number arithmetic, reference energy / momentum, the '
        'convergence theorem for one-step methods.  Not decided: the measured drift ratio over dt, dt/2, '
        'dt/4 (a numeric consequence); <= 4 links instantiated.  The order of the velocity / position '
        'update is not part of this property (explicit Euler also drifts O(dt)); it is decided by C02 R2.4.',
        'abstract interpretation with dual numbers (forward-mode AD in GF(p)) + random interpretation',
        'DESIGN.md §3 C12')
