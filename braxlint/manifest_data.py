"""Per-property manifest metadata (claims are added as checks are built)."""

PENDING = {}


def register(claim):
  claim('C14', 'other',
        'Static rule check deciding, for every model, the guard structure of model validation: '
        'validate_model is called first on every path of the three native pipeline.init '
        'functions; each of the 18 declared-unsupported features has a raise whose canonical '
        'path condition (over the whole model field) is the stated one; link-type alphabet, '
        'width and dispatch tables agree; loader fields are built from the reference mjModel '
        'sources.  A test can only sample models; the rule quantifies over all of them.',
        'Trusted: python ast, the predicate normaliser, MuJoCo mjModel field semantics, the '
        'reference tables in /verif/specs/c14_*.json.  Not decided: behaviour of MuJoCo\'s own '
        'XML compiler; numeric content of loaded arrays.',
        'must-call path rule + finite-domain guard table + def-use provenance table', 'DESIGN.md §3 C14')
