"""Shared helpers for [AVN] obligations: symbolic structs, helper contracts, comparison."""
import numpy as np

from braxlint import avn
from braxlint.avn import (Interp, Poly, Rat, Struct, asarr, elemwise, fn, keyof, same, symarr, uf,
                          P_cross, P_norm, P_zeros)

B = 'brax.base'
MA = 'brax.math'


def sym(name):
  return Rat(Poly.sym(name))


def T(n, batch=()):
  return Struct('Transform', {'pos': symarr(n + 'p', batch + (3,)), 'rot': symarr(n + 'q', batch + (4,))})


def M(n, batch=(), cls='Motion'):
  return Struct(cls, {'ang': symarr(n + 'w', batch + (3,)), 'vel': symarr(n + 'v', batch + (3,))})


def _all_zero(x):
  return all(Rat.lift(v).n == avn.Poly() for v in asarr(x).ravel())


def c_normalize(x, axis=None):
  """Contract of math.normalize: (x / |x|, |x|); the zero vector maps to (0, 0) as in the code
  (x / (0 + 1e-6) = 0).  The epsilon guard itself is decided by C03 R3.4."""
  if _all_zero(x):
    return asarr(x) * 0, Rat.lift(0)
  n = P_norm(x)
  return asarr(x) / n, n


def c_safe_norm(x, axis=None):
  if _all_zero(x):
    return Rat.lift(0)
  return P_norm(x)


def new_interp(repo=None, contracts=True, reset=True):
  """reset=False keeps the atom table (and with it the images tied to atoms, e.g. the sines / cosines of
  refkin.tie_angle) -- for a second interpreter inside one random-interpretation session."""
  if repo is not None:
    avn.set_repo(repo)
  if reset:
    avn.reset_atoms()
  I = Interp()
  if contracts:
    I.contracts[(MA, 'normalize')] = c_normalize
    I.contracts[(MA, 'safe_norm')] = c_safe_norm
  return I


def leaves(I, v):
  return [x for l in I.leaves(v) for x in asarr(l).ravel()]


def diff_report(a, b, limit=3):
  """Human-readable difference of two normal-form values (first differing entries)."""
  out = []

  def rec(path, x, y):
    if len(out) >= limit:
      return
    if isinstance(x, Struct) and isinstance(y, Struct):
      for k in x.f:
        rec(path + '.' + k, x.f[k], y.f.get(k))
      return
    if isinstance(x, (tuple, list)) and isinstance(y, (tuple, list)) and not isinstance(x, np.ndarray):
      if len(x) != len(y):
        out.append('%s: length %d vs %d' % (path, len(x), len(y)))
        return
      for i, (p, q) in enumerate(zip(x, y)):
        rec('%s[%d]' % (path, i), p, q)
      return
    if x is None or y is None:
      if x is not y:
        out.append('%s: %r vs %r' % (path, x, y))
      return
    try:
      xa, ya = asarr(x), asarr(y)
    except Exception:  # pylint: disable=broad-except
      out.append('%s: incomparable %s vs %s' % (path, type(x).__name__, type(y).__name__))
      return
    if xa.shape != ya.shape:
      out.append('%s: shape %s vs %s' % (path, xa.shape, ya.shape))
      return
    for idx in np.ndindex(*xa.shape):
      p, q = Rat.lift(xa[idx]), Rat.lift(ya[idx])
      if not p.same(q):
        d = p - q
        out.append('%s%s: code - reference = %r' % (path, list(idx) if idx else '', d.n)[:400])
        if len(out) >= limit:
          return

  rec('', a, b)
  return '; '.join(out) if out else 'equal'


def obligation(rep, rule, key, thunk, where=None, construct=''):
  """Run an AVN equality obligation: thunk returns (lhs, rhs)."""
  lhs, rhs = thunk()
  if same(lhs, rhs):
    rep.ok(rule, key, construct=construct, where=where)
    return True
  rep.fail(rule, key, 'normal forms differ: ' + diff_report(lhs, rhs), where=where,
           construct=construct)
  return False


def fn_where(U, qname):
  f = U.func(qname)
  return f.where()
