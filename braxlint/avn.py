"""[AVN] algebraic value numbering: an abstract interpreter over rational-function
normal forms (polynomials with Fraction coefficients, uninterpreted atoms for
non-polynomial primitives) for brax's straight-line (staged) fragment.

Never imports brax/jax; it reads the AST of /repo.  A branch on an abstract value, an
unmodelled primitive or statement raises OutOfFragment (an AnalysisError: exit 2, never
a verdict).  Two expressions have the same normal form iff they are equal as
polynomials, i.e. for all real inputs (DESIGN.md section 1.2)."""
import ast, os, sys, itertools, hashlib, math as pymath
from fractions import Fraction
import numpy as np

from braxlint.universe import AnalysisError, default_repo

REPO = [None]

def set_repo(path):
    if REPO[0] != path:
        MODS.clear()
    REPO[0] = path

_MJ_ENUM = {}
CALL_STACK = []
SINGULAR = []
NAMEDTUPLES = set()
_PROTO = [0]
# numeric constants of the MuJoCo C API (mjmodel.h)
_MJ_NUM = {'mujoco.mjMINVAL': 1e-15, 'mujoco.mjPI': 3.14159265358979323846, 'mujoco.mjMAXVAL': 1e10, 'mujoco.mjMINMU': 1e-5,
           'mujoco.mjMINIMP': 0.0001, 'mujoco.mjMAXIMP': 0.9999, 'mujoco.mjNREF': 2, 'mujoco.mjNIMP': 5}


def _mujoco_enum(full):
    """Integer value of a MuJoCo enum member (mujoco.mjtTrn.mjTRN_JOINT, ...), read from the installed library's
    constant table (no brax code is imported)."""
    if full not in _MJ_ENUM:
        val = None
        try:
            import importlib
            m = importlib.import_module('mujoco')
            _, enum, member = full.split('.')
            val = int(getattr(getattr(m, enum), member))
        except Exception:  # pylint: disable=broad-except
            val = None
        _MJ_ENUM[full] = val
    return _MJ_ENUM[full]


def _own_body_nodes(fnode):
    """Nodes of a function body, not descending into nested function / class definitions."""
    stack = [x for x in fnode.body if not isinstance(x, (ast.FunctionDef, ast.AsyncFunctionDef, ast.ClassDef))]
    while stack:
        n = stack.pop()
        yield n
        for c in ast.iter_child_nodes(n):
            if not isinstance(c, (ast.FunctionDef, ast.AsyncFunctionDef, ast.Lambda, ast.ClassDef)):
                stack.append(c)


class OutOfFragment(AnalysisError):
    pass
OPAQUE_DIV = [False]

# ----------------------------------------------------------------- polynomials
_ORD = {}

def _ord(name):
    """Process-wide interned rank of a symbol name (canonical monomial order)."""
    r = _ORD.get(name)
    if r is None:
        r = _ORD[name] = len(_ORD)
    return r

class Atom:
    """Interned name of an uninterpreted / boolean atom: identity equality, cached hash."""
    __slots__ = ('key', 'kind', 'h')
    def __init__(self, key):
        self.key, self.kind, self.h = key, key[0], hash(key)
    def __hash__(self):
        return self.h
    def __eq__(self, o):
        return self is o
    def __ne__(self, o):
        return self is not o
    def __getitem__(self, i):
        return self.key[i]
    def __len__(self):
        return len(self.key)
    def __iter__(self):
        return iter(self.key)
    def __repr__(self):
        return self.describe(2)
    def describe(self, depth=2):
        """Bounded-depth rendering, e.g. [cd_0 < 0], wide#12, sqrt(...)."""
        def show_key(k, d):
            if isinstance(k, Atom):
                return k.describe(d)
            if isinstance(k, tuple) and k and k[0] == 'p':
                if d <= 0:
                    return '...'
                terms = []
                for mono, c in k[1][:3]:
                    ms = '*'.join((show_key(n, d - 1) if isinstance(n, Atom) else str(n)) + ('^%d' % e if e > 1 else '') for n, e in mono)
                    terms.append(('%s*' % c if c != 1 and ms else (str(c) if not ms else '')) + ms)
                return ' + '.join(terms) + (' + ...' if len(k[1]) > 3 else '') or '0'
            if isinstance(k, tuple) and k and k[0] in ('r', 'arr', 't', 's'):
                return k[0] + '(...)'
            if isinstance(k, tuple) and k and k[0] == 'c':
                return str(k[1])
            return str(k)[:40]
        if self.kind == 'bool':
            if len(self.key) == 4 and self.key[1] in ('<', '=='):
                return '[%s %s %s]' % (show_key(self.key[2], depth), self.key[1], show_key(self.key[3], depth))
            return '[%s#%d]' % (self.key[1], _ord(self))
        if self.kind == 'wide':
            return 'wide#%d' % _ord(self)
        if self.kind == 'lit':
            return str(self.key[1])
        if depth <= 0:
            return '%s#%d' % (self.kind, _ord(self))
        return '%s(%s)' % (self.kind, ', '.join(show_key(k, depth - 1) for k in self.key[1:]))

ATOM_TABLE = {}

def intern_atom(key):
    if isinstance(key, Atom):
        return key
    a = ATOM_TABLE.get(key)
    if a is None:
        a = ATOM_TABLE[key] = Atom(key)
    return a

def _sqrt_const(atom):
    """c if atom is sqrt(c) with c a rational constant, else None."""
    k = atom.key[1] if len(atom.key) == 2 else None
    if isinstance(k, tuple) and len(k) == 2 and k[0] == 'p':
        if not k[1]:
            return Fraction(0)
        if len(k[1]) == 1 and k[1][0][0] == ():
            return k[1][0][1]
    return None

def _is_bool_name(n):
    return isinstance(n, Atom) and n.kind == 'bool'

_FP_P = (1 << 61) - 1
_FP_VAL = {}

def _fp_val(name, salt):
    v = _FP_VAL.get((name, salt))
    if v is None:
        import random as _r
        import hashlib as _h
        r = _r.Random(int(_h.sha1(('%s|%d' % (repr(name) if not isinstance(name, Atom) else repr(name.key), salt)).encode()).hexdigest(), 16))
        v = _FP_VAL[(name, salt)] = r.randrange(2) if _is_bool_name(name) else r.randrange(1, _FP_P)
    return v

def _fingerprint(poly, salt):
    """Image of a polynomial in GF(2^61-1) with every symbol / atom an independent variable (boolean atoms 0/1: the
    idempotence axiom of __mul__ holds in the image); None when a sqrt(const) atom occurs (its axiom needs a root)."""
    tot = 0
    for k, v in poly.t.items():
        m = v.numerator % _FP_P * pow(v.denominator % _FP_P, _FP_P - 2, _FP_P) % _FP_P
        for n, e in k:
            if isinstance(n, Atom) and n.kind == 'sqrt' and _sqrt_const(n) is not None:
                return None
            m = m * pow(_fp_val(n, salt), e, _FP_P) % _FP_P
        tot = (tot + m) % _FP_P
    return tot

class Poly:
    __slots__ = ('t',)
    def __init__(self, t=None):
        self.t = {k: v for k, v in (t or {}).items() if v != 0}
    @staticmethod
    def const(c):
        return Poly({(): Fraction(c)})
    @staticmethod
    def sym(name):
        if isinstance(name, tuple):
            name = intern_atom(name)
        return Poly({((name, 1),): Fraction(1)})
    def is_const(self):
        return all(k == () for k in self.t)
    def constval(self):
        return self.t.get((), Fraction(0))
    def __add__(self, o):
        t = dict(self.t)
        for k, v in o.t.items():
            t[k] = t.get(k, 0) + v
        return Poly(t)
    def __neg__(self):
        return Poly({k: -v for k, v in self.t.items()})
    def __sub__(self, o):
        return self + (-o)
    def __mul__(self, o):
        t = {}
        for k1, v1 in self.t.items():
            for k2, v2 in o.t.items():
                if not k1:
                    k = k2
                elif not k2:
                    k = k1
                else:
                    d = dict(k1)
                    for n, e in k2:
                        d[n] = d.get(n, 0) + e
                    # idempotent boolean atoms
                    k = tuple(sorted(((n, 1 if _is_bool_name(n) else e) for n, e in d.items()), key=lambda x: _ord(x[0])))
                c12 = v1 * v2
                if any(e >= 2 and isinstance(n, Atom) and n.kind == 'sqrt' for n, e in k):
                    # axiom sqrt(c)^2 = c for constant c
                    k2 = []
                    for n, e in k:
                        cst = _sqrt_const(n) if isinstance(n, Atom) and n.kind == 'sqrt' and e >= 2 else None
                        if cst is not None:
                            c12 = c12 * cst ** (e // 2)
                            if e % 2:
                                k2.append((n, 1))
                        else:
                            k2.append((n, e))
                    k = tuple(k2)
                t[k] = t.get(k, 0) + c12
        return Poly(t)
    def __eq__(self, o):
        return self.t == o.t
    def __hash__(self):
        return hash(frozenset(self.t.items()))
    def key(self):
        return tuple(sorted(self.t.items(), key=lambda kv: tuple((_ord(n), e) for n, e in kv[0])))
    def __repr__(self):
        if not self.t:
            return '0'
        out = []
        for k, v in sorted(self.t.items(), key=repr)[:6]:
            out.append(('%s*' % v if v != 1 or not k else '') + '*'.join(('%s^%d' % (n, e) if e > 1 else str(n)) for n, e in k))
        return ' + '.join(out) + (' + ...(%d)' % len(self.t) if len(self.t) > 6 else '')

# ---------------------------------------------------------------------------------------
# Random interpretation (Gulwani & Necula, POPL 2003): the same abstract interpreter can carry,
# instead of an expanded rational function, its image under a random evaluation homomorphism
# into GF(p) (every input symbol and every uninterpreted atom is mapped to a random field
# element, atoms consistently by the images of their arguments; boolean atoms to 0/1, or to the
# value a scenario oracle fixes).  Ring operations commute with the homomorphism, so an identity
# that holds as polynomials holds in the image ALWAYS (no false alarm, whatever the code shape
# or size), and one that does not hold is caught with probability >= 1 - deg/p per trial.  No
# polynomial is expanded, so whole pipeline steps cost seconds.  Nothing of brax/jax is executed:
# the "inputs" are not physical states but the random point of the homomorphism.
PREDICATE_KINDS = ('bool', 'isnan', 'isinf', 'isfinite', 'any', 'all', 'allclose')
FIELD = {'on': False, 'p': (1 << 61) - 1, 'vals': {}, 'rng': None, 'decide': None, 'bool_default': None}
_ONE = None   # set below (Poly.const(1))


_P61 = (1 << 61) - 1


class Dual:
    """a + b*eps in GF(p)[eps]/(eps^2): first-order automatic differentiation of the abstract program
    with respect to the symbols listed in FIELD['dual'] (forward mode, exact in the field)."""
    __slots__ = ('a', 'b')
    def __init__(self, a, b=0):
        self.a, self.b = a % _P61, b % _P61
    @staticmethod
    def of(x):
        return x if isinstance(x, Dual) else Dual(x, 0)
    def __add__(self, o):
        if isinstance(o, Germ):
            return NotImplemented
        o = Dual.of(o)
        return Dual(self.a + o.a, self.b + o.b)
    __radd__ = __add__
    def __neg__(self):
        return Dual(-self.a, -self.b)
    def __sub__(self, o):
        if isinstance(o, Germ):
            return NotImplemented
        return self + (-Dual.of(o))
    def __rsub__(self, o):
        return Dual.of(o) + (-self)
    def __mul__(self, o):
        if isinstance(o, Germ):
            return NotImplemented
        o = Dual.of(o)
        return Dual(self.a * o.a, self.a * o.b + self.b * o.a)
    __rmul__ = __mul__
    def __mod__(self, m):
        return self
    def inv(self):
        if self.a == 0:
            raise OutOfFragment('division by a value that vanishes at the expansion point (dual part only)')
        ia = pow(self.a, _P61 - 2, _P61)
        return Dual(ia, -self.b * ia * ia)
    def __pow__(self, k, mod=None):
        r, base, k = Dual(1, 0), self, int(k)
        while k:
            if k & 1:
                r = r * base
            base = base * base
            k >>= 1
        return r
    def __eq__(self, o):
        o = Dual.of(o) if isinstance(o, (int, Dual)) else None
        return o is not None and self.a == o.a and self.b == o.b
    def __ne__(self, o):
        return not self.__eq__(o)
    def __hash__(self):
        return hash((self.a, self.b)) if self.b else hash(self.a)
    def __repr__(self):
        return '%d+%d*eps' % (self.a, self.b)


def _c_add(a, b):
    r = a + b
    return r if isinstance(r, Dual) else r % _P61


def _c_mul(a, b):
    r = a * b
    return r if isinstance(r, Dual) else r % _P61


def _c_zero(a):
    return (a.a == 0 and a.b == 0) if isinstance(a, Dual) else a % _P61 == 0


def _c_inv(a):
    if isinstance(a, Dual):
        return a.inv()
    if a % _P61 == 0:
        raise OutOfFragment('germ: division by zero coefficient')
    return pow(a % _P61, _P61 - 2, _P61)


_GERM_INF = 10 ** 9


class Germ:
    """eta^k (c[0] + c[1] eta + ...) + O(eta^prec): a value known as a truncated Laurent series in a formal
    infinitesimal eta, with coefficients in GF(p) (or GF(p)[eps]/(eps^2), class Dual).  The positive numeric literals
    not larger than FIELD['eta'] (the code's epsilon guards, 1e-6 .. 1e-10) are read as c * eta, so that
    x / (|x| + 1e-8) at x = 0 + eps v is (v / 1e-8) eps eta^-1 and sin(dt 1e-8 / 2) is (dt 1e-8 / 2) eta - ...: the limit
    eta -> 0 of the result is the behaviour of the program for a vanishing guard, exactly."""
    __slots__ = ('k', 'c', 'prec')
    TERMS = 5

    def __init__(self, k, c, prec=_GERM_INF):
        c = list(c)
        while c and _c_zero(c[0]):
            c.pop(0)
            k += 1
        if prec < _GERM_INF:
            c = c[:max(prec - k, 0)]
        else:
            while c and _c_zero(c[-1]):
                c.pop()
            if len(c) > Germ.TERMS:
                c, prec = c[:Germ.TERMS], k + Germ.TERMS
        if not c and prec >= _GERM_INF:
            k = 0
        self.k, self.c, self.prec = k, tuple(c), prec

    @staticmethod
    def of(x):
        return x if isinstance(x, Germ) else Germ(0, (x,))

    def plain(self):
        """The ordinary value if the series is exactly one (no eta), else self."""
        if self.prec >= _GERM_INF:
            if not self.c:
                return 0
            if self.k == 0 and len(self.c) == 1:
                return self.c[0]
        return self

    def coeff(self, order):
        i = order - self.k
        if order >= self.prec:
            raise OutOfFragment('germ: coefficient of eta^%d is beyond the truncation order' % order)
        return self.c[i] if 0 <= i < len(self.c) else 0

    def __add__(self, o):
        o = Germ.of(o)
        prec = min(self.prec, o.prec)
        k = min(self.k if self.c else o.k, o.k if o.c else self.k)
        hi = max(self.k + len(self.c), o.k + len(o.c))
        if prec < _GERM_INF:
            hi = min(hi, prec)
        return Germ(k, [_c_add(self._at(j), o._at(j)) for j in range(k, hi)], prec).plain()
    __radd__ = __add__

    def _at(self, order):
        i = order - self.k
        return self.c[i] if 0 <= i < len(self.c) else 0

    def __neg__(self):
        return Germ(self.k, [-x if isinstance(x, Dual) else (-x) % _P61 for x in self.c], self.prec)

    def __sub__(self, o):
        return self + (-Germ.of(o))

    def __rsub__(self, o):
        return Germ.of(o) + (-self)

    def __mul__(self, o):
        o = Germ.of(o)
        if not self.c and self.prec >= _GERM_INF or not o.c and o.prec >= _GERM_INF:
            return 0
        prec = min(self.k + o.prec if o.prec < _GERM_INF else _GERM_INF, o.k + self.prec if self.prec < _GERM_INF else _GERM_INF)
        k = self.k + o.k
        n = len(self.c) + len(o.c) - 1
        out = [0] * max(n, 0)
        for i, a in enumerate(self.c):
            for j, b in enumerate(o.c):
                out[i + j] = _c_add(out[i + j], _c_mul(a, b))
        return Germ(k, out, prec).plain()
    __rmul__ = __mul__

    def __mod__(self, m):
        return self

    def inv(self):
        if not self.c:
            raise OutOfFragment('germ: division by a value that vanishes to the truncation order')
        n = len(self.c) if self.prec < _GERM_INF else Germ.TERMS
        i0 = _c_inv(self.c[0])
        # (c0 (1 + u))^-1 = c0^-1 (1 - u + u^2 - ...), u = sum_{j>=1} (c_j / c0) eta^j
        u = [_c_mul(x, i0) for x in self.c[1:]]
        r = [1] + [0] * (n - 1)
        for m in range(1, n):
            acc = 0
            for j in range(1, m + 1):
                if j - 1 < len(u):
                    acc = _c_add(acc, _c_mul(u[j - 1], r[m - j]))
            r[m] = -acc if isinstance(acc, Dual) else (-acc) % _P61
        exact = self.prec >= _GERM_INF and len(self.c) == 1
        return Germ(-self.k, [_c_mul(i0, x) for x in r], _GERM_INF if exact else -self.k + n).plain()

    def __pow__(self, e, mod=None):
        r, base, e = 1, self, int(e)
        while e:
            if e & 1:
                r = r * base
            base = base * base
            e >>= 1
        return r

    def __eq__(self, o):
        if isinstance(o, (int, Dual)):
            o = Germ.of(o)
        if not isinstance(o, Germ):
            return False
        return self.k == o.k and self.c == o.c and self.prec == o.prec or (not self.c and not o.c and self.prec == o.prec)

    def __ne__(self, o):
        return not self.__eq__(o)

    def __hash__(self):
        return hash((self.k, self.c, self.prec))

    def __repr__(self):
        return 'eta^%d%r+O(%s)' % (self.k, self.c, self.prec if self.prec < _GERM_INF else 'inf')

    def standard(self):
        """The limit eta -> 0 (the value must be finite and known to order 0)."""
        if self.c and self.k < 0:
            raise OutOfFragment('germ: the value diverges as the guard vanishes (order eta^%d)' % self.k)
        if self.prec <= 0:
            raise OutOfFragment('germ: the value is not known to order eta^0')
        return self._at(0)


def _germ_trig(name, g):
    """sin / cos of an INFINITESIMAL germ (order >= 1) by its Taylor series."""
    if g.c and g.k < 1:
        raise OutOfFragment('germ: %s of a non-infinitesimal series' % name)
    x2 = g * g
    term = g if name == 'sin' else 1
    tot = term
    n = 1 if name == 'sin' else 0
    for _ in range(Germ.TERMS):
        n += 2
        term = -(term * x2) if isinstance(term * x2, (Germ, Dual)) else (-(term * x2)) % _P61
        term = term * _c_inv(n * (n - 1) % _P61)
        if isinstance(term, Germ) and not term.c:
            break
        if not isinstance(term, Germ) and _c_zero(term):
            break
        tot = tot + term
    return tot


def _germ_sqrt(g):
    if not g.c or g.k % 2:
        raise OutOfFragment('germ: square root of a series of odd or unknown order')
    c0 = g.c[0]
    r0 = field_sqrt(Rat._f(c0)).fv
    if isinstance(r0, Germ) or Rat._f(r0).n == Poly():
        raise OutOfFragment('germ: square root of a vanishing leading coefficient')
    # sqrt(c0 (1 + u)) = sqrt(c0) (1 + u/2 - u^2/8 + u^3/16 - 5u^4/128)
    u = Germ(g.k, g.c, g.prec) * Germ(-g.k, (_c_inv(c0),)) - 1
    half = _c_inv(2)
    coefs = [half, (-_c_inv(8)) % _P61, _c_inv(16), (-5 * _c_inv(128)) % _P61]
    tot, pw = 1, 1
    for cf in coefs:
        pw = pw * u
        if not isinstance(pw, Germ) and _c_zero(pw):
            break
        tot = tot + pw * cf
    return Germ(g.k // 2, (r0,)) * tot


def dual_parts(v):
    """(value, derivative) images of an AVN value in field mode."""
    fv = Rat.lift(v).fv
    return (fv.a, fv.b) if isinstance(fv, Dual) else (fv, 0)


def field_mode(seed=0, decide=None, bool_default=None):
    """Switch the value domain to GF(p) images.  bool_default fixes the image of every boolean atom
    the scenario oracle leaves undecided (1 = every undecided gate open, 0 = closed, None = random)."""
    import random
    FIELD['on'] = True
    FIELD['bool_default'] = bool_default
    FIELD['sqrt_axiom'] = False
    FIELD['vals'] = {}
    FIELD['rng'] = random.Random(0xB8A5 ^ (seed * 2654435761 & 0xFFFFFFFF))
    FIELD['seed'] = seed
    FIELD['decide'] = decide
    FIELD['dual'] = {}
    FIELD['eta'] = None
    FIELD['trig'] = {}


def exact_mode():
    del ANGLES[:]
    FIELD['on'] = False
    FIELD['vals'] = {}
    FIELD['decide'] = None


# uninterpreted functions whose images are re-drawn by FIELD['soft_salt']: a FAILING random-interpretation trial whose
# outcome changes with the salt depends on a value the interpreter does not model, and is no verdict
SALTED_KINDS = ('sqrt', 'arccos', 'arcsin', 'arctan', 'arctan2', 'clip', 'sign', 'abs', 'min', 'max', 'floor')


class IntegerTruncation(Exception):
    """The analysed program stores a real-valued quantity into an integer-typed array."""


class NonResidue(Exception):
    """A square root of a non-residue was requested: retry the trial with another random point."""


def field_sqrt(x):
    """sqrt with the axiom sqrt(x)^2 = x in GF(p), p = 3 mod 4 (only when FIELD['sqrt_axiom'] is set)."""
    x = Rat.lift(x)
    if not FIELD.get('sqrt_axiom'):
        return uf('sqrt', x)
    p = FIELD['p']
    if isinstance(x.fv, Germ):
        return Rat._f(_germ_sqrt(x.fv))
    if isinstance(x.fv, Dual):
        a, b = x.fv.a, x.fv.b
        r = pow(a, (p + 1) // 4, p)
        if r * r % p != a:
            if FIELD['sqrt_axiom'] == 'soft':
                # no root at this point: an arbitrary (but fixed) value and derivative -- see the plain case below
                FIELD['soft_hits'] = FIELD.get('soft_hits', 0) + 1
                h = int.from_bytes(hashlib.blake2b(('%d|sqrtdual|%d|%d|%d' % (FIELD['seed'], a, b, FIELD.get('soft_salt', 0))).encode(),
                                                   digest_size=16).digest(), 'big')
                return Rat._f(Dual(2 + h % (p - 3), 2 + (h >> 64) % (p - 3)))
            raise NonResidue()
        r = min(r, p - r)
        if r == 0:
            raise OutOfFragment('sqrt of a value that vanishes at the expansion point')
        return Rat._f(Dual(r, b * pow(2 * r, p - 2, p)))
    r = pow(x.fv, (p + 1) // 4, p)
    if r * r % p != x.fv:
        if FIELD['sqrt_axiom'] == 'soft':
            # no root at this point: the value stays an uninterpreted function of its argument (weaker, never wrong
            # for a law that HOLDS); the caller retries a FAILING trial that met such a point
            FIELD['soft_hits'] = FIELD.get('soft_hits', 0) + 1
            return uf('sqrt', x)
        raise NonResidue()
    return Rat._f(min(r, p - r))


def _finv(a):
    p = FIELD['p']
    if isinstance(a, Germ):
        return a.inv()
    if isinstance(a, Dual):
        if a.b == 0:
            a = a.a
        else:
            return a.inv()
    a %= p
    if a == 0:
        raise OutOfFragment('division by a zero image in GF(p) (degenerate random point or 0/0 in the code)')
    return pow(a, p - 2, p)


def _fval_name(name):
    v = FIELD['vals'].get(name)
    if v is None and FIELD.get('dual') and name in FIELD['dual']:
        v = FIELD['vals'][name] = FIELD['dual'][name]
    if v is None:
        d = FIELD['decide'](name) if FIELD['decide'] is not None and isinstance(name, Atom) else None
        # the image is a function of (seed, name) only -- independent of evaluation order
        salt = FIELD.get('soft_salt', 0) if isinstance(name, Atom) and name.kind in SALTED_KINDS else 0
        h = int.from_bytes(hashlib.blake2b(('%d|%r%s' % (FIELD['seed'], name.key if isinstance(name, Atom) else name,
                                                         '|salt%d' % salt if salt else '')).encode(),
                                           digest_size=16).digest(), 'big')
        if d is not None:
            v = int(d)
        elif isinstance(name, Atom) and name.kind in PREDICATE_KINDS:
            v = (h & 1) if FIELD['bool_default'] is None else FIELD['bool_default']
        else:
            v = 2 + h % (FIELD['p'] - 3)
        FIELD['vals'][name] = v
    return v


def _fval_frac(c):
    p = FIELD['p']
    c = Fraction(c)
    if FIELD.get('eta') and 0 < abs(c) <= FIELD['eta']:
        return Germ(1, ((c.numerator % p) * pow(c.denominator % p, p - 2, p) % p,))
    return (c.numerator % p) * _finv(c.denominator) % p


def _peval(poly):
    p = FIELD['p']
    tot = 0
    for mono, c in poly.t.items():
        t = _fval_frac(c)
        for name, e in mono:
            t = t * pow(_fval_name(name), e, p) % p
        tot = (tot + t) % p
    return tot


class Rat:
    """Value of the AVN domain.  Exact mode: rational function num/den (den kept un-reduced,
    equality by cross-multiplication).  Field mode: image in GF(p) (`fv`) plus the exact value
    `cv` when the value is a literal constant (needed for shapes, indices, static branches)."""
    __slots__ = ('n', 'd', 'fv', 'cv')
    def __init__(self, n, d=None):
        if FIELD['on']:
            den = d if d is not None else None
            self.cv = None
            if n.is_const() and (den is None or den.is_const()):
                dv = den.constval() if den is not None else 1
                if dv != 0:
                    self.cv = n.constval() / dv
            fn_ = _peval(n)
            if den is not None:
                fn_ = fn_ * _finv(_peval(den)) % FIELD['p']
            self._set_f(fn_)
        else:
            self.n = n
            self.d = d if d is not None else Poly.const(1)
            self.fv = None
            self.cv = None
    def _set_f(self, v):
        if isinstance(v, Germ):
            v = v.plain()
        if isinstance(v, Dual):
            v = v if v.b else v.a
        self.fv = v % FIELD['p']
        if self.fv == 0 and self.cv is None:
            self.cv = Fraction(0)     # an identically vanishing value is the constant 0 (as in exact mode)
        elif self.fv == 1 and self.cv is None:
            self.cv = Fraction(1)     # image 1 <=> identically 1 (w.h.p.): lets sqrt(|unit|^2) fold to 1
        # compatibility for zero tests written against the exact representation
        self.n = Poly() if self.fv == 0 else _ONE
        self.d = _ONE
    @staticmethod
    def _f(v, cv=None):
        r = Rat.__new__(Rat)
        r.cv = cv
        r._set_f(v)
        return r
    @staticmethod
    def lift(o):
        if isinstance(o, Rat):
            return o
        if isinstance(o, Poly):
            return Rat(o)
        if isinstance(o, bool):
            return Rat(Poly.const(int(o)))
        if isinstance(o, (int, Fraction)):
            return Rat(Poly.const(o))
        if isinstance(o, float):
            if o != o or o in (float('inf'), float('-inf')):
                return Rat(Poly.sym(('lit', repr(o))))
            return Rat(Poly.const(exact(o)))
        if isinstance(o, np.generic):
            return Rat.lift(o.item())
        raise OutOfFragment('cannot lift %r' % type(o))
    def _bin(self, o):
        if isinstance(o, np.ndarray):
            return None
        return Rat.lift(o)
    def __add__(self, o):
        o = self._bin(o)
        if o is None:
            return NotImplemented
        if self.fv is not None:
            return Rat._f(self.fv + o.fv, self.cv + o.cv if self.cv is not None and o.cv is not None else None)
        if self.d == o.d:
            return Rat(self.n + o.n, self.d)
        return Rat(self.n * o.d + o.n * self.d, self.d * o.d)
    __radd__ = __add__
    def __neg__(self):
        if self.fv is not None:
            return Rat._f(-self.fv, -self.cv if self.cv is not None else None)
        return Rat(-self.n, self.d)
    def __sub__(self, o):
        o = self._bin(o)
        if o is None:
            return NotImplemented
        return self + (-o)
    def __rsub__(self, o):
        return Rat.lift(o) - self
    def __mul__(self, o):
        o = self._bin(o)
        if o is None:
            return NotImplemented
        if self.fv is not None:
            return Rat._f(self.fv * o.fv, self.cv * o.cv if self.cv is not None and o.cv is not None else None)
        if not self.n.t or not o.n.t:
            # IEEE arithmetic on the non-finite literals: 0 * inf = 0 * nan = nan (a selection written as a product with a
            # 0/1 mask is NOT a selection when the payload may be non-finite)
            other = o if not self.n.t else self
            if any(isinstance(nm, Atom) and nm.kind == 'lit' for mono in other.n.t for nm, _ in mono):
                return Rat(Poly.sym(('lit', 'nan')))
        return Rat(self.n * o.n, self.d * o.d)
    __rmul__ = __mul__
    def __truediv__(self, o):
        o = self._bin(o)
        if o is None:
            return NotImplemented
        if self.fv is not None:
            if o.fv == 0:
                if self.fv == 0 or o.cv is None:
                    raise OutOfFragment('division by a zero image in GF(p)')
                return Rat.lift(float('inf'))
            return Rat._f(self.fv * _finv(o.fv),
                          self.cv / o.cv if self.cv is not None and o.cv not in (None, 0) else None)
        if OPAQUE_DIV[0] and not o.is_const():
            return self * uf('inv', o)
        if o.n == Poly():
            raise OutOfFragment('division by an identically zero value')
        return Rat(self.n * o.d, self.d * o.n)
    def __rtruediv__(self, o):
        return Rat.lift(o) / self
    def __pow__(self, k):
        if isinstance(k, Rat) and k.is_const():
            k = k.constval()
        if isinstance(k, (int, Fraction)) and k == int(k) and int(k) >= 0:
            if self.fv is not None:
                return Rat._f(pow(self.fv, int(k), FIELD['p']), self.cv ** int(k) if self.cv is not None else None)
            r = Rat(Poly.const(1))
            for _ in range(int(k)):
                r = r * self
            return r
        return uf('pow', self, k)
    def is_const(self):
        if self.fv is not None:
            return self.cv is not None
        return self.n.is_const() and self.d.is_const()
    def constval(self):
        if self.fv is not None:
            return self.cv
        return self.n.constval() / self.d.constval()
    def is_zero(self):
        if self.fv is not None:
            return self.fv == 0
        return self.n == Poly()
    def same(self, o):
        o = Rat.lift(o)
        if self.fv is not None:
            return self.fv == o.fv
        if self.d == o.d:
            return self.n == o.n
        # cheap refutation first: images under a few fixed evaluation homomorphisms that respect the axioms of the domain
        # (boolean atoms -> 0/1).  Different images => different values (sound); equal images => decided exactly below
        if len(self.n.t) * len(o.d.t) + len(o.n.t) * len(self.d.t) > 64:
            for salt in range(3):
                a, b, c, d = (_fingerprint(x, salt) for x in (self.n, o.d, o.n, self.d))
                if None in (a, b, c, d):
                    break
                if a * b % _FP_P != c * d % _FP_P:
                    return False
        return self.n * o.d == o.n * self.d
    def key(self):
        if self.fv is not None:
            if self.cv is not None:
                return ('p', Poly.const(self.cv).key())
            return ('F', self.fv)
        # canonical-ish key: if denominator constant, fold it
        if self.d.is_const():
            c = self.d.constval()
            return ('p', Poly({k: v / c for k, v in self.n.t.items()}).key())
        return ('r', self.n.key(), self.d.key())
    def __repr__(self):
        if self.fv is not None:
            return ('%s' % self.cv) if self.cv is not None else 'F(%s)' % (self.fv,)
        return repr(self.n) if self.d == Poly.const(1) else '(%r)/(%r)' % (self.n, self.d)
    # comparisons produce boolean atoms
    def _cmp(self, op, o):
        o = Rat.lift(o)
        if self.is_const() and o.is_const():
            a, b = self.constval(), o.constval()
            return {'<': a < b, '<=': a <= b, '>': a > b, '>=': a >= b, '==': a == b, '!=': a != b}[op]
        # canonical atoms are '<' and '==': a>b = b<a, a<=b = not(b<a), a>=b = not(a<b)
        if op == '>':
            return o._cmp('<', self)
        if op == '>=':
            return Rat.lift(1) - self._cmp('<', o)
        if op == '<=':
            return Rat.lift(1) - o._cmp('<', self)
        ka, kb = self.key(), o.key()
        if op in ('<', '==', '!=') and ka == kb:
            return {'<': False, '==': True, '!=': False}[op]      # x < x, x == x: decided whatever x is
        k = atom_key('bool', (op, self, o), (op, ka, kb))
        return Rat(Poly.sym(k))
    def __lt__(self, o): return self._cmp('<', o)
    def __le__(self, o): return self._cmp('<=', o)
    def __gt__(self, o): return self._cmp('>', o)
    def __ge__(self, o): return self._cmp('>=', o)

_ONE = Poly.const(1)

def exact(x):
    """Literal -> exact rational (decimal literals mean their decimal value)."""
    if isinstance(x, Fraction):
        return x
    if isinstance(x, bool):
        return Fraction(int(x))
    if isinstance(x, int):
        return Fraction(x)
    return Fraction(x).limit_denominator(10 ** 15) if abs(x) > 1e-15 or x == 0 else Fraction(x)

def keyof(v):
    if isinstance(v, Rat):
        return v.key()
    if isinstance(v, np.ndarray):
        return ('arr', v.shape, tuple(keyof(x) for x in v.ravel()))
    if isinstance(v, (int, float, Fraction)) and not isinstance(v, bool):
        return Rat.lift(v).key()
    if isinstance(v, np.generic):
        return keyof(v.item())
    if isinstance(v, (str, bool, type(None))):
        return ('c', repr(v))
    if isinstance(v, (tuple, list)):
        return ('t', tuple(keyof(x) for x in v))
    if isinstance(v, Struct):
        return ('s', v.cls, tuple((k, keyof(x)) for k, x in v.f.items()))
    raise OutOfFragment('keyof %r' % type(v))

# Uninterpreted atoms are identified modulo equality of their argument normal forms
# (congruence): keys of rational functions with non-constant denominators are not
# canonical, so such arguments are compared by cross-multiplication against the atoms
# already created with the same operator.
ATOMS = {}
ATOM_INDEX = set()
ATOM_ARGS = {}     # atom key -> (operator name, argument values) for substitution inside atoms

def reset_atoms():
    # a new session: module-level mutable globals of the analysed program (caches, registries) start empty again; WITHIN
    # a session they persist across interpreters, as they do across calls in one process
    for m_ in MODS.values():
        m_.pop('globals', None)
    ATOMS.clear()
    ATOM_INDEX.clear()
    ATOM_ARGS.clear()
    ATOM_TABLE.clear()
    _ORD.clear()

def _noncanon(a):
    if FIELD['on']:
        return False
    if isinstance(a, Rat):
        return not a.d.is_const()
    if isinstance(a, np.ndarray) and a.dtype == object:
        return any(isinstance(x, Rat) and not x.d.is_const() for x in a.ravel())
    if isinstance(a, (tuple, list)):
        return any(_noncanon(x) for x in a)
    return False

def _val_same(a, b):
    try:
        if isinstance(a, (Rat, np.ndarray)) or isinstance(b, (Rat, np.ndarray)):
            return same(a, b)
        return keyof(a) == keyof(b)
    except OutOfFragment:
        return False

def atom_key(name, args, keys=None):
    keys = keys if keys is not None else tuple(keyof(a) for a in args)
    k = (name,) + keys
    a = ATOM_TABLE.get(k)
    if a is not None and a in ATOM_INDEX:
        return a
    slot = ATOMS.setdefault((name, len(args)), [])
    if name != 'wide' and any(_noncanon(x) for x in args):
        for args2, k2 in slot:
            if all(_val_same(x, y) for x, y in zip(args, args2)):
                return k2
    a = intern_atom(k)
    slot.append((args, a))
    ATOM_INDEX.add(a)
    ATOM_ARGS[a] = (name, args)
    return a

def uf(name, *args):
    if name == 'clip' and len(args) == 3:
        # ONE representation for the three spellings clip(x, lo, hi) = minimum(maximum(x, lo), hi) (jnp.clip's definition):
        # min / max atoms with sorted arguments; a missing bound is the string 'None'
        v, lo, hi = args
        r = Rat.lift(v)
        if not isinstance(lo, str):
            r = _minmax('max', r, lo)
        if not isinstance(hi, str):
            r = _minmax('min', r, hi)
        return r
    if FIELD['on'] and FIELD.get('eta'):
        dep = [a for a in args if isinstance(a, Rat) and isinstance(a.fv, Germ)]
        if dep:
            if name in ('sin', 'cos') and len(args) == 1:
                return Rat._f(_germ_trig(name, args[0].fv))
            if name == 'sqrt' and len(args) == 1:
                return Rat._f(_germ_sqrt(args[0].fv))
            if name not in PREDICATE_KINDS:
                raise OutOfFragment('germ mode: uninterpreted %s of a value that depends on the vanishing guard' % name)
    if FIELD['on'] and FIELD.get('dual'):
        dep = [a for a in args if isinstance(a, Rat) and isinstance(a.fv, Dual)]
        if dep:
            if name in ('sin', 'cos') and len(args) == 1:
                return _dual_trig(name, args[0])
            if name not in PREDICATE_KINDS:
                raise OutOfFragment('dual mode: uninterpreted %s of a value that depends on the differentiation variable' % name)
    return Rat(Poly.sym(atom_key(name, args)))


def _dual_trig(name, x):
    """sin / cos of a + b eps where sin(a), cos(a) are known: registered by refkin.tie_angle, or a = 0."""
    a, b = x.fv.a, x.fv.b
    if a == 0:
        sc = (0, 1)
    else:
        sc = FIELD['trig'].get(a)
        if sc is None:
            # an angle nobody tied (e.g. the "rotation" of a prismatic joint about its zero axis): its sine and
            # cosine are the uninterpreted atoms of the base point, differentiated by sin' = cos, cos' = -sin
            base = Rat._f(a)
            sc = (Rat(Poly.sym(atom_key('sin', (base,)))).fv, Rat(Poly.sym(atom_key('cos', (base,)))).fv)
    s_, c_ = sc
    return Rat._f(Dual(s_, b * c_)) if name == 'sin' else Rat._f(Dual(c_, -b * s_))

def widen_poly(p, w):
    """p = sum_G (prod G) * p_G over the distinct sets G of boolean atoms; each group p_G with more
    than w monomials becomes one `wide` atom keyed by its canonical polynomial key.  The decision
    is per group, so gated additions never change how the ungated part is represented."""
    if len(p.t) <= w:
        return p
    groups = {}
    for mono, c in p.t.items():
        g = tuple(x for x in mono if _is_bool_name(x[0]))
        rest = tuple(x for x in mono if not _is_bool_name(x[0]))
        groups.setdefault(g, {})[rest] = c
    out = Poly()
    for g, t in groups.items():
        pg = Poly(t)
        if len(pg.t) > w:
            # normalise the scalar content so that c*X and -X widen to multiples of one atom
            lead = min(pg.t, key=lambda m: tuple((_ord(n), e) for n, e in m))
            c = pg.t[lead]
            pg = Poly({(): c}) * uf('wide', Rat(Poly({m: v / c for m, v in pg.t.items()}))).n
        out = out + Poly({g: Fraction(1)}) * pg
    return out

def symarr(name, shape):
    a = np.empty(shape, dtype=object)
    for idx in np.ndindex(*shape):
        a[idx] = Rat(Poly.sym(name + ''.join('_%d' % i for i in idx)))
    return a

def asarr(x):
    if isinstance(x, np.ndarray):
        return x
    if isinstance(x, (list, tuple)):
        return np.array([asarr(i).tolist() if isinstance(i, np.ndarray) else (asarr(i).tolist() if isinstance(i, (list, tuple)) else Rat.lift(i)) for i in x], dtype=object)
    a = np.empty((), dtype=object)
    a[()] = Rat.lift(x)
    return a

def elemwise(fn, *arrs):
    arrs = [asarr(a) for a in arrs]
    bs = np.broadcast(*arrs)
    out = np.empty(bs.shape, dtype=object)
    out.flat = [fn(*vals) for vals in bs]
    return out if out.shape else out[()]

# ----------------------------------------------------------------- structs
class HostObj:
    """Marker for host-side Python objects handed to the interpreted program (mock ElementTree elements, numeric
    strings): attribute access and method calls go to the real object."""


class NumStr(HostObj):
    """A string that spells numbers (an XML attribute such as pos="1 0 0.5"): the interpreter carries the VALUES it
    spells (exact or symbolic) instead of characters, through '%f' % x, ' '.join(...), .split(' ') and
    np.fromstring(..., sep=' ')."""
    def __init__(self, vals):
        self.vals = list(vals)
    def split(self, sep=None, maxsplit=-1):
        return [NumStr([v]) for v in self.vals]
    def strip(self, *a):
        return self._strip(a[0] if a else None, 'b')
    def rstrip(self, *a):
        return self._strip(a[0] if a else None, 'r')
    def lstrip(self, *a):
        return self._strip(a[0] if a else None, 'l')
    def _strip(self, chars, side):
        """str.strip / rstrip / lstrip(chars) of a '%f'-formatted number: a spelled constant is stripped as Python strips
        its text (and re-read: '10.000000'.rstrip('0.') spells 1); a symbolic value is generic -- removing insignificant
        zeros / points / blanks does not change what it spells."""
        if chars is None or not chars.strip():
            return self
        if set(chars) - set('0. \t\n+'):
            raise OutOfFragment('NumStr.strip(%r)' % chars)
        out = []
        for v in self.vals:
            r = Rat.lift(v)
            if not r.is_const():
                out.append(v); continue
            txt = '%f' % float(r.constval())
            t2 = {'r': txt.rstrip, 'l': txt.lstrip, 'b': txt.strip}[side](chars)
            if t2 == txt:
                out.append(v); continue
            if t2 in ('', '-', '+'):
                if t2 == '':
                    continue               # the empty string (falsy: `... or '0'`)
                raise OutOfFragment('NumStr.strip leaves %r' % t2)
            new = Fraction(t2)
            out.append(v if new == Fraction(txt) else Rat.lift(new))
        return NumStr(out)
    def __bool__(self):
        return len(self.vals) > 0
    def __len__(self):
        return len(self.vals)
    def __repr__(self):
        return 'NumStr(%r)' % (self.vals,)


class Struct:
    def __init__(self, cls, fields, home=None):
        self.cls, self.f, self.home = cls, dict(fields), home
    def __repr__(self):
        return '%s(%s)' % (self.cls, ', '.join(self.f))

class Closure:
    def __init__(self, node, env, mod, name=None, bound=None, owner=None):
        self.node, self.env, self.mod, self.name, self.bound, self.owner = node, env, mod, name, bound, owner

class Vmapped:
    def __init__(self, fn, in_axes=0, out_axes=0, axis_name=None):
        self.fn, self.in_axes, self.out_axes, self.axis_name = fn, in_axes, out_axes, axis_name

class Partial:
    def __init__(self, fn, args, kw):
        self.fn, self.args, self.kw = fn, args, kw

class VmapProxy:
    def __init__(self, recv, axes):
        self.recv, self.axes = recv, axes

class ModRef:
    def __init__(self, name):
        self.name = name

class ClsRef:
    def __init__(self, mod, node):
        self.mod, self.node = mod, node

class _Continue(Exception):
    pass


class _Break(Exception):
    pass


class Ret(Exception):
    def __init__(self, v):
        self.v = v

# ----------------------------------------------------------------- modules
MODS = {}
def load(mod):
    if mod in MODS:
        return MODS[mod]
    root = REPO[0] or default_repo()
    path = os.path.join(root, mod.replace('.', '/') + '.py')
    if not os.path.exists(path):
        path = os.path.join(root, mod.replace('.', '/'), '__init__.py')
    return _index_module(mod, ast.parse(open(path).read()))


def register_source(mod, source):
    """A synthetic module of the ANALYSER (e.g. a scripted environment class), interpreted like repository code."""
    return _index_module(mod, ast.parse(source))


def _index_module(mod, tree):
    m = {'tree': tree, 'defs': {}, 'alias': {}, 'classes': {}, 'dispatch': {}, 'consts': {}}
    for n in tree.body:
        if isinstance(n, ast.FunctionDef):
            reg = None
            for d in n.decorator_list:
                if isinstance(d, ast.Call) and isinstance(d.func, ast.Attribute) and d.func.attr == 'register' and isinstance(d.func.value, ast.Name) and d.args and isinstance(d.args[0], ast.Name):
                    reg = (d.func.value.id, d.args[0].id)
            if reg:
                m['dispatch'][reg] = n
                continue
            m['defs'][n.name] = n
        elif isinstance(n, ast.ClassDef):
            m['classes'][n.name] = n
        elif isinstance(n, ast.Import):
            for a in n.names:
                m['alias'][a.asname or a.name.split('.')[0]] = a.name if a.asname else a.name.split('.')[0]
        elif isinstance(n, ast.ImportFrom) and n.module:
            for a in n.names:
                m['alias'][a.asname or a.name] = n.module + '.' + a.name
        elif isinstance(n, ast.Assign) and len(n.targets) == 1 and isinstance(n.targets[0], ast.Name):
            m['consts'][n.targets[0].id] = n.value
        elif isinstance(n, ast.AnnAssign) and isinstance(n.target, ast.Name) and n.value is not None:
            m['consts'][n.target.id] = n.value
    MODS[mod] = m
    return m

def class_fields(mod, cname, seen=None):
    m = load(mod)
    c = m['classes'][cname]
    fields = []
    for b in c.bases:
        bn = ast.unparse(b)
        if bn in m['classes']:
            fields += class_fields(mod, bn)
        elif bn.split('.')[-1] in ('State',) and bn.startswith('base.'):
            fields += class_fields('brax.base', 'State')
    for s in c.body:
        if isinstance(s, ast.AnnAssign) and isinstance(s.target, ast.Name):
            fields.append(s.target.id)
    return fields

_STATIC_FIELDS = {}


def static_fields(mod, cname):
    """Fields of a flax.struct dataclass declared with struct.field(pytree_node=False): auxiliary data, not
    pytree leaves (jax.tree.map leaves them alone)."""
    key = (mod, cname)
    if key not in _STATIC_FIELDS:
        out = set()
        try:
            c = load(mod)['classes'].get(cname)
        except Exception:  # pylint: disable=broad-except
            c = None
        if c is not None:
            for s in c.body:
                if isinstance(s, ast.AnnAssign) and isinstance(s.target, ast.Name) and isinstance(s.value, ast.Call):
                    for k in s.value.keywords:
                        if k.arg == 'pytree_node' and isinstance(k.value, ast.Constant) and k.value.value is False:
                            out.add(s.target.id)
        _STATIC_FIELDS[key] = out
    return _STATIC_FIELDS[key]


def find_method(mod, cname, attr, skip_self=False):
    """(module, FunctionDef, owner class name) following base classes by name."""
    m = load(mod)
    c = m['classes'].get(cname)
    first = True
    while c is not None:
        if not (first and skip_self):
            for s in c.body:
                if isinstance(s, ast.FunctionDef) and s.name == attr:
                    return mod, s, c.name
        first = False
        nxt = None
        for b in c.bases:
            if isinstance(b, ast.Subscript):     # Generic[...] parameterisation
                b = b.value
            bn = ast.unparse(b)
            if bn in m['classes']:
                nxt = m['classes'][bn]
                break
            if '.' in bn:
                head, _, tail = bn.rpartition('.')
                tgt = m['alias'].get(head)
                if tgt and tgt.startswith('brax'):
                    try:
                        return find_method(tgt, tail, attr)
                    except (FileNotFoundError, OSError):
                        pass
            elif bn in m['alias'] and m['alias'][bn].startswith('brax'):
                bm, _, bc = m['alias'][bn].rpartition('.')
                try:
                    return find_method(bm, bc, attr)
                except (FileNotFoundError, OSError):
                    pass
        c = nxt
    return None

def is_property(node):
    return any(isinstance(d, ast.Name) and d.id == 'property' for d in node.decorator_list)

STRUCT_HOME = {'Transform': 'brax.base', 'Motion': 'brax.base', 'Force': 'brax.base', 'Inertia': 'brax.base', 'Actuator': 'brax.base',
               'Link': 'brax.base', 'DoF': 'brax.base', 'Contact': 'brax.base', 'System': 'brax.base'}

# ----------------------------------------------------------------- jax/numpy primitives
def P_dot(a, b):
    return np.dot(asarr(a), asarr(b))
def P_cross(a, b):
    a, b = asarr(a), asarr(b)
    if a.ndim == 1 and b.ndim == 1:
        return np.array([a[1] * b[2] - a[2] * b[1], a[2] * b[0] - a[0] * b[2], a[0] * b[1] - a[1] * b[0]], dtype=object)
    shp = np.broadcast_shapes(a.shape, b.shape)
    a, b = np.broadcast_to(a, shp), np.broadcast_to(b, shp)
    return np.array([P_cross(x, y).tolist() for x, y in zip(a, b)], dtype=object)
EXPAND_CLIP = [False]

def P_clip(x, lo=None, hi=None, **kw):
    lo = kw.get('min', kw.get('a_min', lo)); hi = kw.get('max', kw.get('a_max', hi))
    def one(v, l, h):
        rv, rl, rh = Rat.lift(v), (None if isinstance(l, str) else Rat.lift(l)), (None if isinstance(h, str) else Rat.lift(h))
        if rv.is_const() and (rl is None or rl.is_const()) and (rh is None or rh.is_const()):
            c = rv.constval()
            if rl is not None:
                c = max(c, rl.constval())
            if rh is not None:
                c = min(c, rh.constval())
            return Rat.lift(c)
        return uf('clip', v, l, h)
    if EXPAND_CLIP[0] and lo is not None and hi is not None:
        # piecewise form (valid for lo <= hi): x + [x<lo](lo-x) + [hi<x](hi-x); EXPAND_CLIP[0] may be a set of bound
        # keys: only clips against those bounds are expanded, the others stay uninterpreted
        only = EXPAND_CLIP[0] if isinstance(EXPAND_CLIP[0], (set, frozenset)) else None
        def pw(v, l, h):
            v, l, h = Rat.lift(v), Rat.lift(l), Rat.lift(h)
            if only is not None and l.key() not in only and h.key() not in only:
                return one(v, l, h)
            return v + v._cmp('<', l) * (l - v) + h._cmp('<', v) * (h - v)
        return elemwise(pw, x, lo, hi)
    return elemwise(one, x, lo if lo is not None else 'None', hi if hi is not None else 'None') if not (isinstance(lo, str) or isinstance(hi, str)) else elemwise(lambda v: one(v, lo, hi), x)
def P_where(c, a, b):
    def w(c, a, b):
        c, a, b = Rat.lift(c), Rat.lift(a), Rat.lift(b)
        if c.is_const():
            return a if c.constval() != 0 else b
        return c * a + (Rat.lift(1) - c) * b    # boolean atom: where = c*a + (1-c)*b
    return elemwise(w, c, a, b)
_UNARY_CONST = {('exp', 0): 1, ('sin', 0): 0, ('cos', 0): 1, ('tanh', 0): 0, ('log', 1): 0, ('sqrt', 0): 0,
                ('sqrt', 1): 1, ('arctanh', 0): 0, ('tan', 0): 0, ('arcsin', 0): 0, ('arctan', 0): 0}

def _keepdims(r, axis, keepdims):
    if not keepdims or axis is None:
        return r
    return np.expand_dims(asarr(r), toint(axis) if not isinstance(axis, (int, tuple)) else axis)

def _round_dec(x, decimals=0):
    """np.round(x, k): exact on constants; on symbolic reals k >= 6 is the precision '%f' already has (the domain carries
    the spelled VALUE, not its characters: identity), coarser rounding is an uninterpreted atom."""
    k = toint(decimals) if not isinstance(decimals, int) else decimals
    def one(v):
        r = Rat.lift(v)
        if r.is_const():
            c = r.constval()
            if k >= 6:
                return r                   # exact reals: finer than anything the analysed geometry distinguishes
            q = Fraction(10) ** k
            return Rat.lift(Fraction(round(c * q)) / q)
        if k >= 6:
            return r
        return uf('round', v) if k == 0 else uf('round_dec', v, k)
    return elemwise(one, x)

def unary(name):
    def one(v):
        r = Rat.lift(v)
        if r.is_const():
            c = r.constval()
            if (name, c) in _UNARY_CONST:
                return Rat.lift(_UNARY_CONST[(name, c)])
            if name == 'abs':
                return Rat.lift(abs(c))
            if name == 'sign':
                return Rat.lift((c > 0) - (c < 0))
        if name == 'sqrt' and FIELD['on']:
            return field_sqrt(r)
        return uf(name, v)
    return lambda x, *a, **k: elemwise(one, x)
def P_sum(x, axis=None, **kw):
    x = asarr(x)
    if isinstance(axis, range):
        axis = tuple(axis)
    return x.sum(axis=axis)
def P_concatenate(xs, axis=0):
    return np.concatenate([asarr(x) for x in xs], axis=axis)
def _is_bool_dtype(dtype):
    return dtype is bool or dtype == ('builtin', 'bool') or (isinstance(dtype, tuple) and len(dtype) == 2 and dtype[0] == 'dtype' and dtype[1] == 'bool')


def P_zeros(shape, dtype=None):
    if isinstance(shape, int):
        shape = (shape,)
    if _is_bool_dtype(dtype):
        return np.zeros(tuple(shape), dtype=bool)          # a host-side boolean mask: native, so that `@`, `|`, `~` are boolean
    a = np.empty(tuple(shape), dtype=object); a.fill(Rat.lift(0)); return a
def P_ones(shape, dtype=None):
    if isinstance(shape, int):
        shape = (shape,)
    if _is_bool_dtype(dtype):
        return np.ones(tuple(shape), dtype=bool)
    a = np.empty(tuple(shape), dtype=object); a.fill(Rat.lift(1)); return a
def P_array(x, dtype=None):
    return asarr(x)
def P_tile(a, reps):
    return np.tile(asarr(a), reps)
def P_eye(n, M=None, k=0, **kw):
    n = int(n); m = int(M) if isinstance(M, (int, np.integer)) else n; k = int(k)
    if _is_bool_dtype(kw.get('dtype')):
        return np.eye(n, m, k, dtype=bool)
    e = np.empty((n, m), dtype=object)
    for i in range(n):
        for j in range(m):
            e[i, j] = Rat.lift(1 if j - i == k else 0)
    return e
def P_norm(x, *a, **k):
    x = asarr(x)
    s2 = Rat.lift((x * x).sum())
    if s2.is_const() and s2.constval() in (0, 1):
        return Rat.lift(s2.constval())
    if FIELD['on']:
        nz = [Rat.lift(v) for v in x.ravel() if not Rat.lift(v).is_zero()]
        if len(nz) == 1:
            # |(c, 0, .., 0)| = |c|; the branch sqrt(c^2) = c is taken (a global sign of a quaternion /
            # direction is immaterial for every quantity compared: rotations are quadratic in q)
            return nz[0]
        return field_sqrt(s2)
    return uf('sqrt', s2)
class AtProxy:
    def __init__(self, arr): self.arr = arr
class AtIdx:
    def __init__(self, arr, idx): self.arr, self.idx = arr, idx

JNP = {
    'dot': P_dot, 'cross': P_cross, 'clip': P_clip, 'where': P_where, 'sum': P_sum, 'concatenate': P_concatenate,
    'zeros': P_zeros, 'ones': P_ones, 'negative': lambda a: -asarr(a), 'subtract': lambda a, b: asarr(a) - asarr(b), 'mean': lambda x, axis=None, **k: asarr(x).sum(axis=axis) / (asarr(x).size if axis is None else int(np.prod([asarr(x).shape[i] for i in (axis if isinstance(axis, (tuple, list)) else [axis])]))), 'array': P_array, 'asarray': P_array, 'tile': P_tile, 'eye': P_eye,
    'zeros_like': lambda x, **k: P_zeros(asarr(x).shape), 'ones_like': lambda x, **k: P_ones(asarr(x).shape),
    'multiply': lambda a, b: asarr(a) * asarr(b), 'add': lambda a, b: asarr(a) + asarr(b), 'divide': lambda a, b: asarr(a) / asarr(b),
    'square': lambda a: asarr(a) * asarr(a), 'expand_dims': lambda a, ax: np.expand_dims(asarr(a), ax),
    'sin': unary('sin'), 'cos': unary('cos'), 'tanh': unary('tanh'), 'arctanh': unary('arctanh'), 'log': unary('log'), 'exp': unary('exp'), 'log1p': lambda x, *a, **k: elemwise(lambda v: unary('log')(1 + Rat.lift(v)), x), 'expm1': lambda x, *a, **k: elemwise(lambda v: unary('exp')(Rat.lift(v)) - 1, x),
    'sqrt': unary('sqrt'), 'abs': unary('abs'), 'sign': unary('sign'), 'arccos': unary('arccos'), 'arcsin': unary('arcsin'), 'arctan': unary('arctan'), 'tan': unary('tan'), 'floor': unary('floor'), 'isnan': lambda x: elemwise(lambda v: False if Rat.lift(v).is_const() else uf('isnan', v), x), 'isinf': unary('isinf'), 'isfinite': lambda x: elemwise(lambda v: True if Rat.lift(v).is_const() else uf('isfinite', v), x), 'arctan2': lambda a, b: elemwise(_arctan2, a, b), 'logical_and': lambda a, b: asarr(a) * asarr(b), 'logical_not': lambda a: 1 - asarr(a), 'logical_or': lambda a, b: asarr(a) + asarr(b) - asarr(a) * asarr(b), 'repeat': lambda a, n, axis=None: np.repeat(asarr(a), n, axis=axis), 'resize': lambda a, shape: np.resize(asarr(a), shape if isinstance(shape, tuple) else (shape,)), 'transpose': lambda a, *ax: np.transpose(asarr(a), *ax), 'outer': lambda a, b: np.outer(asarr(a), asarr(b)), 'trace': lambda a: np.trace(asarr(a)), 'full': lambda shape, v, **k: np.full(shape if isinstance(shape, tuple) else (shape,), None, dtype=object) * 0 + Rat.lift(v) if False else _full(shape, v), 'any': lambda x, axis=None, keepdims=False, **k: _keepdims(_any(x, axis), axis, keepdims), 'all': lambda x, axis=None, keepdims=False, **k: _keepdims(_all(x, axis), axis, keepdims),
    'maximum': lambda a, b: elemwise(lambda x, y: _minmax('max', x, y), a, b),
    'minimum': lambda a, b: elemwise(lambda x, y: _minmax('min', x, y), a, b),
    'roll': lambda a, shift, axis=None: np.roll(asarr(a), toint(shift), axis=axis),
    'tril': lambda a, k=0: _tri(a, k, True), 'triu': lambda a, k=0: _tri(a, k, False),
    'mod': lambda a, b: elemwise(_mod, a, b), 'remainder': lambda a, b: elemwise(_mod, a, b),
    'split': lambda x, n, axis=-1: list(np.split(asarr(x), n, axis=axis)),
    'prod': lambda x, **k: asarr(x).prod(),
    'reshape': lambda x, s: asarr(x).reshape(s),
    'squeeze': lambda x, axis=None: np.squeeze(asarr(x), axis=axis),
    'swapaxes': lambda x, a, b: np.swapaxes(asarr(x), a, b),
    'diag': lambda x: np.diag(asarr(x)) if asarr(x).ndim == 2 else diagm(asarr(x)),
    'diagonal': lambda x: np.diagonal(asarr(x)),
    'append': lambda a, b: np.append(asarr(a), asarr(b)),
    'stack': lambda xs, axis=0: np.stack([asarr(x) for x in xs], axis=axis),
    'vstack': lambda xs: np.vstack([asarr(x) for x in xs]),
    'column_stack': lambda xs: np.column_stack([asarr(x) for x in xs]),
    'take': lambda x, i, axis=None, mode=None: np.take(asarr(x), toint(i), axis=axis, mode='wrap'),
    'arange': lambda n: np.arange(n),
    'float32': lambda x: x, 'float64': lambda x: x, 'int32': lambda x: x, 'inf': float('inf'), 'inexact': ('dtypeclass', 'inexact'), 'floating': ('dtypeclass', 'inexact'), 'integer': ('dtypeclass', 'integer'),
    'issubdtype': lambda d, c: _issubdtype(d, c),
    # machine constants of the working precision (float32 unless the program asks otherwise), as exact rationals
    'result_type': lambda *a: 'float32',
    'promote_types': lambda a, b: _promote_types(a, b),
    'finfo': lambda d=None: Struct('finfo', {'eps': Rat.lift(Fraction(1, 2 ** 23)), 'epsneg': Rat.lift(Fraction(1, 2 ** 24)),
                                             'tiny': Rat.lift(Fraction(1, 2 ** 126)), 'smallest_normal': Rat.lift(Fraction(1, 2 ** 126)),
                                             'max': Rat.lift((2 - Fraction(1, 2 ** 23)) * 2 ** 127),
                                             'min': Rat.lift(-(2 - Fraction(1, 2 ** 23)) * 2 ** 127), 'bits': 32, 'dtype': 'float32'}),
    'ndarray': ('dtypeclass', 'ndarray'),
}
ANGLES = []    # field mode: (sin image, cos image, angle value) of angles known by construction

def _arctan2(y, x):
    y, x = Rat.lift(y), Rat.lift(x)
    if y.is_zero() and x.is_zero():
        # arctan2 at the origin: the value is 0 by convention, the derivative is 0/0 -- NaN in autodiff even when the result
        # is masked out afterwards (0 * NaN).  Recorded as an interpreter event (C03 R3.8)
        SINGULAR.append(('arctan2(0, 0)', tuple(CALL_STACK[-3:])))
    if FIELD['on']:
        P_ = FIELD['p']
        for S, C, th in ANGLES:
            if x.fv == C and y.fv == S:
                return th
            if x.fv == C and y.fv == (-S) % P_:
                return -th
        if FIELD.get('sqrt_axiom') and not (x.fv == 0 and y.fv == 0):
            # (y, x) = K (sin th, cos th): inside the Euler chart the common factor K (a cosine of another
            # chart angle or a squared norm) is positive, so arctan2 returns th
            for S, C, th in ANGLES:
                if (x.fv * S - y.fv * C) % P_ == 0:
                    return th
                if (x.fv * S + y.fv * C) % P_ == 0:
                    return -th
    if y.is_const() and y.constval() == 0 and x.is_const() and x.constval() > 0:
        return Rat.lift(0)
    return uf('arctan2', y, x)

def _tri(a, k, lower):
    a = asarr(a).copy()
    n, m = a.shape
    for i in range(n):
        for j in range(m):
            if (j - i > k) if lower else (j - i < k):
                a[i, j] = Rat.lift(0)
    return a

def linsolve(A, Bm):
    """Solve A X = B by fraction-free-ish Gaussian elimination over AVN values (exact or GF(p))."""
    A = asarr(A).copy(); Bm = asarr(Bm).copy()
    vec = Bm.ndim == 1
    if vec:
        Bm = Bm.reshape(-1, 1)
    n = A.shape[0]
    for c in range(n):
        piv = None
        for r in range(c, n):
            if not Rat.lift(A[r, c]).is_zero():
                piv = r; break
        if piv is None:
            raise OutOfFragment('singular matrix in linear solve')
        if piv != c:
            A[[c, piv]] = A[[piv, c]]; Bm[[c, piv]] = Bm[[piv, c]]
        inv = Rat.lift(1) / Rat.lift(A[c, c])
        A[c] = A[c] * inv; Bm[c] = Bm[c] * inv
        for r in range(n):
            if r != c and not Rat.lift(A[r, c]).is_zero():
                f_ = A[r, c]
                A[r] = A[r] - A[c] * f_; Bm[r] = Bm[r] - Bm[c] * f_
    return Bm[:, 0] if vec else Bm

def _minmax(name, x, y):
    x, y = Rat.lift(x), Rat.lift(y)
    if x.is_const() and y.is_const():
        return Rat.lift((min if name == 'min' else max)(x.constval(), y.constval()))
    return uf(name, *sorted([x, y], key=lambda r: repr(r.key())))

def _mod(a, b):
    a, b = Rat.lift(a), Rat.lift(b)
    if a.is_const() and b.is_const() and b.constval() != 0:
        return Rat.lift(a.constval() % b.constval())
    return uf('mod', a, b)

def _full(shape, v):
    if isinstance(shape, int):
        shape = (shape,)
    a = np.empty(tuple(shape), dtype=object); a.fill(Rat.lift(v) if not isinstance(v, float) or abs(v) != float('inf') else Rat.lift(v)); return a

def _concrete_bools(x):
    vals = [Rat.lift(v) for v in asarr(x).ravel()]
    if all(v.is_const() for v in vals):
        return [v.constval() != 0 for v in vals]
    return None

def _any(x, axis=None):
    x = asarr(x)
    if axis is None:
        b = _concrete_bools(x)
        if b is not None:
            return any(b)
        if x.size == 1 and _is_boolpoly(x.ravel()[0]):
            return x.ravel()[0]      # any() of a single boolean is that boolean
        return uf('any', x)
    moved = np.moveaxis(x, axis, -1)
    out = np.empty(moved.shape[:-1], dtype=object)
    for idx in np.ndindex(*moved.shape[:-1]):
        out[idx] = _any(moved[idx])
    return out

def _is_boolpoly(v):
    """A polynomial in boolean atoms only (the value of a comparison, a conjunction or a complement)."""
    r = Rat.lift(v)
    if r.fv is not None or not r.d.is_const():
        return False
    return all(all(_is_bool_name(n) for n, _ in mono) for mono in r.n.t)


def _all(x, axis=None):
    x = asarr(x)
    b = _concrete_bools(x)
    if b is not None and axis is None:
        return all(b)
    if axis is None:
        if not FIELD['on'] and x.size <= 64 and all(_is_boolpoly(v) for v in x.ravel()):
            # conjunction of boolean-valued normal forms (comparison atoms, their products / complements)
            r = Rat.lift(1)
            for v in x.ravel():
                r = r * Rat.lift(v)
            return r
        return uf('all', x)
    moved = np.moveaxis(x, axis, -1)
    out = np.empty(moved.shape[:-1], dtype=object)
    for idx in np.ndindex(*moved.shape[:-1]):
        out[idx] = _all(moved[idx])
    return out

def toint(i):
    if isinstance(i, np.ndarray) and i.size == 0:
        return i.astype(int)
    if isinstance(i, np.ndarray) and i.dtype == object:
        return np.array([int(Rat.lift(x).constval()) for x in i.ravel()]).reshape(i.shape)
    if isinstance(i, Rat):
        return int(i.constval())
    return i
def diagm(v):
    n = len(v); e = P_zeros((n, n))
    for i in range(n):
        e[i, i] = v[i]
    return e
JNP['linalg'] = {'norm': P_norm, 'solve': lambda a, b: linsolve(a, b), 'inv': lambda a: linsolve(a, P_eye(asarr(a).shape[0]))}
PI = Rat(Poly.sym('pi'))
JNP['pi'] = PI


def pi():
    """The symbol pi in the CURRENT value domain (PI above is the exact-mode value)."""
    return Rat(Poly.sym('pi'))

# ----------------------------------------------------------------- interpreter
FRAGILE_EQ = []          # (module, line, source) of executed exact-equality tests between a COMPUTED real quantity and a nonzero constant
_DISCRETE_KINDS = ('bool', 'sign', 'round', 'floor', 'ceil', 'any', 'all', 'allclose', 'isnan', 'isinf', 'isfinite', 'argmax', 'argmin')


def _fragile_eq(x, c):
    """x == c with c a NONZERO constant and x a computed continuous quantity (not a bare symbol, not a combination of
    boolean / sign / rounding atoms): in floating point such a test fails for all but exactly representable cases."""
    try:
        cs = [Rat.lift(v) for v in asarr(c).ravel()] if isinstance(c, (Rat, np.ndarray, int, float, Fraction)) and not isinstance(c, bool) else None
    except OutOfFragment:
        return False
    if not cs or not all(v.is_const() for v in cs) or all(v.constval() == 0 for v in cs):
        return False
    if not isinstance(x, (Rat, np.ndarray)) or (isinstance(x, np.ndarray) and x.dtype != object):
        return False
    for v in asarr(x).ravel():
        if not isinstance(v, Rat) or v.is_const():
            continue
        if v.fv is not None:
            fv = v.fv.a if isinstance(v.fv, Dual) else v.fv
            if isinstance(fv, Germ):
                return True
            small = min(fv % FIELD['p'], (-fv) % FIELD['p']) <= 16
            if small or fv in FIELD.get('atomic_images', ()) or fv in set(x_ for x_ in FIELD['vals'].values() if isinstance(x_, int)):
                continue
            return True
        if not v.d.is_const():
            return True
        monos = [m for m in v.n.t if m != ()]
        if len(monos) == 1 and len(monos[0]) == 1 and monos[0][0][1] == 1:
            continue                                      # a bare symbol (a configuration value, an input)
        if all(isinstance(nm, Atom) and nm.kind in _DISCRETE_KINDS for m in monos for nm, _ in m):
            continue                                      # a combination of discrete-valued atoms
        return True
    return False


COLLECTIVE_CTX = []


def _single_atom_of(r):
    r = Rat.lift(r)
    monos = [m for m in r.n.t if m != ()]
    if len(monos) != 1 or len(monos[0]) != 1:
        raise OutOfFragment('collective placeholder lost its identity')
    return monos[0][0][0]


class Interp:
    def __init__(self):
        self.calls = 0
        self.depth = 0
        self.dtypes = {}       # id(array) -> (kind, array) for non-float leaves
        self.widen_at = None   # monomial threshold for gate-preserving widening (None = off)
        self.contracts = {}    # (module, function name) -> python callable replacing the function
        self.opaque = {}       # (module, nested def name) -> python callable (cut point)

    # --- gate-preserving widening: a big value v = g * r (g = product of boolean atoms common
    # to every monomial) is replaced by g * wide(r) with wide an uninterpreted atom keyed by r's
    # normal form (same value -> same atom), so multiplicative gates and equalities between
    # identically computed values survive while sizes stay bounded.
    def widen(self, v):
        if FIELD['on']:
            return v
        if isinstance(v, Rat):
            return self._widen_rat(v)
        if isinstance(v, np.ndarray) and v.dtype == object:
            out = np.empty(v.shape, dtype=object)
            for idx in np.ndindex(*v.shape):
                out[idx] = self._widen_rat(Rat.lift(v[idx]))
            return out
        if isinstance(v, Struct):
            return Struct(v.cls, {k: self.widen(x) for k, x in v.f.items()}, home=v.home)
        if isinstance(v, tuple):
            return tuple(self.widen(x) for x in v)
        return v

    def _widen_rat(self, r):
        if len(r.n.t) <= self.widen_at and len(r.d.t) <= self.widen_at:
            return r
        return Rat(widen_poly(r.n, self.widen_at), widen_poly(r.d, self.widen_at))

    # --- lookup
    def module_global(self, m, name, modname):
        """Value of a module-level assignment, evaluated once per loaded module: a mutable module global (a cache
        dict, a registry) keeps its identity across calls and across interpreters, as it does in a process."""
        g = m.setdefault('globals', {})
        if name in g:
            return g[name]
        v = self.ev(m['consts'][name], {'v': {}, 'p': None}, modname)
        if isinstance(v, (dict, list, set)):       # only mutable containers need an identity (values are re-evaluated:
            g[name] = v                            # their representation depends on the current value domain)
        return v

    def lookup(self, name, env, mod):
        e = env
        while e is not None:
            if name in e['v']:
                return e['v'][name]
            e = e['p']
        m = load(mod)
        if name in m['defs']:
            return Closure(m['defs'][name], None, mod, name)
        if name in m['classes']:
            return ClsRef(mod, m['classes'][name])
        if name in m['alias']:
            tgt = m['alias'][name]
            return self.resolve_dotted(tgt)
        if name in m['consts']:
            return self.module_global(m, name, mod)
        if name in ('len', 'int', 'float', 'range', 'zip', 'enumerate', 'list', 'tuple', 'isinstance', 'sum', 'min', 'max', 'abs', 'str', 'dict', 'bool', 'reversed', 'sorted', 'any', 'all', 'set', 'super', 'getattr', 'hasattr'):
            return ('builtin', name)
        if name in ('map', 'filter', 'frozenset', 'divmod', 'round', 'pow', 'callable', 'slice', 'ord', 'chr', 'repr', 'iter', 'next',
                    'print', 'id', 'type', 'format', 'bytes', 'bytearray'):
            return ('builtin', name)
        if name in ('True', 'False', 'None'):
            return {'True': True, 'False': False, 'None': None}[name]
        raise OutOfFragment('unbound name %s in %s' % (name, mod))

    def resolve_dotted(self, tgt):
        if tgt in ('jax.numpy', 'numpy'):
            return ModRef('jnp')
        if tgt.startswith('jax') or tgt.startswith('flax') or tgt.startswith('numpy') or tgt in ('functools', 'typing', 'mujoco', 'jaxopt', 'abc', 'itertools', 'copy', 'math'):
            return ModRef(tgt)
        if tgt.startswith('brax'):
            # module or member
            try:
                load(tgt)
                return ModRef(tgt)
            except (FileNotFoundError, OSError):
                mod, _, member = tgt.rpartition('.')
                m = load(mod)
                if member in m['defs']:
                    return Closure(m['defs'][member], None, mod, member)
                if member in m['classes']:
                    return ClsRef(mod, m['classes'][member])
                if member in m['consts']:
                    return self.module_global(m, member, mod)
                raise OutOfFragment('cannot resolve ' + tgt)
        return ModRef(tgt)

    # --- expressions
    def ev(self, n, env, mod):
        t = type(n)
        if t is ast.Constant:
            return n.value
        if t is ast.Name:
            return self.lookup(n.id, env, mod)
        if t in (ast.Tuple, ast.List):
            out = []
            for e in n.elts:
                if isinstance(e, ast.Starred):
                    out.extend(self.ev(e.value, env, mod))
                else:
                    out.append(self.ev(e, env, mod))
            return tuple(out) if t is ast.Tuple else out
        if t is ast.Dict:
            return {self.ev(k, env, mod): self.ev(v, env, mod) for k, v in zip(n.keys, n.values)}
        if t is ast.UnaryOp:
            v = self.ev(n.operand, env, mod)
            if isinstance(n.op, ast.USub):
                return -v if not isinstance(v, Struct) else self.struct_map(lambda x: -x, v)
            if isinstance(n.op, ast.Not):
                if isinstance(v, (bool, type(None), int, str, tuple, list, dict, NumStr, set, frozenset, bytes)):
                    return not v
                return 1 - v
            if isinstance(n.op, ast.Invert):
                if isinstance(v, np.ndarray) and v.dtype == bool:
                    return ~v
                if isinstance(v, (bool, np.bool_)):
                    return not v
                return 1 - v
            if isinstance(n.op, ast.UAdd):
                return v
            raise OutOfFragment('unary')
        if t is ast.BinOp:
            return self.binop(n.op, self.ev(n.left, env, mod), self.ev(n.right, env, mod))
        if t is ast.BoolOp:
            conc = (bool, type(None), int, float, str, tuple, list, dict, Fraction)
            is_and = isinstance(n.op, ast.And)
            r = None
            for vn in n.values:
                r = self.ev(vn, env, mod)
                if isinstance(r, Rat) and r.is_const():
                    r = r.constval()
                if not isinstance(r, conc) and not (isinstance(r, tuple)) and not isinstance(r, HostObj):
                    raise OutOfFragment('bool op on abstract values')
                if is_and and not r:
                    return r
                if not is_and and r:
                    return r
            return r
        if t is ast.Compare:
            l = self.ev(n.left, env, mod)
            res = None
            for op, c in zip(n.ops, n.comparators):
                r = self.ev(c, env, mod)
                if isinstance(op, (ast.Eq, ast.NotEq)) and (_fragile_eq(l, r) or _fragile_eq(r, l)):
                    FRAGILE_EQ.append((mod, n.lineno, ast.unparse(n)))
                v = self.compare(op, l, r)
                res = v if res is None else self.binop(ast.Mult(), res, v)
                l = r
            return res
        if t is ast.IfExp:
            c = self.ev(n.test, env, mod)
            if isinstance(c, (bool, type(None), int, str, tuple, list)):
                return self.ev(n.body if c else n.orelse, env, mod)
            raise OutOfFragment('conditional expression on abstract value')
        if t is ast.Subscript:
            v = self.ev(n.value, env, mod)
            idx = self.ev_index(n.slice, env, mod)
            if isinstance(v, AtProxy):
                return AtIdx(v.arr, idx)
            if isinstance(v, dict):
                return v[idx]
            if isinstance(v, (tuple, list, str, bytes)):
                if isinstance(idx, slice):
                    c_ = lambda x: int(x.constval()) if isinstance(x, Rat) else (int(x) if isinstance(x, np.integer) else x)
                    idx = slice(c_(idx.start), c_(idx.stop), c_(idx.step))
                elif isinstance(idx, np.integer):
                    idx = int(idx)
                return v[idx]
            if isinstance(v, Struct):
                return self.struct_map(lambda x: asarr(x)[idx], v)
            return asarr(v)[idx]
        if t is ast.Attribute:
            return self.attr(self.ev(n.value, env, mod), n.attr)
        if t is ast.Lambda:
            return Closure(n, env, mod, '<lambda>')
        if t is ast.Call:
            return self.call_node(n, env, mod)
        if t is ast.ListComp or t is ast.GeneratorExp:
            return self.comp(n, env, mod)
        if t is ast.DictComp:
            out = {}
            def rec(i, e):
                if i == len(n.generators):
                    out[self.ev(n.key, e, mod)] = self.ev(n.value, e, mod); return
                g = n.generators[i]
                for item in self.ev(g.iter, e, mod):
                    e2 = {'v': {}, 'p': e}
                    self.assign(g.target, item, e2, mod)
                    if all(self.ev(c, e2, mod) for c in g.ifs):
                        rec(i + 1, e2)
            rec(0, env)
            return out
        if t is ast.JoinedStr:
            return '<fstr>'
        if t is ast.Starred:
            return self.ev(n.value, env, mod)
        if t is ast.Yield:
            e = env
            while e is not None and '__yield__' not in e['v']:
                e = e['p']
            if e is None:
                raise OutOfFragment('yield outside an interpreted generator')
            e['v']['__yield__'].append(self.ev(n.value, env, mod) if n.value is not None else None)
            return None
        raise OutOfFragment('expr %s' % t.__name__)

    def comp(self, n, env, mod):
        out = []
        def rec(i, e):
            if i == len(n.generators):
                out.append(self.ev(n.elt, e, mod)); return
            g = n.generators[i]
            for item in self.ev(g.iter, e, mod):
                e2 = {'v': {}, 'p': e}
                self.assign(g.target, item, e2, mod)
                if all(self.ev(c, e2, mod) for c in g.ifs):
                    rec(i + 1, e2)
        rec(0, env)
        return out

    def ev_index(self, s, env, mod):
        if isinstance(s, ast.Slice):
            return slice(self.ev(s.lower, env, mod) if s.lower else None, self.ev(s.upper, env, mod) if s.upper else None, self.ev(s.step, env, mod) if s.step else None)
        if isinstance(s, ast.Tuple):
            return tuple(self.ev_index(e, env, mod) for e in s.elts)
        v = self.ev(s, env, mod)
        if isinstance(v, Rat) and v.is_const():
            return int(v.constval())
        if isinstance(v, np.ndarray) and v.dtype == object:
            if all(isinstance(x, Rat) and x.is_const() for x in v.ravel()):
                return np.array([int(x.constval()) for x in v.ravel()], dtype=int).reshape(v.shape)
            raise OutOfFragment('abstract index')
        return v

    def compare(self, op, l, r):
        if isinstance(op, (ast.Is, ast.IsNot)):
            res = l is r or (l is None and r is None)
            return res if isinstance(op, ast.Is) else not res
        if isinstance(op, (ast.In, ast.NotIn)):
            res = l in r
            return res if isinstance(op, ast.In) else not res
        def native(x):
            return (isinstance(x, np.ndarray) and x.dtype != object) or isinstance(x, (bool, int, float, np.generic))
        if native(l) and native(r) and (isinstance(l, np.ndarray) or isinstance(r, np.ndarray)):
            # concrete (host-side numpy) data: an ordinary elementwise comparison, result usable as a mask
            import operator as _op
            return {ast.Eq: _op.eq, ast.NotEq: _op.ne, ast.Lt: _op.lt, ast.LtE: _op.le, ast.Gt: _op.gt, ast.GtE: _op.ge}[type(op)](l, r)
        conc = (bool, int, float, str, tuple, list, type(None))
        if isinstance(l, conc) and isinstance(r, conc):
            return {ast.Eq: l == r, ast.NotEq: l != r, ast.Lt: None, ast.LtE: None, ast.Gt: None, ast.GtE: None}.get(type(op)) if type(op) in (ast.Eq, ast.NotEq) else {ast.Lt: lambda: l < r, ast.LtE: lambda: l <= r, ast.Gt: lambda: l > r, ast.GtE: lambda: l >= r}[type(op)]()
        sym = {ast.Lt: '<', ast.LtE: '<=', ast.Gt: '>', ast.GtE: '>=', ast.Eq: '==', ast.NotEq: '!='}[type(op)]
        def c(a, b):
            a, b = Rat.lift(a), Rat.lift(b)
            if sym in ('==', '!='):
                if a.is_const() and b.is_const():
                    return (a.constval() == b.constval()) == (sym == '==')
                a, b = sorted([a, b], key=lambda r: repr(r.key()))
                at = Rat(Poly.sym(atom_key('bool', ('==', a, b), ('==', a.key(), b.key()))))
                return at if sym == '==' else 1 - at
            return a._cmp(sym, b)
        return elemwise(c, l, r)

    def binop(self, op, l, r):
        if isinstance(l, Struct) or isinstance(r, Struct):
            return self.struct_binop(op, l, r)
        if isinstance(l, (tuple, list)) and isinstance(r, (tuple, list)) and isinstance(op, ast.Add):
            return l + r
        if isinstance(l, (tuple, list)) and isinstance(r, int) and isinstance(op, ast.Mult):
            return l * r
        if isinstance(l, str) or isinstance(r, str):
            if isinstance(op, ast.Add):
                return l + r
            if isinstance(op, ast.Mod):
                if isinstance(l, str) and l.startswith('%') and l[-1] in 'fgeds' and l.count('%') == 1 and \
                        isinstance(r, (Rat, int, float, Fraction, np.generic)):
                    return NumStr([Rat.lift(r)])
                return '<fmt>'
        conc = (int, float, bool, Fraction)
        if isinstance(l, conc) and isinstance(r, conc) and not isinstance(op, ast.MatMult):
            if isinstance(l, float) or isinstance(r, float) or isinstance(l, Fraction) or isinstance(r, Fraction) or isinstance(op, ast.Div):
                # exact rational arithmetic on literals (reals, not floating point)
                finite = lambda x: not isinstance(x, float) or (x == x and abs(x) != float('inf'))
                if finite(l) and finite(r) and type(op) in (ast.Add, ast.Sub, ast.Mult, ast.Div):
                    fl, fr = exact(l), exact(r)
                    if isinstance(op, ast.Div):
                        return fl / fr if fr != 0 else float('inf')
                    return {ast.Add: fl + fr, ast.Sub: fl - fr, ast.Mult: fl * fr}[type(op)]
            return {ast.Add: lambda: l + r, ast.Sub: lambda: l - r, ast.Mult: lambda: l * r, ast.Div: lambda: l / r, ast.FloorDiv: lambda: l // r, ast.Mod: lambda: l % r, ast.Pow: lambda: l ** r, ast.BitAnd: lambda: l & r, ast.BitOr: lambda: l | r, ast.BitXor: lambda: l ^ r, ast.LShift: lambda: l << r, ast.RShift: lambda: l >> r}[type(op)]()
        if isinstance(l, (list, tuple)):
            l = asarr(l)
        if isinstance(r, (list, tuple)):
            r = asarr(r)
        if isinstance(l, conc):
            l = Rat.lift(l)
        if isinstance(r, conc):
            r = Rat.lift(r)
        if isinstance(op, ast.Add): return l + r
        if isinstance(op, ast.Sub): return l - r
        if isinstance(op, ast.Mult): return l * r
        if isinstance(op, ast.Div): return l / r
        if isinstance(op, ast.MatMult): return np.dot(asarr(l), asarr(r))
        if isinstance(op, ast.Pow):
            if isinstance(r, Rat):
                return elemwise(lambda a: a ** r, l)
            return elemwise(lambda a: Rat.lift(a) ** r, l)
        if isinstance(op, ast.BitAnd): return l * r
        if isinstance(op, ast.BitOr): return l + r - l * r
        if isinstance(op, ast.Mod):
            return elemwise(_mod, l, r)
        if isinstance(op, ast.FloorDiv):
            def fd(a, b):
                a, b = Rat.lift(a), Rat.lift(b)
                if a.is_const() and b.is_const() and b.constval() != 0:
                    return Rat.lift(a.constval() // b.constval())
                return uf('floordiv', a, b)
            return elemwise(fd, l, r)
        raise OutOfFragment('binop %s' % type(op).__name__)

    # --- structs (Base methods modelled natively: they are tree_map one-liners)
    def struct_map(self, fn, *ss):
        s0 = ss[0]
        out = {}
        for k in s0.f:
            vals = [s.f[k] for s in ss]
            if isinstance(vals[0], Struct):
                out[k] = self.struct_map(fn, *vals)
            elif isinstance(vals[0], (tuple, list)) and not isinstance(vals[0], np.ndarray):
                out[k] = type(vals[0])(fn(*xs) for xs in zip(*vals))
            elif vals[0] is None:
                out[k] = None
            else:
                out[k] = fn(*vals)
        return Struct(s0.cls, out, home=s0.home)

    def struct_binop(self, op, l, r):
        if isinstance(l, Struct) and isinstance(r, Struct):
            if isinstance(op, ast.Add): return self.struct_map(lambda a, b: a + b, l, r)
            if isinstance(op, ast.Sub): return self.struct_map(lambda a, b: a - b, l, r)
        if isinstance(l, Struct):
            if isinstance(op, ast.Mult): return self.struct_map(lambda a: a * r, l)
            if isinstance(op, ast.Div): return self.struct_map(lambda a: a / r, l)
        raise OutOfFragment('struct binop')

    def attr(self, v, a):
        if isinstance(v, ModRef):
            if v.name == 'jnp':
                if a == 'pi':
                    return pi()
                if a in JNP:
                    x = JNP[a]
                    return ('jnpns', x) if isinstance(x, dict) else (('prim', a, x) if callable(x) else x)
                raise OutOfFragment('unmodelled jnp.%s' % a)
            if v.name.startswith('brax'):
                m = load(v.name)
                if a in m['defs']:
                    return Closure(m['defs'][a], None, v.name, a)
                if a in m['classes']:
                    return ClsRef(v.name, m['classes'][a])
                if a in m['consts']:
                    return self.module_global(m, a, v.name)
                sub = v.name + '.' + a
                try:
                    load(sub); return ModRef(sub)
                except (FileNotFoundError, OSError):
                    raise OutOfFragment('no %s in %s' % (a, v.name))
            full = v.name + '.' + a
            if full in ('jax.numpy',):
                return ModRef('jnp')
            if full == 'jax.config.jax_enable_x64':
                return False
            if full.startswith('mujoco.mjt') and full.count('.') == 2:
                c = _mujoco_enum(full)
                if c is not None:
                    return c
            if full in _MJ_NUM:
                return _MJ_NUM[full]
            return ModRef(full)
        if isinstance(v, tuple) and v and v[0] == 'jnpns':
            x = v[1][a]
            return ('prim', a, x)
        if isinstance(v, Struct):
            if a in v.f:
                return v.f[a]
            if a == '__dict__':
                return dict(v.f)
            if a == 'vmap':
                return ('bound', 'vmapproxy', v)
            if a == 'replace':
                return ('bound', 'replace', v)
            if a in ('take', 'concatenate', 'reshape', 'T'):
                return ('bound', a, v)
            home = v.home or STRUCT_HOME.get(v.cls)
            if home:
                fm = find_method(home, v.cls, a)
                if fm:
                    c = Closure(fm[1], None, fm[0], v.cls + '.' + a, bound=v, owner=(fm[0], fm[2]))
                    if is_property(fm[1]):
                        return self.call_closure(c, [], {})
                    return c
            if home:
                ga = find_method(home, v.cls, '__getattr__')
                if ga:
                    return self.call_closure(Closure(ga[1], None, ga[0], v.cls + '.__getattr__', bound=v, owner=(ga[0], ga[2])), [a], {})
            if '__missing__' in v.f and not a.startswith('__'):
                v.f[a] = v.f['__missing__'](a)       # a mock object: unknown data attributes are fresh symbols
                return v.f[a]
            raise OutOfFragment('struct attr %s.%s' % (v.cls, a))
        if isinstance(v, VmapProxy):
            if a == 'vmap':
                return ('bound', 'vmapmore', v)
            home = v.recv.home or STRUCT_HOME.get(v.recv.cls)
            fm = find_method(home, v.recv.cls, a)
            if fm is None:
                raise OutOfFragment('no method %s.%s' % (v.recv.cls, a))
            fn = Closure(fm[1], None, fm[0], v.recv.cls + '.' + a)
            for ax in reversed(v.axes):
                fn = Vmapped(fn, in_axes=ax)
            return Partial(fn, [v.recv], {})
        if isinstance(v, ClsRef):
            fm = find_method(v.mod, v.node.name, a)
            if fm:
                if any(isinstance(d, ast.Name) and d.id == 'staticmethod' for d in fm[1].decorator_list):
                    return Closure(fm[1], None, fm[0], v.node.name + '.' + a)
                if any(isinstance(d, ast.Name) and d.id == 'classmethod' for d in fm[1].decorator_list):
                    return Closure(fm[1], None, fm[0], v.node.name + '.' + a, bound=v)   # classmethod: cls bound
                return Closure(fm[1], None, fm[0], v.node.name + '.' + a)   # plain function via the class
            raise OutOfFragment('class attr %s.%s' % (v.node.name, a))
        if isinstance(v, tuple) and v and v[0] == 'super':
            _, (omod, ocls), inst = v
            fm = find_method(omod, ocls, a, skip_self=True)
            if fm is None:
                if a == '__init__':
                    return ('prim', 'object.__init__', lambda *x, **k: None)
                raise OutOfFragment('super().%s' % a)
            return Closure(fm[1], None, fm[0], fm[2] + '.' + a, bound=inst, owner=(fm[0], fm[2]))
        if isinstance(v, np.ndarray):
            if a == 'T': return v.T
            if a == 'shape': return v.shape
            if a == 'ndim': return v.ndim
            if a == 'at': return AtProxy(v)
            if a == 'dtype': return ('dtype', self.dtypes.get(id(v), ('float', None))[0])
            if a == 'size': return v.size
            if a in ('reshape', 'take', 'sum', 'any', 'all', 'dot', 'astype', 'copy', 'transpose', 'squeeze', 'flatten', 'ravel',
                     'swapaxes', 'repeat', 'cumsum', 'prod', 'tolist', 'item'):
                return ('bound', 'nd_' + a, v)
            if a in ('max', 'min', 'mean', 'clip', 'argmax', 'argmin', 'round', 'std', 'var'):
                f_ = {'mean': lambda x, axis=None, **k: asarr(x).sum(axis=axis) / (asarr(x).size if axis is None else asarr(x).shape[axis])}.get(a) or JNP.get(a)
                if f_ is None:
                    raise OutOfFragment('unmodelled array method .%s' % a)
                return ('prim', 'nd_' + a, lambda *args, _f=f_, _v=v, **kw: _f(_v, *args, **kw))
        if isinstance(v, Rat):
            if a == 'shape': return ()
            if a == 'ndim': return 0
            if a == 'dtype': return ('dtype', 'float')
            if a == 'astype': return ('prim', 'astype', lambda *x, _v=v, **k: _v)
            if a == 'reshape': return ('prim', 'reshape', lambda *shp, _v=v, **k: np.reshape(asarr(_v), shp[0] if len(shp) == 1 and isinstance(shp[0], (tuple, list)) else shp))
            if a in ('sum', 'squeeze', 'item', 'copy'): return ('prim', a, lambda *x, _v=v, **k: _v)
        if isinstance(v, AtIdx):
            return ('bound', 'at_' + a, v)
        if isinstance(v, dict):
            if a in ('get', 'items', 'keys', 'values', 'update'):
                return ('bound', 'dict_' + a, v)
        if isinstance(v, HostObj):
            try:
                val = getattr(v, a)
            except AttributeError:
                raise OutOfFragment('attr %s on %s' % (a, type(v).__name__))
            return ('pybound', val) if callable(val) else val
        if isinstance(v, str) and a == 'join':
            def join(items, _sep=v):
                items = list(items)
                def _numeric(x):
                    try:
                        Fraction(x); return True
                    except (ValueError, TypeError):
                        return False
                if items and any(isinstance(x, NumStr) for x in items) and all(isinstance(x, NumStr) or (isinstance(x, str) and _numeric(x)) for x in items):
                    return NumStr([y for x in items for y in (x.vals if isinstance(x, NumStr) else [Rat.lift(Fraction(x))])])
                return _sep.join(items)
            return ('pybound', join)
        if isinstance(v, tuple) and len(v) == 2 and v[0] == 'builtin' and v[1] in ('dict', 'str', 'int', 'float', 'bytes', 'list', 'tuple', 'set'):
            # class-level helpers of the builtin types on host-side (static) data: dict.fromkeys, str.join, int.from_bytes, ...
            import builtins as _b
            t_ = getattr(_b, v[1])
            if hasattr(t_, a) and callable(getattr(t_, a)):
                return ('pybound', getattr(t_, a))
        if isinstance(v, (tuple, list)) and a in ('index', 'append', 'count', 'extend'):
            return ('bound', 'seq_' + a, v)
        if isinstance(v, (list, str, bytes, dict, set, range)) and not (isinstance(v, tuple) and v and isinstance(v[0], str) and len(v) == 3) and hasattr(v, a) and callable(getattr(v, a)):
            return ('pybound', getattr(v, a))
        if type(v) in (int, float, bool) and a in ('bit_length', 'is_integer', 'conjugate', 'real', 'imag', 'bit_count', 'as_integer_ratio'):
            val = getattr(v, a)
            return ('pybound', val) if callable(val) else val
        raise OutOfFragment('attr %s on %s' % (a, type(v).__name__))

    # --- calls
    def call_node(self, n, env, mod):
        if isinstance(n.func, ast.Name) and n.func.id == 'super' and not n.args:
            e = env
            while e is not None:
                if '__super__' in e['v']:
                    return e['v']['__super__']
                e = e['p']
            raise OutOfFragment('super() outside a method')
        fn = self.ev(n.func, env, mod)
        args = []
        for a in n.args:
            if isinstance(a, ast.Starred):
                args.extend(self.ev(a.value, env, mod))
            else:
                args.append(self.ev(a, env, mod))
        kw = {}
        for k in n.keywords:
            if k.arg is None:
                kw.update(self.ev(k.value, env, mod))
            else:
                kw[k.arg] = self.ev(k.value, env, mod)
        return self.apply(fn, args, kw)

    def apply(self, fn, args, kw):
        self.calls += 1
        if isinstance(fn, Closure):
            return self.call_closure(fn, args, kw)
        if isinstance(fn, Partial):
            return self.apply(fn.fn, list(fn.args) + list(args), {**fn.kw, **kw})
        if isinstance(fn, Vmapped):
            return self.apply_vmapped(fn, args, kw)
        if isinstance(fn, ClsRef):
            return self.construct(fn, args, kw)
        if isinstance(fn, tuple) and fn and fn[0] == 'prim':
            return fn[2](*args, **kw)
        if isinstance(fn, tuple) and fn and fn[0] == 'builtin':
            return self.builtin(fn[1], args, kw)
        if isinstance(fn, tuple) and fn and fn[0] == 'bound':
            return self.bound(fn[1], fn[2], args, kw)
        if isinstance(fn, tuple) and fn and fn[0] == 'pybound':
            return fn[1](*args, **kw)
        if isinstance(fn, ModRef):
            return self.extern(fn.name, args, kw)
        raise OutOfFragment('call of %r' % (fn,))

    def extern(self, name, args, kw):
        if name in getattr(self, 'extern_overrides', {}):
            # a check may replace a library call by its own oracle (e.g. random indices by concrete in-range ones)
            return self.extern_overrides[name](*args, **kw)
        if name == 'jax.nn.one_hot':
            x, n = asarr(args[0]), int(Rat.lift(args[1] if len(args) > 1 else kw['num_classes']).constval())
            out = np.empty(x.shape + (n,), dtype=object)
            for idx in np.ndindex(*x.shape):
                for k in range(n):
                    out[idx + (k,)] = Rat.lift(x[idx])._cmp('==', k) if not Rat.lift(x[idx]).is_const() else Rat.lift(int(Rat.lift(x[idx]).constval() == k))
            return out
        if name in ('jax.vmap',):
            return Vmapped(args[0], in_axes=kw.get('in_axes', args[1] if len(args) > 1 else 0), out_axes=kw.get('out_axes', 0),
                           axis_name=kw.get('axis_name'))
        if name in ('jax.jit',):
            return args[0]
        if name in ('functools.partial',):
            return Partial(args[0], args[1:], kw)
        if name in ('jax.tree.map', 'jax.tree_util.tree_map', 'jax.tree_map'):
            return self.tree_map(args[0], *args[1:], is_leaf=kw.get('is_leaf'))
        if name == 'jax.lax.stop_gradient':
            return self.tree_map(('prim', 'sg', lambda x: elemwise(lambda v: uf('stop_gradient', v), x)), args[0])
        if name == 'jax.lax.scan':
            return self.scan(*args, **kw)
        if name in ('jax.tree_util.tree_leaves', 'jax.tree.leaves', 'jax.tree_leaves'):
            return self.leaves(args[0])
        if name in ('jax.lax.psum', 'jax.lax.pmean'):
            ax = kw.get('axis_name', args[1] if len(args) > 1 else None)
            op = name.rsplit('.', 1)[1]
            ctx = next((c_ for c_ in reversed(COLLECTIVE_CTX) if c_['axis'] == ax), None)
            if ctx is not None and not FIELD['on']:
                k_ = len(ctx['calls'][ctx['member']])
                def ph(x, k_=k_, ctx=ctx):
                    x = asarr(x)
                    out = np.empty(x.shape, dtype=object)
                    for idx in np.ndindex(*x.shape) if x.shape else [()]:
                        out[idx] = Rat(Poly.sym(atom_key('collective', (op, id(ctx), ctx['member'], k_, idx), (op, id(ctx), ctx['member'], k_, idx))))
                    return out if x.shape else out[()]
                def one_leaf(x):
                    k2 = len(ctx['calls'][ctx['member']])
                    p_ = ph(x, k2)
                    ctx['calls'][ctx['member']].append((op, p_, x))
                    return p_
                return self.tree_map(('prim', 'ph', one_leaf), args[0])
            return self.tree_map(('prim', op, lambda x: elemwise(lambda v: uf(op, v, ax), x)), args[0])
        if name in ('jax.sharding.PartitionSpec', 'jax.sharding.NamedSharding', 'jax.sharding.Mesh'):
            return ('opaque', name)
        if name in ('jax.scipy.linalg.solve', 'jax.numpy.linalg.solve', 'numpy.linalg.solve'):
            return linsolve(args[0], args[1])
        if name == 'itertools.groupby':
            items = list(args[0])
            keyf = kw.get('key', args[1] if len(args) > 1 else None)
            def kval(it):
                k = self.apply(keyf, [it], {}) if keyf is not None else it
                if isinstance(k, Rat):
                    if not k.is_const():
                        raise OutOfFragment('groupby on an abstract key')
                    k = k.constval()
                if isinstance(k, np.generic):
                    k = k.item()
                return k
            out, cur, grp = [], object(), None
            for it in items:
                k = kval(it)
                if grp is None or k != cur:
                    grp = []
                    out.append((k, grp))
                    cur = k
                grp.append(it)
            return out
        if name == 'itertools.product':
            import itertools as _it
            return list(_it.product(*[list(a) for a in args]))
        if name in ('jax.pmap',):
            return Vmapped(args[0], in_axes=kw.get('in_axes', 0), out_axes=kw.get('out_axes', 0),
                           axis_name=kw.get('axis_name', args[1] if len(args) > 1 and isinstance(args[1], str) else None))
        if name in ('jax.experimental.pjit.pjit', 'jax.pjit'):
            return args[0]
        if name in ('jax.process_index',):
            return 0
        if name == 'math.prod':
            r = 1
            for x in args[0]:
                r = r * x
            return r
        # ---- further jax names a rewrite may reach for (each defined through modelled primitives)
        if name in ('jax.lax.cummin', 'jax.lax.cummax', 'jax.lax.cumsum', 'jax.lax.cumprod'):
            x = asarr(args[0]); ax = kw.get('axis', args[1] if len(args) > 1 else 0); rev = kw.get('reverse', args[2] if len(args) > 2 else False)
            op = name.rsplit('.', 1)[1]
            xs = np.moveaxis(x, ax, 0)
            xs = xs[::-1] if rev else xs
            out = [xs[0]]
            for k_ in range(1, xs.shape[0]):
                prev, cur = out[-1], xs[k_]
                out.append({'cummin': lambda a, b: JNP['minimum'](a, b), 'cummax': lambda a, b: JNP['maximum'](a, b),
                            'cumsum': lambda a, b: asarr(a) + asarr(b), 'cumprod': lambda a, b: asarr(a) * asarr(b)}[op](prev, cur))
            out = np.stack([asarr(o) for o in out])
            out = out[::-1] if rev else out
            return np.moveaxis(out, 0, ax)
        if name == 'jax.lax.select':
            return self.tree_map(('prim', 'sel', lambda x, y: P_where(args[0], x, y)), args[1], args[2])
        if name == 'jax.lax.clamp':
            return P_clip(args[1], args[0], args[2])
        if name == 'jax.lax.fori_loop':
            lo, hi = int(Rat.lift(args[0]).constval()), int(Rat.lift(args[1]).constval())
            val = args[3]
            for i_ in range(lo, hi):
                val = self.apply(args[2], [i_, val], {})
            return val
        if name == 'jax.lax.switch':
            ix = Rat.lift(args[0])
            if not ix.is_const():
                raise OutOfFragment('lax.switch on an abstract index')
            br = list(args[1])
            return self.apply(br[max(0, min(len(br) - 1, int(ix.constval())))], list(args[2:]), {})
        if name == 'jax.lax.map':
            return self.apply(Vmapped(args[0]), [args[1]], {})
        if name in ('jax.checkpoint', 'jax.remat', 'jax.named_call', 'jax.ensure_compile_time_eval', 'jax.block_until_ready',
                    'jax.device_put', 'jax.device_get'):
            return args[0] if args else None
        if name in ('jax.debug.print', 'jax.debug.callback', 'jax.debug.breakpoint'):
            return None
        if name in ('jax.nn.relu',):
            return elemwise(lambda v: _minmax('max', v, 0), args[0])
        if name in ('jax.nn.sigmoid', 'jax.nn.tanh', 'jax.nn.elu', 'jax.nn.gelu', 'jax.nn.selu', 'jax.nn.softsign', 'jax.nn.log_sigmoid',
                    'jax.scipy.special.erf', 'jax.lax.erf', 'jax.scipy.special.expit'):
            op = name.rsplit('.', 1)[1]
            return JNP['tanh'](args[0]) if op == 'tanh' else elemwise(lambda v: uf('sigmoid' if op == 'expit' else op, v), args[0])
        if name in ('jax.nn.swish', 'jax.nn.silu'):
            return elemwise(lambda v: Rat.lift(v) * uf('sigmoid', v), args[0])
        if name == 'jax.lax.rsqrt':
            return elemwise(lambda v: 1 / Rat.lift(JNP['sqrt'](v)), args[0])
        if name.startswith('jax.lax.') and name.rsplit('.', 1)[1] in ('max', 'min', 'abs', 'exp', 'log', 'sqrt', 'sin', 'cos', 'tanh', 'sign',
                                                                      'floor', 'ceil', 'square', 'neg', 'add', 'sub', 'mul', 'div'):
            op = name.rsplit('.', 1)[1]
            if op in ('max', 'min'):
                return JNP[op + 'imum'](*args)
            if op in ('neg', 'add', 'sub', 'mul', 'div'):
                import operator as _o
                return {'neg': lambda a: -asarr(a), 'add': lambda a, b: asarr(a) + asarr(b), 'sub': lambda a, b: asarr(a) - asarr(b),
                        'mul': lambda a, b: asarr(a) * asarr(b), 'div': lambda a, b: asarr(a) / asarr(b)}[op](*args)
            return JNP[op](*args)
        if name in ('jax.lax.dynamic_slice', 'jax.lax.dynamic_slice_in_dim', 'jax.lax.dynamic_index_in_dim'):
            x = asarr(args[0])
            if name.endswith('dynamic_slice'):
                starts = [toint(v) for v in args[1]]
                sizes = [int(v) for v in args[2]]
                starts = [max(0, min(st_, x.shape[k] - sz)) for k, (st_, sz) in enumerate(zip(starts, sizes))]
                return x[tuple(slice(st_, st_ + sz) for st_, sz in zip(starts, sizes))]
            start = toint(args[1])
            if name.endswith('slice_in_dim'):
                size = int(args[2]); ax = kw.get('axis', args[3] if len(args) > 3 else 0)
                start = max(0, min(start, x.shape[ax] - size))
                return np.take(x, range(start, start + size), axis=ax)
            ax = kw.get('axis', args[2] if len(args) > 2 else 0)
            keep = kw.get('keepdims', args[3] if len(args) > 3 else True)
            start = max(0, min(start, x.shape[ax] - 1))
            out = np.take(x, [start], axis=ax)
            return out if keep else np.squeeze(out, axis=ax)
        if name in ('jax.random.bernoulli', 'jax.random.choice', 'jax.random.categorical', 'jax.random.permutation', 'jax.random.gamma',
                    'jax.random.exponential', 'jax.random.truncated_normal', 'jax.random.laplace', 'jax.random.bits'):
            # samplers: uninterpreted functions of (key, every argument, position) -- equal calls give equal draws
            op = name.rsplit('.', 1)[1]
            shape = kw.get('shape', None)
            if shape is None:
                shape = next((a_ for a_ in args[1:] if isinstance(a_, tuple) and all(isinstance(v_, int) for v_ in a_)), ())
            rest = tuple(a_ for a_ in args[1:] if not (isinstance(a_, tuple)))
            a_ = np.empty(tuple(shape), dtype=object)
            for idx in np.ndindex(*a_.shape):
                a_[idx] = uf(op, asarr(args[0]), idx, *[asarr(r_) if isinstance(r_, (np.ndarray, list)) else r_ for r_ in rest])
            return a_ if a_.shape else a_[()]
        if name == 'jax.lax.cond':
            c = args[0]
            c = c.constval() != 0 if isinstance(c, Rat) and c.is_const() else c
            if isinstance(c, np.ndarray) and c.shape == ():
                c0 = Rat.lift(c[()])
                c = c0.constval() != 0 if c0.is_const() else c0
            if isinstance(c, (bool, int)):
                return self.apply(args[1] if c else args[2], list(args[3:]), {})
            a_, b_ = self.apply(args[1], list(args[3:]), {}), self.apply(args[2], list(args[3:]), {})
            return self.tree_map(('prim', 'sel', lambda x, y: P_where(c, x, y)), a_, b_)
        if name == 'jax.lax.dynamic_update_slice_in_dim':
            data, upd, start = asarr(args[0]).copy(), asarr(args[1]), toint(args[2])
            ax = kw.get('axis', args[3] if len(args) > 3 else 0)
            if isinstance(start, np.ndarray):
                start = int(start)
            if ax != 0:
                raise OutOfFragment('dynamic_update_slice_in_dim axis != 0')
            start = max(0, min(int(start), data.shape[0] - upd.shape[0]))   # XLA clamps the start index
            data[start:start + upd.shape[0]] = upd
            return data
        if name in ('jax.tree_util.tree_flatten', 'jax.tree.flatten', 'jax.tree_flatten'):
            return self.leaves(args[0]), ('treedef', args[0])
        if name in ('jax.tree_util.tree_structure', 'jax.tree.structure', 'jax.tree_structure'):
            return ('treedef', args[0])
        if name in ('jax.tree_util.tree_unflatten', 'jax.tree.unflatten', 'jax.tree_unflatten'):
            td, lv = args[0], list(args[1])
            if not (isinstance(td, tuple) and len(td) == 2 and td[0] == 'treedef'):
                raise OutOfFragment('tree_unflatten with a foreign treedef')
            it = iter(lv)
            return self.tree_map(('prim', 'fill', lambda _x: next(it)), td[1])
        if name in ('jax.tree_util.tree_transpose', 'jax.tree.transpose', 'jax.tree_transpose'):
            outer, inner, tree = args[0], args[1], args[2]
            if not all(isinstance(t_, tuple) and len(t_) == 2 and t_[0] == 'treedef' for t_ in (outer, inner)):
                raise OutOfFragment('tree_transpose with a foreign treedef')
            n_in = len(self.leaves(inner[1]))
            # every leaf position of `outer` holds an `inner`-shaped subtree: collect, per inner leaf, an outer-shaped tree
            subs = []
            def grab(ref, t_):
                subs.append(self.leaves(t_)[:n_in] if True else None)
                return ref
            def walk(ref, t_):
                if isinstance(ref, Struct):
                    for k_ in ref.f:
                        if k_ in static_fields(ref.home or STRUCT_HOME.get(ref.cls), ref.cls) if (ref.home or STRUCT_HOME.get(ref.cls)) else ():
                            continue
                        walk(ref.f[k_], t_.f[k_])
                elif isinstance(ref, dict):
                    for k_ in ref:
                        walk(ref[k_], t_[k_])
                elif isinstance(ref, (tuple, list)) and not isinstance(ref, np.ndarray):
                    for a_, b_ in zip(ref, t_):
                        walk(a_, b_)
                elif ref is None:
                    return
                else:
                    subs.append(self.leaves(t_))
            walk(outer[1], tree)
            if any(len(x_) != n_in for x_ in subs):
                raise OutOfFragment('tree_transpose: inner structure mismatch')
            outs = []
            for j_ in range(n_in):
                it = iter([x_[j_] for x_ in subs])
                outs.append(self.tree_map(('prim', 'fill', lambda _x, it=it: next(it)), outer[1]))
            it2 = iter(outs)
            return self.tree_map(('prim', 'fill', lambda _x: next(it2)), inner[1])
        if name == 'jax.flatten_util.ravel_pytree':
            tree = args[0]
            lv = [asarr(x) for x in self.leaves(tree)]
            shapes = [x.shape for x in lv]
            flat = np.concatenate([x.ravel() for x in lv]) if lv else np.empty((0,), dtype=object)
            kinds_ = {self.dtypes.get(id(x), ('float', None))[0] for x in self.leaves(tree)}
            if len(kinds_) == 1 and kinds_ != {'float'}:
                self.dtypes[id(flat)] = (kinds_.pop(), flat)       # an all-integer record flattens to an integer vector
            def unflatten(v, tree=tree, shapes=shapes):
                v = asarr(v)
                out, pos = [], 0
                for sh in shapes:
                    n_ = int(np.prod(sh)) if sh else 1
                    out.append(v[pos:pos + n_].reshape(sh)); pos += n_
                it = iter(out)
                return self.tree_map(('prim', 'fill', lambda _x: next(it)), tree)
            return flat, ('prim', 'unflatten', unflatten)
        if name == 'jax.random.uniform':
            shape = kw.get('shape', args[1] if len(args) > 1 else ())
            a_ = np.empty(tuple(shape), dtype=object)
            for idx in np.ndindex(*a_.shape):
                a_[idx] = uf('uniform', asarr(args[0]), idx)
            return a_ if a_.shape else a_[()]
        if name in ('jax.random.PRNGKey', 'jax.random.key'):
            return np.array([uf('prngkey', args[0], 0), uf('prngkey', args[0], 1)], dtype=object)
        if name == 'jax.random.randint':
            shape = kw.get('shape', args[1] if len(args) > 1 else ())
            lo = kw.get('minval', args[2] if len(args) > 2 else 0); hi = kw.get('maxval', args[3] if len(args) > 3 else None)
            a_ = np.empty(tuple(shape), dtype=object)
            for idx in np.ndindex(*a_.shape):
                a_[idx] = uf('randint', asarr(args[0]), idx, lo, hi)
            return a_
        if name in ('jax.random.split', 'jax.random.fold_in'):
            key = asarr(args[0])
            n = kw.get('num', args[1] if len(args) > 1 else 2)
            if name.endswith('fold_in'):
                return elemwise(lambda k_: uf('fold_in', k_, args[1]), key)
            n = int(Rat.lift(n).constval()) if isinstance(n, Rat) else int(n)
            if key.ndim == 1:
                return np.stack([np.array([uf('split', key, i, c) for c in range(key.shape[0])], dtype=object) for i in range(n)])
            raise OutOfFragment('split of a batch of keys')
        if name == 'jax.nn.softplus':
            return elemwise(lambda v: uf('softplus', v), args[0])
        if name == 'jax.random.normal':
            shape = kw.get('shape', args[1] if len(args) > 1 else ())
            a = np.empty(shape, dtype=object)
            for idx in np.ndindex(*shape):
                a[idx] = uf('stdnormal', args[0], idx)
            return a
        if name in ('copy.copy', 'copy.deepcopy'):
            deep = name.endswith('deepcopy')
            def cp(v, top=True):
                if isinstance(v, Struct):
                    return Struct(v.cls, {k: (cp(x, False) if deep else x) for k, x in v.f.items()}, home=v.home)
                if isinstance(v, np.ndarray):
                    return v.copy()
                if isinstance(v, dict):
                    return {k: (cp(x, False) if deep else x) for k, x in v.items()}
                if isinstance(v, list):
                    return [(cp(x, False) if deep else x) for x in v]
                return v
            return cp(args[0])
        if name == 'jax.ops.segment_sum':
            data, ids, num = asarr(args[0]), args[1], args[2] if len(args) > 2 else kw['num_segments']
            ids = [int(Rat.lift(i).constval()) for i in asarr(ids).ravel()]
            out = P_zeros((num,) + data.shape[1:])
            for k, i in enumerate(ids):
                if 0 <= i < num:
                    out[i] = out[i] + data[k]
            return out
        if name.split('.')[0] in ('itertools', 'operator', 'collections', 'bisect', 'heapq') or name in (
                'functools.reduce', 'math.floor', 'math.ceil', 'math.gcd', 'math.comb', 'math.factorial', 'math.isqrt'):
            # pure standard-library helpers on host-side (static) data: call the real function; callables of the
            # analysed program are wrapped so that they are still interpreted
            import importlib, types
            modn, _, attr = name.rpartition('.')
            try:
                f_ = getattr(importlib.import_module(modn), attr)
            except Exception:  # pylint: disable=broad-except
                raise OutOfFragment('unmodelled extern %s' % name)
            def wrap(a):
                if isinstance(a, (Closure, Partial, Vmapped)) or (isinstance(a, tuple) and a and a[0] in ('prim', 'builtin', 'bound', 'pybound')):
                    return lambda *x, **k: self.apply(a, list(x), k)
                if isinstance(a, Rat) and a.is_const() and a.constval() == int(a.constval()):
                    return int(a.constval())
                return a
            r = f_(*[wrap(a) for a in args], **{k: wrap(v) for k, v in kw.items()})
            if isinstance(r, (types.GeneratorType, map, filter, zip)) or type(r).__module__ == 'itertools':
                r = list(r)
            return r
        raise OutOfFragment('unmodelled extern %s' % name)

    def scan(self, f, init, xs, length=None, reverse=False, **kw):
        leaves = self.leaves(xs)
        n = length if length is not None else asarr(leaves[0]).shape[0]
        # JAX flattens the carry and rebuilds it around tracers: the body sees (and returns) pytrees whose
        # containers are NOT the caller's objects, so in-place dict writes inside / after the scan never
        # reach the caller's state
        carry = self.fresh(init)
        ys = []
        rng = range(n - 1, -1, -1) if reverse else range(n)
        for i in rng:
            x_i = self.tree_map(('prim', 'idx', lambda a: asarr(a)[i]), xs) if leaves else xs
            carry, y = self.apply(f, [carry, x_i], {})
            ys.append(y)
        if reverse:
            ys = ys[::-1]
        carry = self.fresh(carry)
        if ys and ys[0] is None:
            return carry, None
        stacked = self.tree_map(('prim', 'stack', lambda *a: np.stack([asarr(x) for x in a])), *ys) if ys else None
        return carry, stacked

    def fresh(self, t):
        """The same pytree in new containers (what flatten / unflatten across a JAX transformation yields)."""
        if isinstance(t, Struct):
            return Struct(t.cls, {k: self.fresh(v) for k, v in t.f.items()}, home=t.home)
        if isinstance(t, dict):
            return {k: self.fresh(v) for k, v in t.items()}
        if isinstance(t, (tuple, list)) and not isinstance(t, np.ndarray):
            return type(t)(self.fresh(v) for v in t)
        return t

    def leaves(self, t):
        if isinstance(t, Struct):
            return [l for v in t.f.values() for l in self.leaves(v)]
        if isinstance(t, (tuple, list)):
            return [l for v in t for l in self.leaves(v)]
        if isinstance(t, dict):
            return [l for v in t.values() for l in self.leaves(v)]
        if t is None:
            return []
        return [t]

    def tree_map(self, fn, *trees, is_leaf=None):
        t0 = trees[0]
        if is_leaf is not None:
            r_ = self.apply(is_leaf, [t0], {})
            r_ = (r_.constval() != 0) if isinstance(r_, Rat) and r_.is_const() else r_
            if isinstance(r_, (bool, int, np.bool_)) and r_:
                return self.apply(fn, list(trees), {})
            rec = lambda *ts: self.tree_map(fn, *ts, is_leaf=is_leaf)
            if isinstance(t0, Struct):
                home = t0.home or STRUCT_HOME.get(t0.cls)
                static = static_fields(home, t0.cls) if home else ()
                return Struct(t0.cls, {k: (t0.f[k] if k in static else rec(*[t.f[k] for t in trees])) for k in t0.f}, home=t0.home)
            if isinstance(t0, (tuple, list)) and not isinstance(t0, np.ndarray):
                return type(t0)(rec(*xs) for xs in zip(*trees))
            if isinstance(t0, dict):
                return {k: rec(*[t[k] for t in trees]) for k in t0}
            if t0 is None:
                return None
            return self.apply(fn, list(trees), {})
        if isinstance(t0, Struct):
            home = t0.home or STRUCT_HOME.get(t0.cls)
            static = static_fields(home, t0.cls) if home else ()
            return Struct(t0.cls, {k: (t0.f[k] if k in static else self.tree_map(fn, *[t.f[k] for t in trees])) for k in t0.f},
                          home=t0.home)
        if isinstance(t0, (tuple, list)) and not isinstance(t0, np.ndarray):
            return type(t0)(self.tree_map(fn, *xs) for xs in zip(*trees))
        if isinstance(t0, dict):
            return {k: self.tree_map(fn, *[t[k] for t in trees]) for k in t0}
        if t0 is None:
            return None
        return self.apply(fn, list(trees), {})

    def _slice_axes(self, a, ax, i):
        """Element i of `a` along the axes spec `ax` (int, None, or a pytree of those matching `a`)."""
        if ax is None:
            return a
        if isinstance(ax, Struct) and isinstance(a, Struct):
            return Struct(a.cls, {k: self._slice_axes(v, ax.f.get(k), i) for k, v in a.f.items()}, home=a.home)
        if isinstance(ax, dict) and isinstance(a, dict):
            return {k: self._slice_axes(v, ax.get(k), i) for k, v in a.items()}
        if isinstance(ax, (list, tuple)) and isinstance(a, (list, tuple)):
            return type(a)(self._slice_axes(v, x, i) for v, x in zip(a, ax))
        if isinstance(ax, Rat):
            ax = int(ax.constval())
        if isinstance(ax, np.ndarray) and ax.shape == ():
            ax = int(Rat.lift(ax[()]).constval())
        if isinstance(ax, int):
            if i is None:
                # prototype member of an EMPTY mapped axis (only the output structure is wanted)
                def proto(x, ax=ax):
                    x = asarr(x)
                    shp = tuple(d for k_, d in enumerate(x.shape) if k_ != (ax % max(x.ndim, 1)))
                    _PROTO[0] += 1
                    return symarr('vm0_%d_' % _PROTO[0], shp) if x.dtype == object or x.dtype.kind == 'f' else np.zeros(shp, dtype=x.dtype)
                return self.tree_map(('prim', 'proto', proto), a)
            return self.tree_map(('prim', 'idx', lambda x, i=i, ax=ax: np.take(asarr(x), i, axis=ax)), a)
        raise OutOfFragment('vmap in_axes %r' % (ax,))

    def _mapped_len(self, a, ax):
        if ax is None:
            return None
        if isinstance(ax, Struct) and isinstance(a, Struct):
            for k, v in a.f.items():
                n = self._mapped_len(v, ax.f.get(k))
                if n is not None:
                    return n
            return None
        if isinstance(ax, dict) and isinstance(a, dict):
            for k, v in a.items():
                n = self._mapped_len(v, ax.get(k))
                if n is not None:
                    return n
            return None
        if isinstance(ax, (list, tuple)) and isinstance(a, (list, tuple)):
            for v, x in zip(a, ax):
                n = self._mapped_len(v, x)
                if n is not None:
                    return n
            return None
        l = self.leaves(a)
        if not l:
            return None
        axi = int(Rat.lift(ax).constval()) if not isinstance(ax, int) else ax
        return asarr(l[0]).shape[axi]

    def apply_vmapped(self, vm, args, kw):
        in_axes = vm.in_axes
        if not isinstance(in_axes, (list, tuple)):
            in_axes = [in_axes] * len(args)
        n = None
        for a, ax in zip(args, in_axes):
            n = self._mapped_len(a, ax)
            if n is not None:
                break
        if n is None:
            raise OutOfFragment('vmap without mapped axis')
        outs = []
        ctx = None
        if getattr(vm, 'axis_name', None) is not None:
            # a NAMED mapped axis: psum / pmean over it inside the mapped function are cross-member sums.  Every member
            # is run with placeholders for its collectives; afterwards placeholder k of every member becomes the sum
            # (mean) over the members of the k-th collective's argument.
            ctx = {'axis': vm.axis_name, 'n': n, 'member': 0, 'calls': [[] for _ in range(n)]}
            COLLECTIVE_CTX.append(ctx)
        try:
            for i in range(n):
                if ctx is not None:
                    ctx['member'] = i
                ai = [self._slice_axes(a, ax, i) for a, ax in zip(args, in_axes)]
                outs.append(self.apply(vm.fn, ai, kw))
        finally:
            if ctx is not None:
                COLLECTIVE_CTX.pop()
        if ctx is not None and any(ctx['calls']):
            if len({len(c_) for c_ in ctx['calls']}) != 1:
                raise OutOfFragment('members of a named mapped axis issue different numbers of collectives')
            repl = {}
            for k_ in range(len(ctx['calls'][0])):
                op = ctx['calls'][0][k_][0]
                tot = None
                for m_ in range(n):
                    v_ = asarr(ctx['calls'][m_][k_][2])
                    tot = v_ if tot is None else tot + v_
                if op == 'pmean':
                    tot = tot / n
                for m_ in range(n):
                    ph = asarr(ctx['calls'][m_][k_][1])
                    for idx in np.ndindex(*ph.shape) if ph.shape else [()]:
                        repl[_single_atom_of(ph[idx])] = Rat.lift(asarr(tot)[idx] if asarr(tot).shape else asarr(tot)[()])
            outs = [self.tree_map(('prim', 'subst', lambda x: subst_atoms(asarr(x), lambda a_: repl.get(a_))), o_) for o_ in outs]
        if n == 0:
            # jax.vmap over an empty axis: outputs with a leading axis of length 0 and the member's structure
            o_ = self.apply(vm.fn, [self._slice_axes(a, ax, None) for a, ax in zip(args, in_axes)], kw)
            stacked = self.tree_map(('prim', 'empty', lambda x: np.zeros((0,) + asarr(x).shape, dtype=object)), o_)
            return self._move_out_axes(stacked, vm.out_axes)
        stacked = self.tree_map(('prim', 'stack', lambda *a: np.stack([asarr(x) for x in a])), *outs)
        return self._move_out_axes(stacked, vm.out_axes)

    def _move_out_axes(self, t, ax):
        """vmap(..., out_axes=ax): the mapped axis (stacked first) goes to position ax, per output / leaf."""
        if ax is None:
            raise OutOfFragment('vmap out_axes=None')
        if isinstance(ax, Rat):
            ax = int(ax.constval())
        if isinstance(ax, int):
            if ax == 0:
                return t
            return self.tree_map(('prim', 'moveaxis', lambda x, ax=ax: np.moveaxis(asarr(x), 0, ax)), t)
        if isinstance(ax, (tuple, list)) and isinstance(t, (tuple, list)) and len(ax) == len(t):
            return type(t)(self._move_out_axes(x, a) for x, a in zip(t, ax))
        if isinstance(ax, dict) and isinstance(t, dict):
            return {k: self._move_out_axes(v, ax[k]) for k, v in t.items()}
        if isinstance(ax, Struct) and isinstance(t, Struct):
            return Struct(t.cls, {k: self._move_out_axes(v, ax.f[k]) for k, v in t.f.items()}, home=t.home)
        raise OutOfFragment('vmap out_axes %r' % (ax,))

    def construct(self, c, args, kw):
        name = c.node.name
        init = find_method(c.mod, name, '__init__')
        if init is not None:
            inst = Struct(name, {}, home=c.mod)
            self.call_closure(Closure(init[1], None, init[0], init[2] + '.__init__', bound=inst, owner=(init[0], init[2])), list(args), dict(kw))
            return inst
        fields = class_fields(c.mod, name)
        vals = dict(zip(fields, args))
        vals.update(kw)
        # dataclass defaults
        for s in c.node.body:
            if isinstance(s, ast.AnnAssign) and s.value is not None and s.target.id not in vals:
                vals[s.target.id] = None
        out = {f: vals.get(f) for f in fields}
        for k_, v_ in vals.items():      # keyword fields inherited from external base classes
            if k_ not in out:
                out[k_] = v_
        if any((b.id if isinstance(b, ast.Name) else getattr(b, 'attr', None)) == 'NamedTuple' for b in c.node.bases):
            NAMEDTUPLES.add(name)        # instances unpack / index in field order
        return Struct(name, out, home=c.mod)

    def builtin(self, name, args, kw):
        if name == 'len':
            a = args[0]
            return len(a) if not isinstance(a, np.ndarray) else a.shape[0]
        if name == 'int':
            a = args[0]
            return int(a.constval()) if isinstance(a, Rat) else int(a)
        if name == 'float':
            return float(args[0])
        if name == 'range': return range(*[toint(a_) for a_ in args])
        if name == 'zip': return list(zip(*args))
        if name == 'enumerate': return list(enumerate(*args))
        if name == 'list': return list(*args)
        if name == 'tuple': return tuple(*args)
        if name == 'reversed': return list(reversed(*args))
        if name == 'isinstance':
            v, c = args
            if isinstance(c, ClsRef):
                if not isinstance(v, Struct):
                    return False
                if v.cls == c.node.name:
                    return True
                # subclass relation, read off the class definitions of the analysed program
                home = v.home or STRUCT_HOME.get(v.cls)
                seen_, todo = set(), [(home, v.cls)]
                while todo:
                    hm, cn = todo.pop()
                    if hm is None or (hm, cn) in seen_:
                        continue
                    seen_.add((hm, cn))
                    try:
                        cd = load(hm)['classes'].get(cn)
                    except (OSError, AnalysisError):
                        cd = None
                    if cd is None:
                        continue
                    for b_ in cd.bases:
                        bn = ast.unparse(b_).split('[')[0].split('.')[-1]
                        if bn == c.node.name:
                            return True
                        todo.append((hm, bn))
                return False
            if isinstance(c, ModRef) and c.name.endswith('ndarray') or isinstance(c, ModRef) and c.name.endswith('Array'):
                return isinstance(v, (np.ndarray, Rat))
            if isinstance(c, ModRef) and c.name.split('.')[-1] in ('Mapping', 'MutableMapping', 'dict', 'Dict'):
                return isinstance(v, dict)
            if isinstance(c, ModRef) and c.name.split('.')[-1] in ('Sequence', 'MutableSequence', 'List', 'Tuple'):
                return isinstance(v, (list, tuple))
            # builtin scalar / container types: decided on the host value; an abstract (traced) value is none of them
            pyt = {'int': int, 'float': float, 'bool': bool, 'str': str, 'tuple': tuple, 'list': list, 'dict': dict, 'set': set,
                   'bytes': bytes, 'complex': complex}
            def one(ci):
                if isinstance(ci, tuple) and len(ci) == 2 and ci[0] == 'builtin' and ci[1] in pyt:
                    if isinstance(v, (Rat, np.ndarray)):
                        if ci[1] in ('int', 'float') and isinstance(v, Rat) and v.fv is None and v.is_const() and getattr(v, '_literal', False):
                            return True
                        return False
                    if ci[1] == 'float' and isinstance(v, Fraction):
                        return True        # exact image of a float literal
                    return isinstance(v, pyt[ci[1]]) and not (ci[1] == 'int' and isinstance(v, bool) and False)
                return None
            if isinstance(c, tuple) and c and not (len(c) == 2 and c[0] == 'builtin'):
                rs = [one(ci) for ci in c]
                if all(r is not None for r in rs):
                    return any(rs)
            else:
                r = one(c)
                if r is not None:
                    return r
            return True
        if name == 'sum':
            it = list(args[0]); acc = args[1] if len(args) > 1 else 0
            for x in it:
                acc = self.binop(ast.Add(), acc, x)
            return acc
        if name in ('min', 'max'):
            return (min if name == 'min' else max)(*args)
        if name == 'str':
            if isinstance(args[0], Rat) and not args[0].is_const():
                return NumStr([args[0]])
            return str(args[0])
        if name == 'any': return any(args[0])
        if name == 'all': return all(args[0])
        if name == 'set': return set(*args)
        if name == 'getattr':
            try:
                return self.attr(args[0], args[1])
            except OutOfFragment:
                if len(args) > 2:
                    return args[2]
                raise
        if name == 'hasattr':
            try:
                self.attr(args[0], args[1]); return True
            except OutOfFragment:
                return False
        if name == 'sorted':
            if 'key' in kw and not callable(kw['key']):
                k = kw['key']
                kw = dict(kw, key=lambda x: self.apply(k, [x], {}))
            return sorted(*args, **kw)
        if name == 'dict':
            d = {}
            if args:
                src = args[0]
                d.update(src if isinstance(src, dict) else {k: v for k, v in src})
            d.update(kw)
            return d
        if name == 'bool':
            v = args[0] if args else False
            if isinstance(v, Rat):
                if not v.is_const():
                    raise OutOfFragment('bool() of an abstract value')
                return v.constval() != 0
            return bool(v)
        if name == 'abs':
            v = args[0]
            return JNP['abs'](v) if isinstance(v, (Rat, np.ndarray)) else abs(v)
        if name == 'print':
            return None
        if name in ('map', 'filter'):
            f_ = args[0]
            call = (lambda *x: self.apply(f_, list(x), {})) if not callable(f_) else f_
            if isinstance(f_, tuple) and f_ and f_[0] == 'builtin':
                call = lambda *x, _n=f_[1]: self.builtin(_n, list(x), {})
            return list(map(call, *args[1:])) if name == 'map' else [x for x in args[1] if call(x)]
        if name in ('frozenset', 'divmod', 'round', 'pow', 'callable', 'slice', 'ord', 'chr', 'repr', 'iter', 'next', 'id', 'type',
                    'format', 'bytes', 'bytearray'):
            import builtins as _b
            conv = [int(a.constval()) if isinstance(a, Rat) and a.is_const() and a.constval() == int(a.constval()) else a for a in args]
            return getattr(_b, name)(*conv, **kw)
        raise OutOfFragment('builtin ' + name)

    def bound(self, what, v, args, kw):
        if what == 'vmapproxy':
            return VmapProxy(v, [kw.get('in_axes', args[0] if args else 0)])
        if what == 'vmapmore':
            return VmapProxy(v.recv, v.axes + [kw.get('in_axes', args[0] if args else 0)])
        if what == 'replace':
            f = dict(v.f); f.update(kw); return Struct(v.cls, f, home=v.home)
        if what == 'take':
            i = toint(args[0]); ax = kw.get('axis', args[1] if len(args) > 1 else 0)
            return self.struct_map(lambda x: np.take(asarr(x), i, axis=ax, mode='wrap'), v)
        if what == 'concatenate':
            ax = kw.get('axis', 0)
            return self.struct_map(lambda *xs: np.concatenate([asarr(x) for x in xs], axis=ax), v, *args)
        if what == 'reshape':
            return self.struct_map(lambda x: asarr(x).reshape(args[0]), v)
        if what == 'T':
            return self.struct_map(lambda x: asarr(x).T, v)
        if what.startswith('nd_'):
            m = what[3:]
            if m in ('any', 'all'):
                return (_any if m == 'any' else _all)(v, kw.get('axis', args[0] if args else None))
            if m == 'astype' or m == 'copy':
                return v.copy()          # a new array, as in numpy (in-place writes to it do not reach v)
            if m == 'take':
                i = toint(args[0]); ax = kw.get('axis', args[1] if len(args) > 1 else None)
                return np.take(v, i, axis=ax, mode='wrap')
            if m == 'sum':
                return v.sum(*args, **{k_: x for k_, x in kw.items() if k_ in ('axis',)})
            if m == 'reshape' and len(args) == 1 and isinstance(args[0], (tuple, list)):
                return v.reshape(tuple(args[0]))
            return getattr(v, m)(*args, **kw)
        if what in ('at_add', 'at_set'):
            arr = asarr(v.arr).copy(); idx = v.idx; val = asarr(args[0])
            if isinstance(idx, tuple) and any(isinstance(x, np.ndarray) for x in idx):
                cols = [toint(x) if isinstance(x, np.ndarray) else x for x in idx]
                n_ = max(len(np.atleast_1d(c)) for c in cols)
                cols = [np.broadcast_to(np.atleast_1d(c), (n_,)) for c in cols]
                vals = np.broadcast_to(val, (n_,) + arr.shape[len(cols):])
                for k in range(n_):
                    pos = tuple(int(c[k]) for c in cols)
                    arr[pos] = (arr[pos] + vals[k]) if what == 'at_add' else vals[k]
                return arr
            if isinstance(idx, np.ndarray):
                idxs = idx.ravel().tolist(); vals = np.broadcast_to(val, (len(idxs),) + arr.shape[1:])
                for k, i in enumerate(idxs):
                    arr[i] = (arr[i] + vals[k]) if what == 'at_add' else vals[k]
            else:
                arr[idx] = (arr[idx] + val) if what == 'at_add' else val
            return arr
        if what == 'dict_get': return v.get(*args)
        if what == 'dict_items': return list(v.items())
        if what == 'dict_keys': return list(v.keys())
        if what == 'dict_values': return list(v.values())
        if what == 'dict_update':
            v.update(*args, **kw); return None
        if what == 'seq_index': return v.index(*args)
        if what == 'seq_extend':
            v.extend(*args); return None
        if what == 'seq_count': return v.count(*args)
        if what == 'seq_append':
            v.append(*args); return None
        raise OutOfFragment('bound ' + what)

    def call_closure(self, c, args, kw):
        ck = (c.mod, c.name)
        if ck in self.contracts:
            if c.bound is not None:
                args = [c.bound] + list(args)
            return self.contracts[ck](*args, **kw)
        self.depth += 1
        if self.depth > 40:
            raise OutOfFragment('depth')
        if isinstance(c.node, ast.FunctionDef):
            CALL_STACK.append('%s.%s' % (c.mod, c.name or c.node.name))
        try:
            node = c.node
            env = {'v': {}, 'p': c.env}
            a = node.args
            params = [x.arg for x in a.posonlyargs + a.args]
            allargs = list(args)
            if c.bound is not None:
                allargs = [c.bound] + allargs
            # singledispatch stubs
            if isinstance(node, ast.FunctionDef) and any('singledispatch' in ast.unparse(d) for d in node.decorator_list):
                tgt = load(c.mod)['dispatch'].get((node.name, allargs[0].cls if isinstance(allargs[0], Struct) else None))
                if tgt is None:
                    raise OutOfFragment('dispatch %s on %r' % (node.name, allargs[0]))
                return self.call_closure(Closure(tgt, None, c.mod, node.name), allargs, kw)
            defaults = a.defaults
            for p, d in zip(params[len(params) - len(defaults):], defaults):
                env['v'][p] = self.ev(d, {'v': {}, 'p': c.env}, c.mod)
            for p, v in zip(params, allargs):
                env['v'][p] = v
            if c.owner is not None and c.bound is not None:
                env['v']['__super__'] = ('super', c.owner, c.bound)
            if a.vararg:
                env['v'][a.vararg.arg] = tuple(allargs[len(params):])
            for k, d in zip(a.kwonlyargs, a.kw_defaults):
                if d is not None:
                    env['v'][k.arg] = self.ev(d, {'v': {}, 'p': c.env}, c.mod)
            named = set(params) | {k.arg for k in a.kwonlyargs}
            extra = {}
            for k, v in kw.items():
                if a.kwarg is not None and k not in named:
                    extra[k] = v
                else:
                    env['v'][k] = v
            if a.kwarg is not None:
                env['v'][a.kwarg.arg] = extra
            if isinstance(node, ast.Lambda):
                return self.ev(node.body, env, c.mod)
            # decorators: @jax.vmap on nested def handled at def time
            is_gen = any(isinstance(x, (ast.Yield, ast.YieldFrom)) for x in _own_body_nodes(node))
            if is_gen:
                # a (finite, host-side) generator is run to exhaustion; its value is the list of yielded values
                env['v']['__yield__'] = []
            try:
                self.block(node.body, env, c.mod)
            except Ret as r:
                return env['v']['__yield__'] if is_gen else r.v
            return env['v']['__yield__'] if is_gen else None
        finally:
            if isinstance(c.node, ast.FunctionDef):
                CALL_STACK.pop()
            self.depth -= 1

    # --- statements
    def block(self, stmts, env, mod):
        for s in stmts:
            self.stmt(s, env, mod)

    def assign(self, t, v, env, mod):
        if isinstance(t, ast.Name):
            if self.widen_at is not None:
                v = self.widen(v)
            env['v'][t.id] = v
        elif isinstance(t, (ast.Tuple, ast.List)):
            if isinstance(v, Struct) and v.cls in NAMEDTUPLES:
                v = list(v.f.values())
            vs = list(v) if not isinstance(v, np.ndarray) else [v[i] for i in range(v.shape[0])]
            if len(vs) != len(t.elts):
                raise OutOfFragment('unpack arity')
            for e, x in zip(t.elts, vs):
                self.assign(e, x, env, mod)
        elif isinstance(t, ast.Subscript):
            tgt = self.ev(t.value, env, mod)
            if isinstance(tgt, np.ndarray) and tgt.dtype.kind in 'iub' and isinstance(v, (Rat, np.ndarray)) and (
                    isinstance(v, Rat) or v.dtype == object):
                vals = [Rat.lift(x) for x in asarr(v).ravel()]
                if not all(x.is_const() and x.constval() == int(x.constval()) for x in vals):
                    # numpy silently truncates a real value stored into an integer array
                    raise IntegerTruncation('a real-valued quantity is stored into an array of dtype %s (numpy truncates it silently)' % tgt.dtype)
                v = np.array([int(x.constval()) for x in vals]).reshape(asarr(v).shape) if asarr(v).shape else int(vals[0].constval())
            tgt[self.ev_index(t.slice, env, mod)] = v
        elif isinstance(t, ast.Attribute):
            tgt = self.ev(t.value, env, mod)
            if isinstance(tgt, Struct):
                tgt.f[t.attr] = v
            else:
                raise OutOfFragment('attribute store on %s' % type(tgt).__name__)
        else:
            raise OutOfFragment('assign target')

    def stmt(self, s, env, mod):
        t = type(s)
        if t is ast.Expr:
            if isinstance(s.value, ast.Constant):
                return
            self.ev(s.value, env, mod); return
        if t is ast.Return:
            raise Ret(self.ev(s.value, env, mod) if s.value else None)
        if t is ast.Assign:
            v = self.ev(s.value, env, mod)
            for tg in s.targets:
                self.assign(tg, v, env, mod)
            return
        if t is ast.AugAssign:
            cur = self.ev(s.target, env, mod)
            v = self.binop(s.op, cur, self.ev(s.value, env, mod))
            self.assign(s.target, v, env, mod); return
        if t is ast.AnnAssign:
            if s.value is not None:
                self.assign(s.target, self.ev(s.value, env, mod), env, mod)
            return
        if t is ast.If:
            c = self.ev(s.test, env, mod)
            if isinstance(c, Rat) and c.is_const():
                c = c.constval() != 0
            if isinstance(c, (HostObj, Fraction, float, np.bool_, np.integer)):
                c = bool(c)
            if isinstance(c, (Rat, np.ndarray)) and getattr(self, 'generic_branches', False) and not FIELD['on']:
                # host-side code branching on symbolic data: at a GENERIC point an equality / closeness test between
                # symbolic values is false (the special points are a check's own, separate instances)
                c2 = subst_atoms(c, lambda a_: Rat.lift(0) if isinstance(a_, Atom) and (
                    a_.kind == 'allclose' or (a_.kind == 'bool' and a_.key[1] == '==')) else None)
                c2 = Rat.lift(asarr(c2).ravel()[0]) if asarr(c2).size == 1 else c2
                if isinstance(c2, Rat) and c2.is_const():
                    c = c2.constval() != 0
            if not isinstance(c, (bool, type(None), int, str, tuple, list, dict)):
                if getattr(self, 'assume_valid', False) and s.body and all(isinstance(b_, ast.Raise) for b_ in s.body) and not s.orelse:
                    return      # a validity check on symbolic data of a model that IS valid: the raise is not taken
                raise OutOfFragment('branch on abstract value: ' + ast.unparse(s.test))
            self.block(s.body if c else s.orelse, env, mod); return
        if t is ast.For:
            broke = False
            for item in self.ev(s.iter, env, mod):
                self.assign(s.target, item, env, mod)
                try:
                    self.block(s.body, env, mod)
                except _Continue:
                    continue
                except _Break:
                    broke = True
                    break
            if not broke and s.orelse:
                self.block(s.orelse, env, mod)
            return
        if t is ast.Continue:
            raise _Continue()
        if t is ast.Break:
            raise _Break()
        if t is ast.With:
            for it_ in s.items:
                self.ev(it_.context_expr, env, mod)
            self.block(s.body, env, mod); return
        if t is ast.While:
            n_it = 0
            while True:
                c = self.ev(s.test, env, mod)
                if isinstance(c, Rat) and c.is_const():
                    c = c.constval() != 0
                if not isinstance(c, (bool, type(None), int, str, tuple, list, dict)):
                    raise OutOfFragment('while on abstract value: ' + ast.unparse(s.test))
                if not c:
                    break
                try:
                    self.block(s.body, env, mod)
                except _Continue:
                    pass
                except _Break:
                    break
                n_it += 1
                if n_it > 100000:
                    raise OutOfFragment('while loop does not terminate')
            return
        if t is ast.FunctionDef:
            if (mod, s.name) in self.opaque:
                env['v'][s.name] = ('prim', s.name, self.opaque[(mod, s.name)]); return
            fn = Closure(s, env, mod, s.name)
            for d in reversed(s.decorator_list):
                dn = ast.unparse(d)
                if dn == 'jax.vmap':
                    fn = Vmapped(fn)
                elif dn == 'jax.jit':
                    pass
                else:
                    raise OutOfFragment('decorator ' + dn)
            env['v'][s.name] = fn; return
        if t is ast.Delete:
            for tg in s.targets:
                if isinstance(tg, ast.Subscript):
                    obj = self.ev(tg.value, env, mod)
                    if isinstance(obj, dict):
                        obj.pop(self.ev_index(tg.slice, env, mod), None)
            return
        if t is ast.Assert or t is ast.Pass:
            return
        if t is ast.Raise:
            raise OutOfFragment('raise reached: ' + ast.unparse(s)[:60])
        raise OutOfFragment('stmt %s' % t.__name__)

def same(a, b):
    if isinstance(a, Struct):
        return isinstance(b, Struct) and all(same(a.f[k], b.f[k]) for k in a.f)
    if isinstance(a, (tuple, list)) and not isinstance(a, np.ndarray):
        return len(a) == len(b) and all(same(x, y) for x, y in zip(a, b))
    if a is None or b is None:
        return a is b
    a, b = asarr(a), asarr(b)
    if a.shape != b.shape:
        return False
    return all(Rat.lift(x).same(Rat.lift(y)) for x, y in zip(a.ravel(), b.ravel()))

def fn(mod, name):
    try:
        m = load(mod)
    except (FileNotFoundError, OSError):
        raise AnalysisError('anchor module %s not found' % mod)
    if '.' in name:
        c, a = name.split('.')
        if c not in m['classes']:
            raise AnalysisError('anchor class %s.%s not found' % (mod, c))
        fm = find_method(mod, c, a)
        if fm is None:
            raise AnalysisError('anchor method %s.%s not found' % (mod, name))
        return Closure(fm[1], None, fm[0], name)
    if name not in m['defs']:
        raise AnalysisError('anchor function %s.%s not found' % (mod, name))
    return Closure(m['defs'][name], None, mod, name)

def nested_fn(interp, mod, outer, name, closure_vars=None):
    """Closure for a def nested in module-level function `outer`; closure_vars supplies the
    enclosing function's locals the nested def refers to."""
    o = fn(mod, outer)
    for s in ast.walk(o.node):
        if isinstance(s, ast.FunctionDef) and s.name == name and s is not o.node:
            env = {'v': dict(closure_vars or {}), 'p': None}
            interp.stmt(s, env, mod)
            return env['v'][name]
    raise AnalysisError('anchor nested function %s.%s.%s not found' % (mod, outer, name))


class _Found(Exception):
    def __init__(self, env):
        self.env = env


def nested_fn_auto(interp, mod, outer, name, outer_args, overrides=None):
    """Closure for a def nested in module-level function `outer`, obtained by INTERPRETING the enclosing
    function's own statements (with the given arguments) up to the nested def -- so the closure sees
    whatever locals the current source defines before it (no frozen list of closure variables).
    `overrides` replaces selected locals afterwards (e.g. an expensive model constant by a symbol);
    overriding a name the source no longer defines is ignored."""
    o = fn(mod, outer)
    node = o.node
    params = [x.arg for x in node.args.posonlyargs + node.args.args]
    env = {'v': {}, 'p': None}
    defaults = node.args.defaults
    for p, d in zip(params[len(params) - len(defaults):], defaults):
        env['v'][p] = interp.ev(d, {'v': {}, 'p': None}, mod)
    for p in params:
        if p in outer_args:
            env['v'][p] = outer_args[p]
    missing = [p for p in params if p not in env['v']]
    if missing:
        raise AnalysisError('nested_fn_auto %s.%s: no value for parameter(s) %s' % (mod, outer, missing))

    def walk(stmts):
        for s in stmts:
            if isinstance(s, ast.FunctionDef) and s.name == name:
                interp.stmt(s, env, mod)
                raise _Found(env)
            if isinstance(s, (ast.If, ast.For, ast.With, ast.While)) and any(
                    isinstance(x, ast.FunctionDef) and x.name == name for x in ast.walk(s)):
                raise AnalysisError('nested function %s.%s.%s is defined under control flow' % (mod, outer, name))
            interp.stmt(s, env, mod)

    try:
        try:
            walk(node.body)
        except Ret:
            raise AnalysisError('%s.%s returned before defining %s with the given arguments' % (mod, outer, name))
    except _Found as f:
        for k, v in (overrides or {}).items():
            if k in f.env['v']:
                f.env['v'][k] = v
        return f.env['v'][name], f.env['v']
    raise AnalysisError('anchor nested function %s.%s.%s not found' % (mod, outer, name))



def subst_atoms(v, f):
    """Exact mode: replace every atom a for which f(a) is not None by the value f(a), inside polynomials and
    (recursively) inside the arguments of the remaining uninterpreted atoms."""
    memo = {}

    def atom(a):
        if a in memo:
            return memo[a]
        r = f(a)
        if r is not None:
            r = rat(r)          # the replacement may itself contain atoms to replace (nested markers)
        if r is None and isinstance(a, Atom) and a in ATOM_ARGS:
            name, args = ATOM_ARGS[a]
            new = tuple(rat(x) if isinstance(x, Rat) else (elemwise(rat, x) if isinstance(x, np.ndarray) else x) for x in args)
            changed = any((isinstance(x, Rat) and not x.same(y)) or (isinstance(x, np.ndarray) and not same(x, y))
                          for x, y in zip(args, new))
            if changed:
                # commutative atoms keep their arguments sorted: re-canonicalise after the substitution
                r = _minmax(name, *new) if name in ('min', 'max') and len(new) == 2 else uf(name, *new)
        memo[a] = r
        return r

    def poly(p):
        out = Rat.lift(0)
        for mono, c in p.t.items():
            term = Rat(Poly.const(c))
            for n, e in mono:
                r = atom(n) if isinstance(n, Atom) else None
                base = r if r is not None else Rat(Poly.sym(n))
                term = term * base ** e
            out = out + term
        return out

    def rat(r):
        r = Rat.lift(r)
        if r.fv is not None:
            raise OutOfFragment('subst_atoms needs exact mode')
        n = poly(r.n)
        return n if r.d.is_const() and r.d.constval() == 1 else n / poly(r.d)

    if isinstance(v, np.ndarray):
        return elemwise(rat, v)
    return rat(v)


def free_symbols(v, opaque_kinds=()):
    """Names of the plain symbols (and atoms, transitively through their arguments) a value depends on, not
    descending into atoms whose kind is in opaque_kinds."""
    out = set()

    def atom(a):
        if isinstance(a, Atom):
            if a.kind in opaque_kinds:
                return
            if a in ATOM_ARGS:
                for x in ATOM_ARGS[a][1]:
                    if isinstance(x, Rat):
                        rat(x)
                    elif isinstance(x, np.ndarray):
                        for y in x.ravel():
                            rat(y)
                return
        out.add(a)

    def rat(r):
        r = Rat.lift(r)
        for p in (r.n, r.d):
            for mono in p.t:
                for n, _ in mono:
                    atom(n)

    for x in asarr(v).ravel():
        rat(x)
    return out


# ---------------------------------------------------------------------------------------------
# Additional jax.numpy primitives on object arrays (idioms a refactoring may switch to).
def _einsum(subs, *ops):
    import itertools as _it
    subs = subs.replace(' ', '')
    if '...' in subs:
        raise OutOfFragment('einsum with ellipsis')
    lhs, _, rhs = subs.partition('->')
    ins = lhs.split(',')
    ops = [asarr(o) for o in ops]
    if len(ins) != len(ops):
        raise OutOfFragment('einsum operand count')
    dims = {}
    for s_, o in zip(ins, ops):
        if len(s_) != o.ndim:
            raise OutOfFragment('einsum rank')
        for c, n in zip(s_, o.shape):
            if dims.setdefault(c, n) != n:
                raise OutOfFragment('einsum dimension mismatch')
    if not _:
        rhs = ''.join(sorted(c for c in dims if lhs.count(c) == 1))
    summed = [c for c in dims if c not in rhs]
    out = np.empty(tuple(dims[c] for c in rhs), dtype=object)
    for oidx in np.ndindex(*out.shape):
        env = dict(zip(rhs, oidx))
        tot = Rat.lift(0)
        for sidx in _it.product(*[range(dims[c]) for c in summed]):
            env.update(zip(summed, sidx))
            term = Rat.lift(1)
            for s_, o in zip(ins, ops):
                term = term * Rat.lift(o[tuple(env[c] for c in s_)])
            tot = tot + term
        out[oidx] = tot
    return out if out.shape else out[()]


def _cmp_prim(op):
    return lambda a, b: elemwise(lambda x, y: Rat.lift(x)._cmp(op, y), a, b)


def _reduce_minmax(kind):
    def red(x, axis=None, **kw):
        x = asarr(x)
        if axis is None:
            vals = list(x.ravel())
            r = vals[0]
            for v in vals[1:]:
                r = _minmax(kind, r, v)
            return r
        moved = np.moveaxis(x, axis, -1)
        out = np.empty(moved.shape[:-1], dtype=object)
        for idx in np.ndindex(*moved.shape[:-1]):
            out[idx] = red(moved[idx])
        return out
    return red


def _arg_extreme(kind):
    def f(x, axis=None, **kw):
        x = asarr(x)
        if not all(Rat.lift(v).is_const() for v in x.ravel()):
            raise OutOfFragment('arg%s of abstract values' % kind)
        c = np.array([float(Rat.lift(v).constval()) for v in x.ravel()]).reshape(x.shape)
        return (np.argmax if kind == 'max' else np.argmin)(c, axis=axis)
    return f


def _allclose(a, b):
    d = asarr(a) - asarr(b)
    vals = [Rat.lift(v) for v in asarr(d).ravel()]
    if all(v.is_const() for v in vals):
        return all(abs(float(v.constval())) <= 1e-8 for v in vals)
    return uf('allclose', d)


_DTYPE_CLASSES = {
    'generic': ('float', 'int', 'uint', 'bool'), 'number': ('float', 'int', 'uint'), 'inexact': ('float',), 'floating': ('float',),
    'integer': ('int', 'uint'), 'signedinteger': ('int',), 'unsignedinteger': ('uint',), 'bool_': ('bool',), 'bool': ('bool',)}


def _promote_types(a, b):
    """jnp.promote_types on the interpreter's dtype tags (JAX's lattice, x64 disabled): int (+) float -> float32 -- NOT a
    superset of int32 (24-bit mantissa) --, equal kinds stay, anything (+) bool stays."""
    def kind(d):
        if isinstance(d, tuple) and d and d[0] == 'dtype':
            return d[1]
        if isinstance(d, tuple) and len(d) == 3 and d[0] == 'prim':
            d = d[1]
        for nm in ('float16', 'float32', 'float64', 'int8', 'int16', 'int32', 'int64', 'uint8', 'uint32', 'uint64', 'bool_'):
            if d is JNP.get(nm) or d == nm:
                return 'float' if nm.startswith('float') else 'bool' if nm == 'bool_' else 'uint' if nm.startswith('uint') else 'int'
        if d is float: return 'float'
        if d is int: return 'int'
        if d is bool: return 'bool'
        raise OutOfFragment('promote_types of %r' % (d,))
    ka, kb = kind(a), kind(b)
    if ka == kb:
        return ('dtype', ka)
    if 'bool' in (ka, kb):
        return ('dtype', kb if ka == 'bool' else ka)
    if 'float' in (ka, kb):
        return ('dtype', 'float32<-' + (kb if ka == 'float' else ka))      # lossy for 32-bit integers
    return ('dtype', 'int')


def _issubdtype(d, c):
    """numpy's dtype lattice on the interpreter's dtype tags (float / int / uint / bool)."""
    if not (isinstance(d, tuple) and d and d[0] == 'dtype'):
        return True
    kind = d[1]
    if isinstance(c, tuple) and c and c[0] == 'dtypeclass':
        return kind in _DTYPE_CLASSES.get(c[1], ())
    if isinstance(c, tuple) and c and c[0] == 'dtype':
        return kind == c[1]
    if callable(c):
        return True
    return True


def _select(condlist, choicelist, default=0):
    out = asarr(default)
    for c, v in reversed(list(zip(condlist, choicelist))):
        out = P_where(c, v, out)
    return out


JNP.update({
    'einsum': _einsum,
    'tensordot': lambda a, b, axes=2: np.tensordot(asarr(a), asarr(b), axes=axes),
    'matmul': lambda a, b, precision=None, preferred_element_type=None: np.matmul(asarr(a), asarr(b)),
    'inner': lambda a, b: np.inner(asarr(a), asarr(b)),
    'vdot': lambda a, b: (asarr(a).ravel() * asarr(b).ravel()).sum(),
    'true_divide': lambda a, b: asarr(a) / asarr(b),
    'hstack': lambda xs: np.hstack([asarr(x) for x in xs]),
    'full_like': lambda x, v, **k: _full(asarr(x).shape, v),
    'moveaxis': lambda a, s_, d: np.moveaxis(asarr(a), s_, d),
    'ravel': lambda a: asarr(a).ravel(),
    'select': _select,
    'power': lambda a, b: elemwise(lambda x, y: Rat.lift(x) ** (y.constval() if isinstance(y, Rat) and y.is_const() else y), a, b),
    'float_power': lambda a, b: elemwise(lambda x, y: Rat.lift(x) ** (y.constval() if isinstance(y, Rat) and y.is_const() else y), a, b),
    'reciprocal': lambda a: 1 / asarr(a),
    'kron': lambda a, b: np.kron(asarr(a), asarr(b)),
    'take_along_axis': lambda a, i, axis: np.take_along_axis(asarr(a), toint(i), axis=axis),
    'flip': lambda a, axis=None: np.flip(asarr(a), axis=axis),
    'cumsum': lambda a, axis=None, **k: np.cumsum(asarr(a), axis=axis),
    'cumprod': lambda a, axis=None, **k: np.cumprod(asarr(a), axis=axis),
    'max': _reduce_minmax('max'), 'amax': _reduce_minmax('max'), 'min': _reduce_minmax('min'), 'amin': _reduce_minmax('min'),
    'argmax': _arg_extreme('max'), 'argmin': _arg_extreme('min'),
    'nan_to_num': lambda x, **k: elemwise(lambda v: P_where(JNP['isnan'](v), 0, v), x),
    'allclose': lambda a, b, **k: _allclose(a, b),
    'isclose': lambda a, b, **k: elemwise(lambda x, y: uf('allclose', Rat.lift(x) - Rat.lift(y)), a, b),
    'atleast_1d': lambda a: np.atleast_1d(asarr(a)), 'atleast_2d': lambda a: np.atleast_2d(asarr(a)),
    'broadcast_to': lambda a, shape: np.broadcast_to(asarr(a), shape).copy(),
    'array_split': lambda a, n, axis=0: list(np.array_split(asarr(a), n, axis=axis)),
    'insert': lambda a, i, v, axis=None: np.insert(asarr(a), toint(i), asarr(v), axis=axis),
    'delete': lambda a, i, axis=None: np.delete(asarr(a), toint(i), axis=axis),
    'logical_xor': lambda a, b: asarr(a) + asarr(b) - 2 * asarr(a) * asarr(b),
    'equal': _cmp_prim('=='), 'not_equal': _cmp_prim('!='), 'less': _cmp_prim('<'), 'greater': _cmp_prim('>'),
    'less_equal': _cmp_prim('<='), 'greater_equal': _cmp_prim('>='),
    'ceil': unary('ceil'), 'round': lambda x, decimals=0, **k: _round_dec(x, decimals), 'around': lambda x, decimals=0, **k: _round_dec(x, decimals),
    'identity': lambda n, **k: P_eye(n),
    'newaxis': None, 'nan': float('nan'), 'bool_': ('dtypeclass', 'bool_'), 'number': ('dtypeclass', 'number'),
    'signedinteger': ('dtypeclass', 'signedinteger'), 'unsignedinteger': ('dtypeclass', 'unsignedinteger'), 'generic': ('dtypeclass', 'generic'),
    'uint32': lambda x: x, 'uint8': lambda x: x, 'int64': lambda x: x, 'int8': lambda x: x, 'uint64': lambda x: x, 'float16': lambda x: x,
    'linspace': lambda a, b, n=50, **k: np.array([Rat.lift(exact(float(v))) for v in np.linspace(float(Rat.lift(a).constval()), float(Rat.lift(b).constval()), int(n))], dtype=object),
})
def _fromstring(x, dtype=None, count=-1, sep=' ', **kw):
    if isinstance(x, NumStr):
        return asarr(list(x.vals))
    if isinstance(x, str):
        toks = [t for t in x.replace(',', ' ').split() if t]
        return asarr([Rat.lift(exact(float(t))) for t in toks])
    raise OutOfFragment('np.fromstring of %s' % type(x).__name__)


JNP['fromstring'] = _fromstring


def _concrete(x, what):
    if isinstance(x, np.ndarray) and x.dtype != object:
        return x
    vals = [Rat.lift(v) for v in asarr(x).ravel()]
    if not all(v.is_const() for v in vals):
        raise OutOfFragment('%s of abstract values' % what)
    cs = [v.constval() for v in vals]
    if all(c == int(c) for c in cs):
        return np.array([int(c) for c in cs]).reshape(asarr(x).shape)          # integer data stays integer (ids, indices)
    return np.array([float(c) for c in cs]).reshape(asarr(x).shape)


# less common numpy / jax.numpy names (robustness against rewrites; each is a definition in terms of modelled primitives)
JNP.update({
    'absolute': lambda x: JNP['abs'](x), 'fabs': lambda x: JNP['abs'](x),
    'fmin': lambda a, b: JNP['minimum'](a, b), 'fmax': lambda a, b: JNP['maximum'](a, b),
    'array_equal': lambda a, b, **k: (asarr(a).shape == asarr(b).shape) and _all(elemwise(lambda x, y: Rat.lift(x)._cmp('==', y), a, b)),
    'sinh': unary('sinh'), 'cosh': unary('cosh'), 'log2': unary('log2'), 'log10': unary('log10'), 'exp2': unary('exp2'),
    'deg2rad': lambda x: asarr(x) * (pi() / 180), 'rad2deg': lambda x: asarr(x) * 180 / pi(),
    'radians': lambda x: asarr(x) * (pi() / 180), 'degrees': lambda x: asarr(x) * 180 / pi(),
    'ndim': lambda x: asarr(x).ndim, 'shape': lambda x: asarr(x).shape, 'size': lambda x: asarr(x).size,
    'copy': lambda x: asarr(x).copy(),
    'hypot': lambda a, b: elemwise(lambda x, y: JNP['sqrt'](Rat.lift(x) * Rat.lift(x) + Rat.lift(y) * Rat.lift(y)), a, b),
    'diff': lambda x, n=1, axis=-1: np.diff(asarr(x), n=n, axis=axis),
    'average': lambda x, axis=None, weights=None: (asarr(x).sum(axis=axis) / (asarr(x).size if axis is None else asarr(x).shape[axis])) if weights is None
               else (asarr(x) * asarr(weights)).sum(axis=axis) / asarr(weights).sum(axis=axis),
    'count_nonzero': lambda x, axis=None: np.count_nonzero(_concrete(x, 'count_nonzero'), axis=axis),
    'log2': lambda x: (np.log2(_concrete(x, 'log2')) if all(Rat.lift(v).is_const() for v in asarr(x).ravel()) else unary('log2')(x)),
    'flatnonzero': lambda x: np.flatnonzero(_concrete(x, 'flatnonzero')),
    # uninitialised storage: native (typed) when the prototype is a native numeric array -- writing a real value into an
    # integer array truncates it, which the interpreter refuses (IntegerTruncation)
    'empty_like': lambda x, dtype=None: (np.zeros_like(x) if isinstance(x, np.ndarray) and x.dtype != object and dtype is None
                                         else P_zeros(asarr(x).shape)),
    'empty': lambda shape, dtype=None: P_zeros(shape, dtype),
    'ix_': lambda *a: np.ix_(*[np.asarray(_concrete(x, 'ix_')).astype(int) for x in a]),
    'nonzero': lambda x, **k: np.nonzero(_concrete(x, 'nonzero')),
    'argwhere': lambda x, **k: np.argwhere(_concrete(x, 'argwhere')),
    'isin': lambda a, b, **k: np.isin(_concrete(a, 'isin'), _concrete(b, 'isin')),
    'unique': lambda x, **k: np.unique(_concrete(x, 'unique')),
    'cumsum': JNP.get('cumsum') or (lambda x, axis=None: np.cumsum(asarr(x), axis=axis)),
    'sort': lambda x, axis=-1: np.sort(_concrete(x, 'sort'), axis=axis),
    'argsort': lambda x, axis=-1: np.argsort(_concrete(x, 'argsort'), axis=axis, kind='stable'),
    'dstack': lambda xs: np.dstack([asarr(x) for x in xs]),
    'pad': lambda x, pad_width, mode='constant', constant_values=0: np.pad(asarr(x), pad_width, mode='constant',
                                                                             constant_values=Rat.lift(constant_values)),
})
JNP['linalg']['det'] = lambda a: _det(asarr(a))


def _det(a):
    n = a.shape[0]
    if n == 1:
        return a[0, 0]
    tot = Rat.lift(0)
    for j in range(n):
        minor = np.delete(np.delete(a, 0, axis=0), j, axis=1)
        tot = tot + (-1) ** j * Rat.lift(a[0, j]) * _det(minor)
    return tot
